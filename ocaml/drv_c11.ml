(* drv_c11.ml -- reads cases and the implementation's observations, prints per case the model's
   observation line (same syntax as the harness) and the oracle verdict evaluated on the
   implementation's wire bytes and is_connected() answers.  usage: drv_c11 cases.txt impl.txt
   Parsing and printing only; every decision is taken by extracted Coq functions. *)
let nat = nat_of_int
let cap = nat (int_of_n src_chunk_read_hi - int_of_n src_chunk_read_lo)   (* the read window of copy_chunked_async, re-read from src/util.rs on every run (Generated/SourceParams.v) *)

let strip_prefix p s =
  let lp = String.length p in
  if String.length s >= lp && String.sub s 0 lp = p then Some (String.sub s lp (String.length s - lp)) else None

(* text token: '+'-joined pieces  x<hex> | R<count>:<hexbyte> *)
let parse_text (t : string) : n list =
  List.concat_map (fun piece ->
      match strip_prefix "R" piece with
      | Some rest ->
        (match String.split_on_char ':' rest with
         | [cnt; hb] -> let b = bytes_of_tok ("x" ^ hb) in List.concat (List.init (int_of_string cnt) (fun _ -> b))
         | _ -> failwith "bad R piece")
      | None -> bytes_of_tok piece) (String.split_on_char '+' t)

let parse_step1 (t : string) : caction =
  match t.[0] with
  | 'S' ->
    (match String.split_on_char ',' (String.sub t 1 (String.length t - 1)) with
     | [i; "m"; d] -> Send (nat (int_of_string i), Message (parse_text d))
     | [i; "c"; ty; d] -> Send (nat (int_of_string i), Custom (parse_text ty, parse_text d))
     | _ -> failwith ("bad send " ^ t))
  | 'C' -> Clone (nat (int_of_string (String.sub t 1 (String.length t - 1))))
  | 'D' -> Disconnect (nat (int_of_string (String.sub t 1 (String.length t - 1))))
  | 'X' -> DropSender (nat (int_of_string (String.sub t 1 (String.length t - 1))))
  | 'W' -> WriterPoll
  | 'G' -> ClientGone
  | _ -> failwith ("bad step " ^ t)

(* W<k> = one scheduling of the writer task with up to k reads = k writer polls of the model
   (a poll on an empty queue with live senders is a no-op) *)
let parse_step (t : string) : caction list =
  if t.[0] = 'W' && String.length t > 1 then List.init (int_of_string (String.sub t 1 (String.length t - 1))) (fun _ -> WriterPoll)
  else [parse_step1 t]

let rec drop k l = if k <= 0 then l else match l with [] -> [] | _ :: t -> drop (k - 1) t
let model_step (s : cst) (a : caction) : cst = match cstep true cap s a with Some s' -> s' | None -> s
let flags_of (s : cst) : string =
  let nh = int_of_nat s.next_h in
  String.init nh (fun i ->
      if List.exists (fun h -> int_of_nat h.h_id = i) s.handles then (if is_connected s (nat i) then '1' else '0') else 'x')
let state_of (s : cst) = match s.wst with WActive -> "A" | WTerminated -> "T" | WReaderErr -> "R" | WWriterErr -> "W"

let sse_case (toks : string list) (impl_line : string) : string * string =
  (* optional first token w<k> (short writes of the recording writer): invisible to the model *)
  let toks = (match toks with t :: r when t.[0] = 'w' -> r | _ -> toks) in
  let acts_multi = List.map parse_step toks in
  let acts = List.map List.hd acts_multi in
  (* ---- model ---- *)
  let seen = ref 0 in
  let obs (s : cst) : string =
    let w = wire_bytes s in
    let fresh = drop !seen w in
    seen := List.length w;
    Printf.sprintf "%s,%s,%s" (if fresh = [] then "-" else tok_of_bytes fresh) (flags_of s) (state_of s) in
  let (s, outs) = List.fold_left (fun (s, acc) al -> let s' = List.fold_left model_step s al in (s', obs s' :: acc)) (cinit, []) acts_multi in
  let rec drain k s = if k = 0 then s else let s' = model_step s WriterPoll in if s' = s then s else drain (k - 1) s' in
  let s1 = drain 80 s in
  let f1 = obs s1 in
  let s2 = List.fold_left (fun s h -> model_step s (DropSender h.h_id)) s1 s1.handles in
  let s3 = drain 80 s2 in
  let f2 = obs s3 in
  let model = Printf.sprintf "%s ; %s ; %s" (String.concat " " (List.rev outs)) f1 f2 in
  (* ---- oracle on the implementation's observation ---- *)
  let verdict =
    (match split_ws impl_line with
     | "panic" :: _ -> "oracle=fail@panic"
     | itoks ->
       (try
          let parse_ob t = match String.split_on_char ',' t with
            | [b; f; st] -> ((if b = "-" then [] else bytes_of_tok b), f, st)
            | _ -> failwith "bad ob" in
          let rec split acc = function ";" :: r -> (List.rev acc, r) | x :: r -> split (x :: acc) r | [] -> failwith "no ;" in
          let (steps, rest) = split [] itoks in
          (match rest with
           | [g1; ";"; g2] ->
             let steps = List.map parse_ob steps and o1 = parse_ob g1 and o2 = parse_ob g2 in
             if List.length steps <> List.length acts then "oracle=shape" else
             let all_obs = steps @ [o1; o2] in
             let wire_all = List.concat_map (fun (b, _, _) -> b) all_obs in
             (* accepted per the implementation's own is_connected() answers *)
             let flag f i = i < String.length f && f.[i] = '1' in
             let (_, acc_rev) = List.fold_left2 (fun (prev, acc) a (_, f, _) ->
                 match a with
                 | Send (i, e) -> let i = int_of_nat i in
                   (f, if flag prev i && flag f i then e :: acc else acc)
                 | _ -> (f, acc)) ("1", []) acts steps in
             let accepted = List.rev acc_rev in
             let (_, _, fin) = o2 in
             let term_ok = (fin = "T") in
             (* the lossless clauses are on for every history without a client loss *)
             let lossless = not (List.exists (fun a -> a = ClientGone) acts) in
             let stepflags = List.map (fun (_, f, st) -> (st = "T", String.contains f '1')) all_obs in
             let same = (String.trim impl_line = model) in
             let label = function
               | VOk -> "ok"
               | VBadChunking -> "bad-chunking"
               | VBlockMismatch -> "block-does-not-parse-back"
               | VCount -> "accepted-event-not-delivered"
               | VTerminator -> "terminator"
               | VNoDispatch -> "no-dispatch" in
             (match oracle_c11_modulo accepted wire_all term_ok true lossless true stepflags with
              | VOk ->
                (match oracle_c11_strict accepted wire_all with
                 | VOk -> "oracle=ok"
                 | _ ->
                   if kf_c11_missing_blank_line (pieces_of wire_all) then
                     (* a known class is claimed only when implementation and model observations agree;
                        otherwise the difference is what gets reported *)
                     (if same then "oracle=fail@no-dispatch kf=D9"
                      else "oracle=ok strict=no-dispatch(D9-class,not-claimed:observations-differ)")
                   else "oracle=fail@no-dispatch")
              | v ->
                (* known finding D17: the history is in the class [kf_c11_oversize_event] and the ONLY
                   failure is the loss (with the lossless clauses off the oracle accepts the observation) *)
                if kf_c11_oversize_event cap acts
                && oracle_c11_modulo accepted wire_all term_ok true false true stepflags = VOk then
                  (if same then "oracle=fail@oversize-event-lost kf=D17"
                   else "oracle=ok lossless=oversize-event-lost(D17-class,not-claimed:observations-differ)")
                else "oracle=fail@" ^ label v)
           | _ -> "oracle=unparsable")
        with _ -> "oracle=unparsable")) in
  (model, verdict)

let () =
  let cases = read_lines Sys.argv.(1) and impl = read_lines Sys.argv.(2) in
  List.iter2 (fun case impl_line ->
      let (m, v) = match split_ws case with
        | "sse" :: toks -> sse_case toks impl_line
        | ["custom"; t] ->
          let m = (match event_custom (parse_text t) [] with Some _ -> "K" | None -> "E") in
          (m, if String.trim impl_line = m then "oracle=ok" else "oracle=fail@custom-ctor")
        | ["conv"; n1; n2] ->
          (* every event handed to a connected sender, in order, each as its block; nothing ends the body before the
             last sender is gone *)
          let n = int_of_string n1 + int_of_string n2 in
          let text i = List.map (fun c -> n_of_int (Char.code c)) (List.of_seq (String.to_seq ("e" ^ string_of_int i))) in
          let m = tok_of_bytes (List.concat (List.init n (fun i -> encode_gen true (Message (text i))))) in
          (m, if String.trim impl_line = m then "oracle=ok" else "oracle=fail@conversion-of-a-live-stream")
        | "stress" :: _ ->
          ("order=1 counts=1 terminated=1", if String.trim impl_line = "order=1 counts=1 terminated=1" then "oracle=ok" else "oracle=fail@stress")
        | _ -> ("?", "oracle=badcase") in
      Printf.printf "%s | %s\n" m v) cases impl
