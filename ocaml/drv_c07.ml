(* drv_c07.ml -- C07 driver: reads cases and the implementation's observations; prints per case the
   model's observation (same syntax as the harness) and the verdict of the extracted Coq oracle
   evaluated on the IMPLEMENTATION's result and output.  Parsing / printing only.
   usage: drv_c07 cases.txt impl.txt > model.txt

   case:  cc <data> r:<rop,..> w:<wop,..> <budget|-> <pend>
     data   x<hex> | g<seed>_<len> (LCG bytes) | z<hexbyte>_<len> (constant)
     rop    <k> (RGive k) | f (RFail)        wop  <k> (WAccept k) | f (WFail)
   obs:   ok <n> <out> | rerr 0 <out> | werr 0 <out>       out = run-length token (see rle) *)

(* ---- shared helpers (candidates for common.ml) ---- *)
let () =
  (* Process plumbing only.  (1) The extracted list functions are not tail-recursive: re-run with an
     unlimited stack.  (2) Large case files are dealt round-robin to [jobs] worker processes of this same
     program (every case is independent) and the workers' output lines are merged back in case order. *)
  if Sys.getenv_opt "SV_BIGSTACK" = None && Array.length Sys.argv >= 3 then begin
    let exe = Filename.quote Sys.executable_name in
    let lines path = let ic = open_in path in
      let rec go acc = match input_line ic with l -> go (l :: acc) | exception End_of_file -> close_in ic; List.rev acc in go [] in
    let cases = Array.of_list (lines Sys.argv.(1)) and impl = Array.of_list (lines Sys.argv.(2)) in
    let n = Array.length cases in
    let jobs = if n < 2000 then 1 else 8 in
    if jobs = 1 || Array.length impl <> n then
      exit (Sys.command (Printf.sprintf "ulimit -s unlimited 2>/dev/null || ulimit -s 4000000 2>/dev/null; SV_BIGSTACK=1 OCAMLRUNPARAM=s=32M exec %s %s %s"
                           exe (Filename.quote Sys.argv.(1)) (Filename.quote Sys.argv.(2))))
    else begin
      let base = Filename.temp_file "drvc07" "" in
      let part kind j = Printf.sprintf "%s.%s.%d" base kind j in
      for j = 0 to jobs - 1 do
        let oc = open_out (part "cases" j) and oi = open_out (part "impl" j) in
        let i = ref j in
        while !i < n do output_string oc cases.(!i); output_char oc '\n'; output_string oi impl.(!i); output_char oi '\n'; i := !i + jobs done;
        close_out oc; close_out oi
      done;
      let cmd = Buffer.create 256 in
      Buffer.add_string cmd "ulimit -s unlimited 2>/dev/null || ulimit -s 4000000 2>/dev/null; ";
      for j = 0 to jobs - 1 do
        Buffer.add_string cmd (Printf.sprintf "SV_BIGSTACK=1 OCAMLRUNPARAM=s=8M %s %s %s > %s & "
                                 exe (Filename.quote (part "cases" j)) (Filename.quote (part "impl" j)) (Filename.quote (part "out" j)))
      done;
      Buffer.add_string cmd "wait";
      let _ = Sys.command (Buffer.contents cmd) in
      let outs = Array.init jobs (fun j -> Array.of_list (lines (part "out" j))) in
      let ok = ref true in
      for i = 0 to n - 1 do
        let a = outs.(i mod jobs) in
        if i / jobs < Array.length a then print_endline a.(i / jobs) else ok := false
      done;
      for j = 0 to jobs - 1 do List.iter (fun k -> try Sys.remove (part k j) with _ -> ()) ["cases"; "impl"; "out"] done;
      (try Sys.remove base with _ -> ());
      exit (if !ok then 0 else 3)
    end
  end
let byte_memo : n array = Array.init 256 n_of_int
let nlist_of_bytes (b : Bytes.t) : n list =
  let r = ref [] in
  for i = Bytes.length b - 1 downto 0 do r := byte_memo.(Char.code (Bytes.get b i)) :: !r done; !r
let bytes_of_nlist (l : n list) : Bytes.t =
  let len = List.fold_left (fun a _ -> a + 1) 0 l in
  let b = Bytes.create len in
  let _ = List.fold_left (fun i x -> Bytes.set b i (Char.chr ((int_of_n x) land 255)); i + 1) 0 l in b
let split_on c s = if s = "" then [] else String.split_on_char c s
(* data token *)
let data_of_tok (t : string) : Bytes.t =
  match t.[0] with
  | 'x' -> let k = (String.length t - 1) / 2 in
    Bytes.init k (fun i -> Char.chr (16 * hexval t.[1 + 2*i] + hexval t.[2 + 2*i]))
  | 'g' -> (match split_on '_' (String.sub t 1 (String.length t - 1)) with
      | [seed; len] ->
        let x = ref (int_of_string seed land 0x7fffffff) in
        Bytes.init (int_of_string len) (fun _ -> x := (!x * 1103515245 + 12345) land 0x7fffffff; Char.chr ((!x lsr 16) land 255))
      | _ -> failwith "bad g token")
  | 'z' -> (match split_on '_' (String.sub t 1 (String.length t - 1)) with
      | [b; len] -> Bytes.make (int_of_string len) (Char.chr (16 * hexval b.[0] + hexval b.[1]))
      | _ -> failwith "bad z token")
  | _ -> failwith ("bad data token " ^ t)
(* run-length token:  segments joined by ','; x<hex> literal, z<hexbyte>*<count> for runs >= 32; empty = "x" *)
let rle (b : Bytes.t) : string =
  let n = Bytes.length b in
  if n = 0 then "x" else begin
    let buf = Buffer.create (2 * n + 16) in
    let lit = Buffer.create 64 in
    let first = ref true in
    let sep () = if !first then first := false else Buffer.add_char buf ',' in
    let flush () = if Buffer.length lit > 0 then begin sep (); Buffer.add_char buf 'x'; Buffer.add_buffer buf lit; Buffer.clear lit end in
    let hexd = "0123456789abcdef" in
    let i = ref 0 in
    while !i < n do
      let c = Bytes.get b !i in
      let j = ref (!i + 1) in
      while !j < n && Bytes.get b !j = c do incr j done;
      let run = !j - !i in
      if run >= 32 then begin
        flush (); sep ();
        Buffer.add_string buf (Printf.sprintf "z%02x*%d" (Char.code c) run)
      end else
        for _ = 1 to run do Buffer.add_char lit hexd.[Char.code c lsr 4]; Buffer.add_char lit hexd.[Char.code c land 15] done;
      i := !j
    done;
    flush (); Buffer.contents buf
  end
let unrle (t : string) : Bytes.t =
  let out = Buffer.create 1024 in
  List.iter (fun seg ->
      if seg = "" then failwith "bad rle" else
      match seg.[0] with
      | 'x' -> let k = (String.length seg - 1) / 2 in
        for i = 0 to k - 1 do Buffer.add_char out (Char.chr (16 * hexval seg.[1 + 2*i] + hexval seg.[2 + 2*i])) done
      | 'z' -> let c = Char.chr (16 * hexval seg.[1] + hexval seg.[2]) in
        let cnt = int_of_string (String.sub seg 4 (String.length seg - 4)) in
        Buffer.add_string out (String.make cnt c)
      | _ -> failwith "bad rle") (String.split_on_char ',' t);
  Buffer.to_bytes out
let parse_rsched (t : string) : rop list =   (* "r:5,f,0" *)
  List.map (fun s -> if String.length s = 1 && s.[0] >= 'a' && s.[0] <= 'z' then RFail else RGive (nat_of_int (int_of_string s)))
    (split_on ',' (String.sub t 2 (String.length t - 2)))
let parse_wsched (t : string) : wop list =
  List.map (fun s -> if String.length s = 1 && s.[0] >= 'a' && s.[0] <= 'z' then WFail else WAccept (nat_of_int (int_of_string s)))
    (split_on ',' (String.sub t 2 (String.length t - 2)))
let parse_budget (t : string) : nat option = if t = "-" then None else Some (nat_of_int (int_of_string t))
(* ---- end shared helpers ---- *)

let pr_res (res : cres) (out : n list) : string =
  let o = rle (bytes_of_nlist out) in
  match res with
  | COk n -> "ok " ^ decimal_of_n n ^ " " ^ o
  | CReaderErr -> "rerr 0 " ^ o
  | CWriterErr -> "werr 0 " ^ o
  | COutOfFuel -> "outoffuel 0 " ^ o

let () =
  let cases = read_lines Sys.argv.(1) and impl = read_lines Sys.argv.(2) in
  List.iter2 (fun case impl_line ->
    match split_ws case with
    | ["cc"; d; r; w; b; _pend] ->
      let data = nlist_of_bytes (data_of_tok d) in
      let rd = { r_data = data; r_sched = parse_rsched r } in
      let wr = { w_sched = parse_wsched w; w_budget = parse_budget b; w_flush_ok = true } in
      let (((res, out), _), _) = copy_chunked piece_max rd wr in
      let verdict =
        (match split_ws impl_line with
         | "panic" :: _ -> "oracle=fail@panic"
         | [k; n; o] ->
           (try
              let iout = nlist_of_bytes (unrle o) in
              let ires = (match k with
                  | "ok" -> COk (n_of_decimal n) | "rerr" -> CReaderErr | "werr" -> CWriterErr
                  | _ -> failwith "kind") in
              if oracle_c07 piece_max rd ires iout then "oracle=ok" else "oracle=fail@" ^ k
            with _ -> "oracle=fail@unparsable")
         | _ -> "oracle=fail@unparsable") in
      Printf.printf "%s | %s\n" (pr_res res out) verdict
    | _ -> Printf.printf "? | oracle=fail@badcase\n") cases impl
