(* drv_c01.ml -- C01 driver: reads cases and the implementation's observations, prints per case
   the model's observation (harness syntax) and the verdict of the extracted Coq oracle evaluated
   on the implementation's observation.   usage: drv_c01 cases.txt impl.txt > model.txt
   Parsing and printing only; every decision is taken by extracted functions
   (try_read, read_head, read_request_head, read_seq, oracle_c01, oracle_c01_seq, oracle_c01_try,
    status_of, of_head_error). *)
exception Url_miss
exception Bad of string

let key (b : n list) : string = tok_of_bytes b

(* "U k (t p q)*k" -> url_parse as a table lookup; a target outside the table is an error of the
   harness pre-pass and is reported as such *)
let url_of_table (toks : string list) : (n list -> (n list * n list option) option) =
  let tbl = Hashtbl.create 8 in
  (match toks with
   | "U" :: k :: rest ->
     let k = int_of_string k in
     let rec go i r = if i = 0 then () else match r with
         | t :: p :: q :: r' ->
           Hashtbl.replace tbl t
             (if p = "E" then None
              else Some (bytes_of_tok p, (if q = "-" then None else Some (bytes_of_tok q))));
           go (i - 1) r'
         | _ -> raise (Bad "url table") in
     go k rest
   | _ -> raise (Bad "url table"));
  fun t -> match Hashtbl.find_opt tbl (key t) with Some r -> r | None -> raise Url_miss

let head_error_name = function
  | HE_Truncated -> "Truncated" | HE_MissingRequestLine -> "MissingRequestLine"
  | HE_MalformedRequestLine -> "MalformedRequestLine" | HE_MalformedPath -> "MalformedPath"
  | HE_UnsupportedProtocol -> "UnsupportedProtocol" | HE_MalformedHeader -> "MalformedHeader"
let head_error_of_name = function
  | "Truncated" -> HE_Truncated | "MissingRequestLine" -> HE_MissingRequestLine
  | "MalformedRequestLine" -> HE_MalformedRequestLine | "MalformedPath" -> HE_MalformedPath
  | "UnsupportedProtocol" -> HE_UnsupportedProtocol | "MalformedHeader" -> HE_MalformedHeader
  | s -> raise (Bad ("head error " ^ s))
let http_error_name = function
  | E_Disconnected -> "Disconnected" | E_HeadTooLong -> "HeadTooLong"
  | E_MalformedHeaderLine -> "MalformedHeaderLine" | E_MalformedPath -> "MalformedPath"
  | E_MalformedRequestLine -> "MalformedRequestLine" | E_MissingRequestLine -> "MissingRequestLine"
  | E_Truncated -> "Truncated" | E_UnsupportedProtocol -> "UnsupportedProtocol"
  | E_InvalidContentLength -> "InvalidContentLength" | E_MalformedCookieHeader -> "MalformedCookieHeader"
  | E_UnsupportedTransferEncoding -> "UnsupportedTransferEncoding"
let http_error_of_name = function
  | "Disconnected" -> E_Disconnected | "HeadTooLong" -> E_HeadTooLong
  | "MalformedHeaderLine" -> E_MalformedHeaderLine | "MalformedPath" -> E_MalformedPath
  | "MalformedRequestLine" -> E_MalformedRequestLine | "MissingRequestLine" -> E_MissingRequestLine
  | "Truncated" -> E_Truncated | "UnsupportedProtocol" -> E_UnsupportedProtocol
  | "InvalidContentLength" -> E_InvalidContentLength | "MalformedCookieHeader" -> E_MalformedCookieHeader
  | "UnsupportedTransferEncoding" -> E_UnsupportedTransferEncoding
  | s -> raise (Bad ("http error " ^ s))

let pr_head (h : head) : string =
  "ok " ^ tok_of_bytes h.h_method ^ " " ^ tok_of_bytes h.h_path ^ " " ^
  (match h.h_query with None -> "-" | Some q -> tok_of_bytes q) ^
  " H" ^ string_of_int (List.length h.h_headers) ^
  String.concat "" (List.map (fun (a, b) -> " " ^ tok_of_bytes a ^ " " ^ tok_of_bytes b) h.h_headers)
let pr_buf cap (b : fbuf) : string =
  "left " ^ tok_of_bytes b.fb_data ^ " w" ^ string_of_int (int_of_nat (fb_writable cap b))

(* ---- parsing of the implementation's observation *)
let rec take_pairs k toks = if k = 0 then ([], toks) else match toks with
    | a :: b :: r -> let (ps, r') = take_pairs (k - 1) r in ((bytes_of_tok a, bytes_of_tok b) :: ps, r')
    | _ -> raise (Bad "headers")
(* "ok m p q Hk ..." | "err Name" | "pass" | "panic ..." followed by "; left x wN [unread x]" *)
type iobs = IOk of head | IErr of string | IPass | IPanic
let parse_obs (toks : string list) : iobs * n list * n list =
  let (o, rest) = match toks with
    | "ok" :: m :: p :: q :: hk :: r ->
      let k = int_of_string (String.sub hk 1 (String.length hk - 1)) in
      let (hs, r') = take_pairs k r in
      (IOk { h_method = bytes_of_tok m; h_target = []; h_path = bytes_of_tok p;
             h_query = (if q = "-" then None else Some (bytes_of_tok q)); h_headers = hs }, r')
    | "err" :: name :: r -> (IErr name, r)
    | "pass" :: r -> (IPass, r)
    | "panic" :: _ -> (IPanic, [])
    | _ -> raise (Bad "obs") in
  match o, rest with
  | IPanic, _ -> (IPanic, [], [])
  | _, [";"; "left"; l; _w] -> (o, bytes_of_tok l, [])
  | _, [";"; "left"; l; _w; "unread"; u] -> (o, bytes_of_tok l, bytes_of_tok u)
  | _ -> raise (Bad "obs tail")

let dummy_head = { h_method = []; h_target = []; h_path = []; h_query = None; h_headers = [] }
let verdict_of (o, left, unread) : verdict =
  match o with
  | IOk h -> VOk (h, left @ unread)
  | IPass -> VOk (dummy_head, left @ unread)
  | IErr name -> VErr (http_error_of_name name, left @ unread)
  | IPanic -> VPanic

let parse_sched (t : string) : nat list =
  let body = String.sub t 1 (String.length t - 1) in
  if body = "" then [] else List.map (fun s -> nat_of_int (int_of_string s)) (String.split_on_char ',' body)

let split_on_tok (sep : string) (toks : string list) : string list list =
  let rec go cur acc = function
    | [] -> List.rev (List.rev cur :: acc)
    | t :: r when t = sep -> go [] (List.rev cur :: acc) r
    | t :: r -> go (t :: cur) acc r in
  go [] [] toks

let valid_setup n rd (data : n list) =
  (n = 32 || n = 200 || n = 8192) && rd + List.length data <= n && not (rd > 0 && data = [])

let ok_or b what = if b then "oracle=ok" else "oracle=fail@" ^ what

let () =
  let cases = read_lines Sys.argv.(1) and impl = read_lines Sys.argv.(2) in
  List.iter2 (fun case impl_line ->
    try
      let itoks = split_ws impl_line in
      let (utoks, otoks) = match split_on_tok ";;" itoks with
        | [u; o] -> (u, o) | _ -> raise (Bad "no table") in
      let url = url_of_table utoks in
      let echo = String.concat " " utoks ^ " ;; " in
      (match split_ws case with
       | ["try"; n; rd; data] ->
         let n = int_of_string n and rd = int_of_string rd and data = bytes_of_tok data in
         if not (valid_setup n rd data) then print_string (echo ^ "badcase | oracle=fail@badcase\n") else begin
           let cap = nat_of_int n in
           let b = { fb_rd = nat_of_int rd; fb_data = data } in
           let (r, b') = try_read url b in
           let m = (match r with Ok h -> pr_head h | Err e -> "err " ^ head_error_name e | Panic -> "panic") in
           let verdict = (match parse_obs otoks with
               | (IPanic, _, _) -> "oracle=fail@panic"
               | (IOk h, left, _) -> ok_or (oracle_c01_try url cap b (Ok h) left) "try"
               | (IErr name, left, _) -> ok_or (oracle_c01_try url cap b (Err (head_error_of_name name)) left) "try"
               | (IPass, _, _) -> "oracle=unparsable") in
           Printf.printf "%s%s ; %s | %s\n" echo m (pr_buf cap b') verdict
         end
       | [("head" | "req") as mode; n; rd; data; stream; sched; fin; _pend] ->
         let n = int_of_string n and rd = int_of_string rd and data = bytes_of_tok data in
         if not (valid_setup n rd data) then print_string (echo ^ "badcase | oracle=fail@badcase\n") else begin
           let cap = nat_of_int n in
           let fuel = nat_of_int (n + 2) in
           let b = { fb_rd = nat_of_int rd; fb_data = data } in
           let stream = bytes_of_tok stream in
           let s = { in_bytes = stream; in_sched = parse_sched sched; in_err = (fin = "err") } in
           let is_head = (mode = "head") in
           let o = if is_head then read_head url cap fuel b s else read_request_head url cap fuel b s in
           let m = (match o with
               | ROk (h, b', s') -> (if is_head then pr_head h else "pass") ^ " ; " ^ pr_buf cap b' ^ " unread " ^ tok_of_bytes s'.in_bytes
               | RErr (e, b', s') -> "err " ^ http_error_name e ^ " ; " ^ pr_buf cap b' ^ " unread " ^ tok_of_bytes s'.in_bytes
               | RPanic -> "panic"
               | ROutOfFuel -> "outoffuel") in
           let v = verdict_of (parse_obs otoks) in
           let b0 = if is_head then b else fb_shift b in
           let verdict = ok_or (oracle_c01 url is_head cap b0 stream (Some v))
               (match v with VPanic -> "panic" | VOk _ -> "ok-differs-from-spec" | VErr _ -> "error-differs-from-spec") in
           Printf.printf "%s%s | %s\n" echo m verdict
         end
       | ["pipe"; n; k; stream; sched; fin; _pend] ->
         let n = int_of_string n and k = int_of_string k in
         if not (valid_setup n 0 []) then print_string (echo ^ "badcase | oracle=fail@badcase\n") else begin
           let cap = nat_of_int n in
           let fuel = nat_of_int (n + 2) in
           let stream = bytes_of_tok stream in
           let s = { in_bytes = stream; in_sched = parse_sched sched; in_err = (fin = "err") } in
           let outs = read_seq url cap (nat_of_int k) fuel { fb_rd = O; fb_data = [] } s in
           let m = String.concat " / " (List.map (fun o -> match o with
               | ROk (_, b', s') -> "pass ; " ^ pr_buf cap b' ^ " unread " ^ tok_of_bytes s'.in_bytes
               | RErr (e, b', s') -> "err " ^ http_error_name e ^ " ; " ^ pr_buf cap b' ^ " unread " ^ tok_of_bytes s'.in_bytes
               | RPanic -> "panic"
               | ROutOfFuel -> "outoffuel") outs) in
           let parts = split_on_tok "/" otoks in
           let vs = List.map (fun p -> Some (verdict_of (parse_obs p))) parts in
           let verdict = ok_or (oracle_c01_seq url false cap (nat_of_int k) stream vs)
               (if List.exists (fun v -> v = Some VPanic) vs then "panic" else "sequence-differs-from-spec") in
           Printf.printf "%s%s | %s\n" echo m verdict
         end
       | ["task"; _lg; stream] ->
         (* the connection task answers the first message the way its head is classified: 200 from the handler, the
            status of the documented error, or nothing (Disconnected: an empty stream) -- whatever logger is installed *)
         let stream = bytes_of_tok stream in
         let cap = nat_of_int 8192 in
         let s = { in_bytes = stream; in_sched = []; in_err = false } in
         let o = read_request_head url cap (nat_of_int 8194) { fb_rd = O; fb_data = [] } s in
         let m = (match o with
             | ROk (h, _, _) -> "task 200 m=" ^ tok_of_bytes h.h_method
             | RErr (e, _, _) -> (match status_of e with Status c -> "task " ^ string_of_int (int_of_n c) | Drop -> "task none")
             | RPanic -> "task panic" | ROutOfFuel -> "task outoffuel") in
         Printf.printf "%s%s | %s\n" echo m (ok_or (String.concat " " otoks = m) "connection-task-answer")
       | ["status"; name] ->
         let m = (match status_of (http_error_of_name name) with
             | Status c -> "status " ^ string_of_int (int_of_n c) | Drop -> "drop") in
         Printf.printf "%s%s | %s\n" echo m (ok_or (String.concat " " otoks = m) "status-table")
       | ["conv"; name] ->
         let m = http_error_name (of_head_error (head_error_of_name name)) in
         Printf.printf "%s%s | %s\n" echo m (ok_or (String.concat " " otoks = m) "error-conversion")
       | _ -> print_string "? | oracle=badcase\n")
    with
    | Url_miss -> print_string "urlmiss | oracle=fail@urlmiss\n"
    | Bad what -> Printf.printf "unparsable %s | oracle=unparsable\n" what
    | Failure what -> Printf.printf "unparsable %s | oracle=unparsable\n" what
  ) cases impl
