(* drv_c06.ml -- C06 driver: reads cases and the implementation's observations; prints per case the
   model's observation (same syntax as the harness) and the verdict of the extracted Coq oracle
   evaluated on the IMPLEMENTATION's result and wire bytes.  Parsing / printing only.
   The model's text parameters (reason phrase, content-type text) are instantiated from what the
   real tables returned for the case (fields rp= / ct= of the implementation's observation); the
   'rp' / 'ct' cases dump the whole tables and the oracle evaluates the hypotheses on them.
   usage: drv_c06 cases.txt impl.txt > model.txt *)

(* ---- shared helpers (candidates for common.ml) ---- *)
let () =
  (* the extracted list functions are not tail-recursive: re-run with an unlimited stack *)
  if Sys.getenv_opt "SV_BIGSTACK" = None && Array.length Sys.argv >= 3 then begin
    let cmd = Printf.sprintf "ulimit -s unlimited 2>/dev/null || ulimit -s 4000000 2>/dev/null; SV_BIGSTACK=1 OCAMLRUNPARAM=s=32M exec %s %s %s"
        (Filename.quote Sys.executable_name) (Filename.quote Sys.argv.(1)) (Filename.quote Sys.argv.(2)) in
    exit (Sys.command cmd)
  end
let byte_memo : n array = Array.init 256 n_of_int
let nlist_of_bytes (b : Bytes.t) : n list =
  let r = ref [] in
  for i = Bytes.length b - 1 downto 0 do r := byte_memo.(Char.code (Bytes.get b i)) :: !r done; !r
let bytes_of_nlist (l : n list) : Bytes.t =
  let len = List.fold_left (fun a _ -> a + 1) 0 l in
  let b = Bytes.create len in
  let _ = List.fold_left (fun i x -> Bytes.set b i (Char.chr ((int_of_n x) land 255)); i + 1) 0 l in b
let split_on c s = if s = "" then [] else String.split_on_char c s
(* data token *)
let data_of_tok (t : string) : Bytes.t =
  match t.[0] with
  | 'x' -> let k = (String.length t - 1) / 2 in
    Bytes.init k (fun i -> Char.chr (16 * hexval t.[1 + 2*i] + hexval t.[2 + 2*i]))
  | 'g' -> (match split_on '_' (String.sub t 1 (String.length t - 1)) with
      | [seed; len] ->
        let x = ref (int_of_string seed land 0x7fffffff) in
        Bytes.init (int_of_string len) (fun _ -> x := (!x * 1103515245 + 12345) land 0x7fffffff; Char.chr ((!x lsr 16) land 255))
      | _ -> failwith "bad g token")
  | 'z' -> (match split_on '_' (String.sub t 1 (String.length t - 1)) with
      | [b; len] -> Bytes.make (int_of_string len) (Char.chr (16 * hexval b.[0] + hexval b.[1]))
      | _ -> failwith "bad z token")
  | _ -> failwith ("bad data token " ^ t)
(* run-length token:  segments joined by ','; x<hex> literal, z<hexbyte>*<count> for runs >= 32; empty = "x" *)
let rle (b : Bytes.t) : string =
  let n = Bytes.length b in
  if n = 0 then "x" else begin
    let buf = Buffer.create (2 * n + 16) in
    let lit = Buffer.create 64 in
    let first = ref true in
    let sep () = if !first then first := false else Buffer.add_char buf ',' in
    let flush () = if Buffer.length lit > 0 then begin sep (); Buffer.add_char buf 'x'; Buffer.add_buffer buf lit; Buffer.clear lit end in
    let hexd = "0123456789abcdef" in
    let i = ref 0 in
    while !i < n do
      let c = Bytes.get b !i in
      let j = ref (!i + 1) in
      while !j < n && Bytes.get b !j = c do incr j done;
      let run = !j - !i in
      if run >= 32 then begin
        flush (); sep ();
        Buffer.add_string buf (Printf.sprintf "z%02x*%d" (Char.code c) run)
      end else
        for _ = 1 to run do Buffer.add_char lit hexd.[Char.code c lsr 4]; Buffer.add_char lit hexd.[Char.code c land 15] done;
      i := !j
    done;
    flush (); Buffer.contents buf
  end
let unrle (t : string) : Bytes.t =
  let out = Buffer.create 1024 in
  List.iter (fun seg ->
      if seg = "" then failwith "bad rle" else
      match seg.[0] with
      | 'x' -> let k = (String.length seg - 1) / 2 in
        for i = 0 to k - 1 do Buffer.add_char out (Char.chr (16 * hexval seg.[1 + 2*i] + hexval seg.[2 + 2*i])) done
      | 'z' -> let c = Char.chr (16 * hexval seg.[1] + hexval seg.[2]) in
        let cnt = int_of_string (String.sub seg 4 (String.length seg - 4)) in
        Buffer.add_string out (String.make cnt c)
      | _ -> failwith "bad rle") (String.split_on_char ',' t);
  Buffer.to_bytes out
let parse_rsched (t : string) : rop list =   (* "r:5,f,0" *)
  List.map (fun s -> if String.length s = 1 && s.[0] >= 'a' && s.[0] <= 'z' then RFail else RGive (nat_of_int (int_of_string s)))
    (split_on ',' (String.sub t 2 (String.length t - 2)))
let parse_wsched (t : string) : wop list =
  List.map (fun s -> if String.length s = 1 && s.[0] >= 'a' && s.[0] <= 'z' then WFail else WAccept (nat_of_int (int_of_string s)))
    (split_on ',' (String.sub t 2 (String.length t - 2)))
let parse_budget (t : string) : nat option = if t = "-" then None else Some (nat_of_int (int_of_string t))
(* ---- end shared helpers ---- *)

(* ---- response cases (shared with drv_c08.ml) ---- *)
let take_n_toks k toks = let rec go k acc toks = if k = 0 then (List.rev acc, toks) else
    match toks with t :: r -> go (k-1) (t :: acc) r | [] -> failwith "short" in go k [] toks
let plain_reader (data : n list) : reader = { r_data = data; r_sched = [] }
let hexbytes (h : string) : n list = nlist_of_bytes (data_of_tok ("x" ^ h))
(* returns (response, remaining tokens) *)
let parse_response_case (toks : string list) : response * string list =
  match toks with
  | code :: ct :: hk :: rest ->
    let ctype = if ct = "none" then CtNone
      else if ct.[0] = 'v' then CtVariant (nat_of_int (int_of_string (String.sub ct 1 (String.length ct - 1))))
      else CtText (hexbytes (String.sub ct 1 (String.length ct - 1))) in
    let k = int_of_string (String.sub hk 1 (String.length hk - 1)) in
    let (hts, rest) = take_n_toks (2 * k) rest in
    let rec pairs = function a :: b :: t -> (nlist_of_bytes (data_of_tok a), nlist_of_bytes (data_of_tok b)) :: pairs t | _ -> [] in
    let headers = pairs hts in
    (match rest with
     | body :: rest ->
       let (kind, arg) = (match String.index_opt body ':' with
           | Some i -> (String.sub body 0 i, String.sub body (i + 1) (String.length body - i - 1))
           | None -> (body, "")) in
       let declared_data arg = (match String.index_opt arg ':' with
           | Some i -> (n_of_decimal (String.sub arg 0 i), nlist_of_bytes (data_of_tok (String.sub arg (i + 1) (String.length arg - i - 1))))
           | None -> failwith "bad file body") in
       let normal = ref true in
       let b = (match kind with
           | "static" | "str" | "vec" ->
             let d = data_of_tok arg in
             BKnown (n_of_int (Bytes.length d), true, plain_reader (nlist_of_bytes d))
           | "file" | "tmp" -> let (n, d) = declared_data arg in BKnown (n, true, plain_reader d)
           | "fileshrink" ->
             (* cut to <keep> bytes before the body is opened: the same as a file that short *)
             (match String.split_on_char ':' arg with
              | [n; d; keep] ->
                let data = nlist_of_bytes (data_of_tok d) in
                BKnown (n_of_decimal n, true, plain_reader (List.filteri (fun i _ -> i < int_of_string keep) data))
              | _ -> failwith "bad fileshrink body")
           | "filemissing" | "tmpmissing" -> BKnown (n_of_decimal arg, false, plain_reader [])
           | "filedir" -> BKnown (n_of_decimal arg, true, { r_data = []; r_sched = [RFail] })
           | "es" ->
             let items = split_on ',' arg in
             (* item B<n> = a message of n bytes 'a'; an event whose encoding does not fit the read buffer of
                copy_chunked_async (piece_max) makes the event reader fail there: the source errors in mid-stream *)
             let piece_of it = event_message_bytes (if it = "e" then [] else if it.[0] = 'B'
                 then List.init (int_of_string (String.sub it 1 (String.length it - 1))) (fun _ -> n_of_int 97) else hexbytes it) in
             let rec build = function
               | [] -> ([], [])
               | it :: tl -> let p = piece_of it in
                 if List.length p > int_of_n piece_max_N then ([], [RFail])
                 else let (d, s) = build tl in (p @ d, RGive (nat_of_int (List.length p)) :: s) in
             let (d, s) = build items in
             BStream { r_data = d; r_sched = s }
           | "drop" | "getbody" -> normal := false; BKnown (N0, true, plain_reader [])
           | _ -> failwith "bad body kind") in
       ({ r_normal = !normal; r_code = n_of_decimal code; r_ctype = ctype; r_headers = headers; r_body = b }, rest)
     | [] -> failwith "no body")
  | _ -> failwith "bad response case"
let err_name (e : werr) : string = match e with
  | EUnwritable -> "UnwritableResponse" | EDupContentType -> "DuplicateContentTypeHeader"
  | EDupContentLength -> "DuplicateContentLengthHeader" | EDupTransferEncoding -> "DuplicateTransferEncodingHeader"
  | EDisconnected -> "Disconnected" | EReadFile -> "ErrorReadingFile" | EReadBody -> "ErrorReadingResponseBody"
  | EShortBody -> "ErrorReadingResponseBody" | EOutOfFuel -> "OutOfFuel"
(* the implementation cannot tell us which of the two ErrorReadingResponseBody causes it was: try both *)
let errs_of_name (s : string) : werr option list = match s with
  | "ok" -> [None]
  | "UnwritableResponse" -> [Some EUnwritable] | "DuplicateContentTypeHeader" -> [Some EDupContentType]
  | "DuplicateContentLengthHeader" -> [Some EDupContentLength]
  | "DuplicateTransferEncodingHeader" -> [Some EDupTransferEncoding]
  | "Disconnected" -> [Some EDisconnected] | "ErrorReadingFile" -> [Some EReadFile]
  | "ErrorReadingResponseBody" -> [Some EReadBody]
  | _ -> failwith "unknown result"
let res_name (r : werr option) : string = match r with None -> "ok" | Some e -> err_name e
let param_of (prefix : string) (toks : string list) : n list option =
  List.fold_left (fun acc t ->
      if String.length t > String.length prefix && String.sub t 0 (String.length prefix) = prefix
      then Some (nlist_of_bytes (data_of_tok (String.sub t (String.length prefix) (String.length t - String.length prefix))))
      else acc) None toks
(* ---- end response cases ---- *)

let () =
  let cases = read_lines Sys.argv.(1) and impl = read_lines Sys.argv.(2) in
  List.iter2 (fun case impl_line ->
    let itoks = split_ws impl_line in
    match split_ws case with
    | "resp" :: close :: toks ->
      (match param_of "rp=" itoks, param_of "ct=" itoks with
       | Some rp, Some ct ->
         let reason = (fun _ -> rp) and ct_text = (fun _ -> ct) in
         let (r, rest) = parse_response_case toks in
         let close = (close = "1") in
         let ws = (match rest with w :: _ -> parse_wsched w | [] -> []) in
         let wr = { w_sched = ws; w_budget = None; w_flush_ok = true } in
         let ((res, wire), _) = write_http_response reason ct_text r close wr in
         let tail = " rp=" ^ tok_of_bytes rp ^ " ct=" ^ tok_of_bytes ct in
         let verdict =
           (match itoks with
            | k :: o :: _ ->
              (try
                 let iwire = nlist_of_bytes (unrle o) in
                 if List.exists (fun ires -> oracle_c06 reason ct_text r close ires iwire) (errs_of_name k)
                 then "oracle=ok" else "oracle=fail@" ^ k
               with _ -> "oracle=fail@unparsable")
            | _ -> "oracle=fail@unparsable") in
         Printf.printf "%s %s%s | %s\n" (res_name res) (rle (bytes_of_nlist wire)) tail verdict
       | _ -> Printf.printf "noparams | oracle=fail@%s\n" (match itoks with t :: _ -> t | [] -> "empty"))
    | ["dual"; _size; _stall] ->
      (* two overlapping responses of one file: each is written whole (the model has no shared state between responses) *)
      let want = "first: ok whole=1 second: ok whole=1" in
      Printf.printf "%s | %s\n" want (if impl_line = want then "oracle=ok" else "oracle=fail@overlapping-responses-of-one-file")
    | ["rp"; _code] ->
      (match itoks with
       | [t] when t.[0] = 'x' -> Printf.printf "%s | %s\n" t (if reason_text_ok (bytes_of_tok t) then "oracle=ok" else "oracle=fail@reason-phrase-not-printable-text")
       | _ -> Printf.printf "? | oracle=fail@unparsable\n")
    | ["ct"; _idx] ->
      (match itoks with
       | [t] when t.[0] = 'x' ->
         let b = bytes_of_tok t in
         Printf.printf "%s | %s\n" t (if b <> [] && value_ok b then "oracle=ok" else "oracle=fail@content-type-text")
       | _ -> Printf.printf "? | oracle=fail@unparsable\n")
    | _ -> Printf.printf "? | oracle=fail@badcase\n") cases impl
