(* drv_c02.ml -- C02 driver: model observation + verdict of the extracted Coq oracles
   (oracle_c02, oracle_c02_roundtrip, url_canonical_at) evaluated on the implementation's
   observation.   usage: drv_c02 cases.txt impl.txt > model.txt     Parsing/printing only. *)
exception Url_miss
exception Bad of string

let url_of_table (toks : string list) =
  let tbl = Hashtbl.create 8 in
  let targets = ref [] in
  (match toks with
   | "U" :: k :: rest ->
     let k = int_of_string k in
     let rec go i r = if i = 0 then () else match r with
         | t :: p :: q :: r' ->
           Hashtbl.replace tbl t
             (if p = "E" then None
              else Some (bytes_of_tok p, (if q = "-" then None else Some (bytes_of_tok q))));
           targets := bytes_of_tok t :: !targets;
           go (i - 1) r'
         | _ -> raise (Bad "url table") in
     go k rest
   | _ -> raise (Bad "url table"));
  ((fun t -> match Hashtbl.find_opt tbl (tok_of_bytes t) with Some r -> r | None -> raise Url_miss), List.rev !targets)

let head_error_name = function
  | HE_Truncated -> "Truncated" | HE_MissingRequestLine -> "MissingRequestLine"
  | HE_MalformedRequestLine -> "MalformedRequestLine" | HE_MalformedPath -> "MalformedPath"
  | HE_UnsupportedProtocol -> "UnsupportedProtocol" | HE_MalformedHeader -> "MalformedHeader"
let head_error_of_name = function
  | "Truncated" -> HE_Truncated | "MissingRequestLine" -> HE_MissingRequestLine
  | "MalformedRequestLine" -> HE_MalformedRequestLine | "MalformedPath" -> HE_MalformedPath
  | "UnsupportedProtocol" -> HE_UnsupportedProtocol | "MalformedHeader" -> HE_MalformedHeader
  | s -> raise (Bad ("head error " ^ s))

let pr_head (h : head) : string =
  "ok " ^ tok_of_bytes h.h_method ^ " " ^ tok_of_bytes h.h_path ^ " " ^
  (match h.h_query with None -> "-" | Some q -> tok_of_bytes q) ^
  " H" ^ string_of_int (List.length h.h_headers) ^
  String.concat "" (List.map (fun (a, b) -> " " ^ tok_of_bytes a ^ " " ^ tok_of_bytes b) h.h_headers)
let pr_buf cap (b : fbuf) : string =
  "left " ^ tok_of_bytes b.fb_data ^ " w" ^ string_of_int (int_of_nat (fb_writable cap b))

let rec take_pairs k toks = if k = 0 then ([], toks) else match toks with
    | a :: b :: r -> let (ps, r') = take_pairs (k - 1) r in ((bytes_of_tok a, bytes_of_tok b) :: ps, r')
    | _ -> raise (Bad "headers")
(* implementation observation -> (res head, left) ; None = panic *)
let parse_obs (toks : string list) : (head res * n list) option =
  let (o, rest) = match toks with
    | "ok" :: m :: p :: q :: hk :: r ->
      let k = int_of_string (String.sub hk 1 (String.length hk - 1)) in
      let (hs, r') = take_pairs k r in
      (Some (Ok { h_method = bytes_of_tok m; h_target = []; h_path = bytes_of_tok p;
                  h_query = (if q = "-" then None else Some (bytes_of_tok q)); h_headers = hs }), r')
    | "err" :: name :: r -> (Some (Err (head_error_of_name name)), r)
    | "panic" :: _ -> (None, [])
    | _ -> raise (Bad "obs") in
  match o, rest with
  | None, _ -> None
  | Some r, ";" :: "left" :: l :: _w :: ([] | ";" :: "rq" :: _) -> Some (r, bytes_of_tok l)
  | _ -> raise (Bad "obs tail")

(* the request-level part of a `mk` observation: "; rq <method> <path> <query|-> H<k> name value .." | "; rq -" | "; rq panic" *)
let rq_of_obs (toks : string list) : string list option =
  let rec upto = function ";" :: _ | [] -> [] | t :: r -> t :: upto r in
  let rec go = function ";" :: "rq" :: r -> Some (upto r) | _ :: r -> go r | [] -> None in go toks
(* "; n2 ok" | "; n2 err:<kind>": a second message sent behind the head was (not) readable from the same buffer *)
let n2_of_obs (toks : string list) : string option =
  let rec go = function ";" :: "n2" :: v :: _ -> Some v | _ :: r -> go r | [] -> None in go toks

let split_on_tok (sep : string) (toks : string list) : string list list =
  let rec go cur acc = function
    | [] -> List.rev (List.rev cur :: acc)
    | t :: r when t = sep -> go [] (List.rev cur :: acc) r
    | t :: r -> go (t :: cur) acc r in
  go [] [] toks

let rec parse_fields k toks = if k = 0 then ([], toks) else match toks with
    | a :: b :: c :: d :: r ->
      let (fs, r') = parse_fields (k - 1) r in
      ({ f_name = bytes_of_tok a; f_ows1 = bytes_of_tok b; f_value = bytes_of_tok c; f_ows2 = bytes_of_tok d } :: fs, r')
    | _ -> raise (Bad "fields")

let run_try ?(rq : string list option) url targets echo n rd data (extra : head res -> n list -> string option) otoks =
  let cap = nat_of_int n in
  let b = { fb_rd = nat_of_int rd; fb_data = data } in
  let (r, b') = try_read url b in
  let m = (match r with Ok h -> pr_head h | Err e -> "err " ^ head_error_name e | Panic -> "panic") in
  (* the Section hypothesis url_canonical, evaluated on what the real crate answered *)
  let canon = List.filter canonical_target targets in
  let hyp_bad = List.filter (fun t -> not (url_canonical_at url t)) canon in
  let verdict =
    if hyp_bad <> [] then "oracle=fail@url_canonical-hypothesis-falsified:" ^ tok_of_bytes (List.hd hyp_bad) else
    (match parse_obs otoks with
     | None -> "oracle=fail@panic"
     | Some (ir, left) ->
       if not (oracle_c02 url data ir left) then
         "oracle=fail@" ^ (match ir with Ok _ -> "accepted-outside-grammar" | Err _ -> "error-not-justified" | Panic -> "panic")
       else (match extra ir left with
           | Some what -> "oracle=fail@" ^ what
           | None -> "oracle=ok uc=" ^ string_of_int (List.length canon))) in
  let rqm = (match rq with
      | None -> ""
      | Some _ ->
        (* model: the head parsed by the model, then the header processing of read_http_request *)
        " ; rq " ^ (if n <> 8192 then "-" else match r with
          | Ok h -> (match request_of_head h.h_method h.h_headers with
              | QOk q -> tok_of_bytes h.h_method ^ " " ^ tok_of_bytes h.h_path ^ " " ^
                         (match h.h_query with None -> "-" | Some x -> tok_of_bytes x) ^
                         " H" ^ string_of_int (List.length q.rq_headers) ^
                         String.concat "" (List.map (fun (a, b) -> " " ^ tok_of_bytes a ^ " " ^ tok_of_bytes b) q.rq_headers)
              | QErr _ -> "-")
          | _ -> "-") ^
        (* the second message the harness sent behind a bodiless head must have been readable *)
        (match n2_of_obs otoks with Some _ -> " ; n2 ok" | None -> "")) in
  Printf.printf "%s%s ; %s%s | %s\n" echo m (pr_buf cap b') rqm verdict

let valid_setup n rd (data : n list) =
  (n = 32 || n = 200 || n = 8192) && rd + List.length data <= n && not (rd > 0 && data = [])

let () =
  let cases = read_lines Sys.argv.(1) and impl = read_lines Sys.argv.(2) in
  List.iter2 (fun case impl_line ->
    try
      let itoks = split_ws impl_line in
      let (utoks, otoks) = match split_on_tok ";;" itoks with
        | [u; o] -> (u, o) | _ -> raise (Bad "no table") in
      let (url, targets) = url_of_table utoks in
      let echo = String.concat " " utoks ^ " ;; " in
      (match split_ws case with
       | ["try"; n; rd; data] ->
         let n = int_of_string n and rd = int_of_string rd and data = bytes_of_tok data in
         if not (valid_setup n rd data) then print_string (echo ^ "badcase | oracle=fail@badcase\n")
         else run_try url targets echo n rd data (fun _ _ -> None) otoks
       | "mk" :: n :: m :: t :: k :: rest ->
         let n = int_of_string n and m = bytes_of_tok m and t = bytes_of_tok t and k = int_of_string k in
         let (fs, r) = parse_fields k rest in
         let tail = (match r with [x] -> bytes_of_tok x | _ -> raise (Bad "mk tail")) in
         let data = render_head m t fs @ crlf2 @ tail in
         if not (valid_setup n 0 data) then print_string (echo ^ "badcase | oracle=fail@badcase\n")
         else
           let rq = (match rq_of_obs otoks with Some r -> r | None -> raise (Bad "no rq part")) in
           (* request level, on the implementation's own answers: when the head was accepted, the request exposes the
              same method / path / query and exactly the head's fields minus the consumed ones, in the order sent; it
              may be refused only if the header processing of the model refuses these fields too *)
           let rq_check (ir : head res) : string option =
             if n <> 8192 then None else
             match ir, rq with
             | _, ["panic"] | _, "panic" :: _ -> Some "request-level-panic"
             | Ok h, ["-"] -> (match request_of_head h.h_method h.h_headers with QErr _ -> None | QOk _ -> Some "request-refused-although-head-and-fields-are-fine")
             | Ok h, mm :: pp :: qq :: hk :: r ->
               let k = int_of_string (String.sub hk 1 (String.length hk - 1)) in
               let (hs, _) = take_pairs k r in
               if bytes_of_tok mm = h.h_method && bytes_of_tok pp = h.h_path
                  && (if qq = "-" then None else Some (bytes_of_tok qq)) = h.h_query
                  && oracle_c14_req h.h_headers hs then
                 (* the bytes after this head stay available: the message sent behind it was read from the same buffer *)
                 (match n2_of_obs otoks with
                  | Some v when v <> "ok" -> Some ("next-message-not-readable-after-this-head-" ^ v)
                  | _ -> None)
               else Some "request-does-not-expose-the-head-fields-in-order"
             | Ok _, _ -> Some "unparsable-rq"
             | _, ["-"] -> None
             | _, _ -> Some "request-accepted-although-head-rejected" in
           run_try ~rq url targets echo n 0 data
             (fun ir left -> if not (oracle_c02_roundtrip m t fs tail ir left) then Some "must-accept-head-not-parsed-to-its-parts" else rq_check ir) otoks
       | ["task"; _lg; stream] ->
         (* the connection task hands the handler the method of the head verbatim (whatever the method: HEAD is HEAD) *)
         let stream = bytes_of_tok stream in
         let (r, _) = try_read url { fb_rd = O; fb_data = stream } in
         (match r with
          | Ok h ->
            let m = "task 200 m=" ^ tok_of_bytes h.h_method in
            Printf.printf "%s%s | %s\n" echo m (if String.concat " " otoks = m then "oracle=ok" else "oracle=fail@handler-sees-another-method")
          | _ -> Printf.printf "%s%s | oracle=ok\n" echo (String.concat " " otoks))
       | _ -> print_string "? | oracle=badcase\n")
    with
    | Url_miss -> print_string "urlmiss | oracle=fail@urlmiss\n"
    | Bad what -> Printf.printf "unparsable %s | oracle=unparsable\n" what
    | Failure what -> Printf.printf "unparsable %s | oracle=unparsable\n" what
  ) cases impl
