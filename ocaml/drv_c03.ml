(* drv_c03.ml -- C03 (message framing).  usage: drv_c03 cases.txt impl.txt > model.txt
   Per case: parses the implementation's observation line, takes from it the heads exactly as the
   real Head::try_read parsed them (INPUT of the framing model), runs the extracted model
   [run_given] on the case's stream, prints the model's line in the harness syntax, and evaluates
   the extracted oracle [oracle_c03_msg] on the implementation's own observations.
   Parsing and printing only. *)
let small_body_len = n_of_int 65536

(* ---------- printing (harness syntax) ---------- *)
let ct_name (c : ctype) : string = match c with
  | CtCss -> "Css" | CtCsv -> "Csv" | CtEventStream -> "EventStream" | CtFormUrlEncoded -> "FormUrlEncoded"
  | CtGif -> "Gif" | CtHtml -> "Html" | CtJavaScript -> "JavaScript" | CtJpeg -> "Jpeg" | CtJson -> "Json"
  | CtMarkdown -> "Markdown" | CtMultipartForm -> "MultipartForm" | CtNone -> "None"
  | CtOctetStream -> "OctetStream" | CtPdf -> "Pdf" | CtPlainText -> "PlainText" | CtPng -> "Png"
  | CtSvg -> "Svg" | CtString s -> "S:" ^ tok_of_bytes s
let b01 b = if b then "1" else "0"
let pr_pairs l = String.concat "" (List.map (fun (a, b) -> " " ^ tok_of_bytes a ^ " " ^ tok_of_bytes b) l)
let pr_head (h : head_in option) : string = match h with
  | None -> "HE"
  | Some (m, hs) -> "H " ^ tok_of_bytes m ^ " " ^ string_of_int (List.length hs) ^ pr_pairs hs
let err_name e = match e with
  | InvalidContentLength -> "InvalidContentLength"
  | UnsupportedTransferEncoding -> "UnsupportedTransferEncoding"
  | MalformedCookieHeader -> "MalformedCookieHeader"
let pr_obs ((m, left) : head_in msg_result * n list) : string = match m with
  | MHeadFail -> "R err head"
  | MErr (_, e) -> "R err " ^ err_name e ^ " left=" ^ tok_of_bytes left
  | MReq (_, r, br) ->
    "R ok m=" ^ tok_of_bytes r.rq_method ^
    " cl=" ^ (match r.rq_clen with None -> "-" | Some x -> decimal_of_n x) ^
    " ch=" ^ b01 r.rq_chunked ^ " gz=" ^ b01 r.rq_gzip ^ " ex=" ^ b01 r.rq_expect ^
    " ct=" ^ ct_name r.rq_ctype ^
    " ck " ^ string_of_int (List.length r.rq_cookies) ^ pr_pairs r.rq_cookies ^
    " hd " ^ string_of_int (List.length r.rq_headers) ^ pr_pairs r.rq_headers ^
    " kind=" ^ (match r.rq_body with BodyEmpty -> "empty" | PendingKnown x -> "known:" ^ decimal_of_n x | PendingUnknown -> "unknown") ^
    " body=" ^ (match br with BrNone -> "none" | BrVec b -> "vec:" ^ tok_of_bytes b | BrTruncated -> "trunc"
                              | BrRefused -> "refused" | BrDeferred -> "deferred") ^
    " left=" ^ tok_of_bytes left

(* ---------- parsing of the implementation's line ---------- *)
exception Bad of string
let strip_prefix p s =
  let lp = String.length p in
  if String.length s >= lp && String.sub s 0 lp = p then String.sub s lp (String.length s - lp)
  else raise (Bad ("expected " ^ p ^ " got " ^ s))
let rec take_pairs k toks = if k = 0 then ([], toks) else
    match toks with a :: b :: r -> let (l, r') = take_pairs (k - 1) r in ((bytes_of_tok a, bytes_of_tok b) :: l, r')
                  | _ -> raise (Bad "short pair list")
let ct_of_name s : ctype = match s with
  | "Css" -> CtCss | "Csv" -> CtCsv | "EventStream" -> CtEventStream | "FormUrlEncoded" -> CtFormUrlEncoded
  | "Gif" -> CtGif | "Html" -> CtHtml | "JavaScript" -> CtJavaScript | "Jpeg" -> CtJpeg | "Json" -> CtJson
  | "Markdown" -> CtMarkdown | "MultipartForm" -> CtMultipartForm | "None" -> CtNone
  | "OctetStream" -> CtOctetStream | "Pdf" -> CtPdf | "PlainText" -> CtPlainText | "Png" -> CtPng
  | "Svg" -> CtSvg
  | _ -> CtString (bytes_of_tok (strip_prefix "S:" s))
let bool_of s = match s with "1" -> true | "0" -> false | _ -> raise (Bad "bool")

(* one message: (head option, observation option) ; observation None = "R err head" *)
let parse_msg (toks : string list) : head_in option * (head_in msg_result * n list) option =
  let (h, rest) = match toks with
    | "HE" :: r -> (None, r)
    | "H" :: m :: k :: r -> let (hs, r') = take_pairs (int_of_string k) r in (Some (bytes_of_tok m, hs), r')
    | _ -> raise (Bad "head") in
  let dummy = match h with Some hh -> hh | None -> ([], []) in
  match rest with
  | ["R"; "err"; "head"] -> (h, None)
  | ["R"; "err"; kind; left] ->
    let e = (match kind with
        | "InvalidContentLength" -> InvalidContentLength
        | "UnsupportedTransferEncoding" -> UnsupportedTransferEncoding
        | "MalformedCookieHeader" -> MalformedCookieHeader
        | _ -> raise (Bad "error kind")) in
    (h, Some (MErr (dummy, e), bytes_of_tok (strip_prefix "left=" left)))
  | "R" :: "ok" :: m :: cl :: ch :: gz :: ex :: ct :: "ck" :: k :: r ->
    let (ck, r1) = take_pairs (int_of_string k) r in
    (match r1 with
     | "hd" :: k2 :: r2 ->
       let (hd, r3) = take_pairs (int_of_string k2) r2 in
       (match r3 with
        | [kind; body; left] ->
          let kind = strip_prefix "kind=" kind and body = strip_prefix "body=" body in
          let bk = (match kind with
              | "empty" -> BodyEmpty | "unknown" -> PendingUnknown
              | _ -> PendingKnown (n_of_decimal (strip_prefix "known:" kind))) in
          let br = (match body with
              | "none" -> BrNone | "trunc" -> BrTruncated | "refused" -> BrRefused | "deferred" -> BrDeferred
              | _ -> BrVec (bytes_of_tok (strip_prefix "vec:" body))) in
          let cl = strip_prefix "cl=" cl in
          let r = { rq_method = bytes_of_tok (strip_prefix "m=" m); rq_headers = hd; rq_cookies = ck;
                    rq_ctype = ct_of_name (strip_prefix "ct=" ct);
                    rq_expect = bool_of (strip_prefix "ex=" ex); rq_chunked = bool_of (strip_prefix "ch=" ch);
                    rq_gzip = bool_of (strip_prefix "gz=" gz);
                    rq_clen = (if cl = "-" then None else Some (n_of_decimal cl)); rq_body = bk } in
          (h, Some (MReq (dummy, r, br), bytes_of_tok (strip_prefix "left=" left)))
        | _ -> raise (Bad "tail"))
     | _ -> raise (Bad "hd"))
  | _ -> raise (Bad "result")

let split_msgs (toks : string list) : string list list =
  let rec go cur acc = function
    | [] -> List.rev (List.rev cur :: acc)
    | ";" :: r -> go [] (List.rev cur :: acc) r
    | t :: r -> go (t :: cur) acc r in
  go [] [] toks

(* "<messages> ;; log n entries" -> (message tokens, log tokens incl. "log n") *)
let split_log (toks : string list) : string list * string list =
  let rec go acc = function
    | [] -> (List.rev acc, [])
    | ";;" :: r -> (List.rev acc, r)
    | t :: r -> go (t :: acc) r in
  go [] toks
let pr_log (l : ((n list * n option) * seen_body) list) : string =
  "log " ^ string_of_int (List.length l) ^
  String.concat "" (List.map (fun ((m, cl), b) ->
      " " ^ tok_of_bytes m ^ ":" ^ (match cl with None -> "-" | Some x -> decimal_of_n x) ^ ":" ^
      (match b with SbNone -> "none" | SbVec v -> "vec:" ^ tok_of_bytes v | SbPending -> "pending")) l)

let parse_sched (t : string) : nat list =
  let body = String.sub t 1 (String.length t - 1) in
  if body = "" then [] else List.map (fun s -> nat_of_int (int_of_string s)) (String.split_on_char ',' body)

(* why did the oracle fail?  (label only; the verdict itself is the extracted oracle) *)
let label (h : head_in) (o : head_in msg_result * n list) : string =
  let (m, hs) = h in
  let cl = classify_cl (field_values n_content_length hs)
  and te = classify_te (field_values n_transfer_encoding hs) in
  match fst o, framing_spec m hs with
  | MReq _, Reject ->
    let ncl = List.length (field_values n_content_length hs)
    and nte = List.length (field_values n_transfer_encoding hs) in
    (match te, cl with
     | TeInvalid, ClInvalid -> "accepted-invalid-framing:te+cl"
     | TeInvalid, _ -> if nte > 1 then "accepted-invalid-framing:te-repeated" else "accepted-invalid-framing:te-value"
     | _, _ -> if ncl > 1 then "accepted-invalid-framing:cl-repeated" else "accepted-invalid-framing:cl-value")
  | MReq _, Accept _ -> "framing-or-body-differs-from-spec" ^ (if values_fv hs then "" else ":field-value-outside-HTAB-SP-VCHAR")
  | MErr _, Accept _ -> "rejected-valid-framing"
  | MErr _, Reject -> "consumed-after-reject"
  | MHeadFail, _ -> "headfail"

(* purity oracle: the first accepted request seen for a header list within the current case (the
   table is cleared per case so that every failure replays from its own case line) *)
let seen : (string, request) Hashtbl.t = Hashtbl.create 4096
let pure_ok (hs : (n list * n list) list) (r : request) : bool =
  let key = pr_pairs hs in
  match Hashtbl.find_opt seen key with
  | None -> Hashtbl.add seen key r; true
  | Some r0 -> oracle_pure hs hs r0 r

let () =
  let cases = read_lines Sys.argv.(1) and impl = read_lines Sys.argv.(2) in
  List.iter2 (fun case impl_line ->
    match split_ws case with
    | [kind; xs; st] when kind = "seq" || kind = "loop" ->
      let stream = bytes_of_tok xs and sched = parse_sched st in
      Hashtbl.reset seen;
      (try
        let (seq_toks, log_toks) = split_log (split_ws impl_line) in
        (* "file=..." tokens (a deferred body received into a file on a copy of the unread bytes) are split off *)
        let is_file t = String.length t > 5 && String.sub t 0 5 = "file=" in
        let raw_msgs = split_msgs seq_toks in
        let file_toks = List.map (fun ts -> List.find_opt is_file ts) raw_msgs in
        let msgs = List.map (fun ts -> parse_msg (List.filter (fun t -> not (is_file t)) ts)) raw_msgs in
        let file_spec (len : n) (left : n list) : string =
          (match body_to_file_known len left with
           | None -> "file=trunc"
           | Some b -> let ints = List.map int_of_n b in
             Printf.sprintf "file=ok:%s:%d:h%016Lx" (decimal_of_n len) (List.length ints) (fnv64_ints ints)) in
        let file_wanted (o : head_in msg_result * n list) : string option =
          (match o with
           | (MReq (_, r, BrDeferred), left) when not (r.rq_chunked || r.rq_gzip) ->
             (match r.rq_body with
              | PendingKnown len when String.length (decimal_of_n len) <= 6 && int_of_n len <= 400000 -> Some (file_spec len left)
              | _ -> None)
           | _ -> None) in
        let heads = List.map fst msgs in
        (* the model: same heads, same stream; the split of the unread bytes between buffer and
           socket and the body read schedule are taken from the case's schedule (any would do:
           the theorems say the result does not depend on them) *)
        let msched = if sched = [] then [nat_of_int 200000] else sched in
        let splits = List.map (fun _ -> match sched with k :: _ -> k | [] -> O) heads in
        let scheds = List.map (fun _ -> msched) heads in
        let model = run_given small_body_len true true heads [] stream splits scheds in
        let nmodel = List.length model in
        let model_line =
          String.concat " ; " (List.mapi (fun i (h : head_in option) ->
              if i < nmodel then pr_head h ^ " " ^ pr_obs (List.nth model i) ^
                                 (match file_wanted (List.nth model i) with Some f -> " " ^ f | None -> "")
              else pr_head h ^ " R not-reached") heads) in
        (* the oracle on the implementation's observations, chained on the implementation's own left-overs *)
        let rec go i data msgs = match msgs with
          | [] -> "oracle=ok"
          | (None, _) :: rest_msgs -> if rest_msgs = [] then "oracle=ok" else "oracle=fail@messages-after-head-failure"
          | (Some _, None) :: _ -> "oracle=fail@head-parsed-but-request-failed-in-head"
          | (Some h, Some o) :: rest_msgs ->
            (match after_head data with
             | None -> "oracle=fail@no-head-boundary"
             | Some rest ->
               (* the header fields the implementation reports are those the GRAMMAR of Model/Head.v reads from the
                  bytes that were sent (field lines: token ":" OWS value OWS, value of HTAB / SP / VCHAR): a framing
                  field that violates it is rejected, never repaired into a length or a coding *)
               let head_len = List.length data - List.length rest - 4 in
               let head_bytes = List.filteri (fun j _ -> j < head_len) data in
               let field_lines = (match List.map trim_trailing_cr (split_on (n_of_int 10) head_bytes) with _ :: t -> t | [] -> []) in
               let grammar = (match parse_header_lines true true field_lines with
                   | Ok hl -> if hl = snd h then "" else "header-fields-differ-from-the-bytes-sent"
                   | Err _ -> "head-accepted-although-a-field-line-violates-the-grammar"
                   | Panic -> "head-accepted-although-a-field-line-violates-the-grammar") in
               if grammar <> "" then "oracle=fail@" ^ grammar
               else if not (oracle_c03_msg small_body_len h rest o) then "oracle=fail@" ^ label h o
               else if (match file_wanted o, List.nth file_toks i with
                   | Some want, Some got -> want <> got
                   | Some _, None -> true
                   | None, _ -> false)
               then "oracle=fail@file-body-is-not-exactly-the-next-N-bytes"
               else if not (match fst o with MReq (_, r, _) -> pure_ok (snd h) r | _ -> true)
               then "oracle=fail@derived-fields-not-a-function-of-the-header-fields"
               else if rest_msgs = [] then "oracle=ok"     (* the harness stops after 9 messages or at a stop condition *)
               else if not (obs_continues o) then "oracle=fail@read-on-after-stop"
               else go (i + 1) (snd o) rest_msgs) in
        let verdict = go 0 stream msgs in
        if kind = "seq" then Printf.printf "%s | %s\n" model_line verdict
        else begin
          (* loop-back: the handler log of the real server vs. the log the model derives *)
          let model_log = pr_log (handler_log (List.map fst model)) in
          let impl_seq_log = pr_log (handler_log (List.filter_map (fun (_, o) -> match o with Some (m, _) -> Some m | None -> None) msgs)) in
          let impl_log = String.concat " " log_toks in
          let verdict = if verdict <> "oracle=ok" then verdict
            else if impl_log <> impl_seq_log then "oracle=fail@server-handler-log-differs-from-the-messages-read"
            else verdict in
          Printf.printf "%s ;; %s | %s\n" model_line model_log verdict
        end
      with Bad w -> Printf.printf "? | oracle=unparsable:%s\n" w
         | Failure w -> Printf.printf "? | oracle=unparsable:%s\n" w
         | Not_found -> Printf.printf "? | oracle=unparsable\n")
    | _ -> Printf.printf "? | oracle=badcase\n") cases impl
