(* drv_c05.ml -- usage: drv_c05 cases.txt impl.txt *)
let bytes_of_string s = List.init (String.length s) (fun i -> n_of_int (Char.code s.[i]))
let string_of_bytes b = String.concat "" (List.map (fun x -> String.make 1 (Char.chr (int_of_n x))) b)

(* url crate on the simple targets the scripts use: path up to '?', query after it *)
let url_parse (t : n list) : (n list * n list option) option =
  let s = string_of_bytes t in
  match String.index_opt s '?' with
  | None -> Some (t, None)
  | Some i -> Some (bytes_of_string (String.sub s 0 i), Some (bytes_of_string (String.sub s (i+1) (String.length s - i - 1))))

let reason_tbl : (int, n list) Hashtbl.t = Hashtbl.create 1024
let plain = ref []
let reason (c : n) : n list = try Hashtbl.find reason_tbl (int_of_n c) with Not_found -> bytes_of_string "?"
let ct_text (_ : nat) : n list = []

let herr_name (e : herr) : string = match e with
  | AlreadyGotBody -> "AlreadyGotBody" | BodyNotAvailable -> "BodyNotAvailable" | BodyNotRead -> "BodyNotRead"
  | BodyNotUtf8 -> "BodyNotUtf8" | BodyTooLong -> "BodyTooLong" | CacheDirNotConfigured -> "CacheDirNotConfigured"
  | Disconnected -> "Disconnected" | DuplicateContentLengthHeader -> "DuplicateContentLengthHeader"
  | DuplicateContentTypeHeader -> "DuplicateContentTypeHeader"
  | DuplicateTransferEncodingHeader -> "DuplicateTransferEncodingHeader" | ErrorReadingFile -> "ErrorReadingFile"
  | ErrorReadingResponseBody -> "ErrorReadingResponseBody" | ErrorSavingFile -> "ErrorSavingFile"
  | HandlerDeadlineExceeded -> "HandlerDeadlineExceeded" | HeadTooLong -> "HeadTooLong"
  | InvalidContentLength -> "InvalidContentLength" | MalformedCookieHeader -> "MalformedCookieHeader"
  | MalformedHeaderLine -> "MalformedHeaderLine" | MalformedPath -> "MalformedPath"
  | MalformedRequestLine -> "MalformedRequestLine" | MissingRequestLine -> "MissingRequestLine"
  | ResponseAlreadySent -> "ResponseAlreadySent" | ResponseNotSent -> "ResponseNotSent"
  | TimerThreadNotStarted -> "TimerThreadNotStarted" | Truncated -> "Truncated"
  | UnsupportedProtocol -> "UnsupportedProtocol" | UnsupportedTransferEncoding -> "UnsupportedTransferEncoding"
  | UnwritableResponse -> "UnwritableResponse" | ModelPanic -> "MODEL-PANIC" | ModelOutOfFuel -> "MODEL-OUT-OF-FUEL"
let all_herr = [AlreadyGotBody; BodyNotAvailable; BodyNotRead; BodyNotUtf8; BodyTooLong; CacheDirNotConfigured;
  Disconnected; DuplicateContentLengthHeader; DuplicateContentTypeHeader; DuplicateTransferEncodingHeader;
  ErrorReadingFile; ErrorReadingResponseBody; ErrorSavingFile; HandlerDeadlineExceeded; HeadTooLong;
  InvalidContentLength; MalformedCookieHeader; MalformedHeaderLine; MalformedPath; MalformedRequestLine;
  MissingRequestLine; ResponseAlreadySent; ResponseNotSent; TimerThreadNotStarted; Truncated; UnsupportedProtocol;
  UnsupportedTransferEncoding; UnwritableResponse; ModelPanic; ModelOutOfFuel]
let herr_of_name s = List.find_opt (fun e -> herr_name e = s) all_herr

let b01 b = if b then "1" else "0"
let rs_str (rs : read_state) = match rs with
  | RS_Head -> "Head" | RS_Shutdown -> "Shutdown"
  | RS_Body (l, e, c, g) -> Printf.sprintf "Body(%s,%s,%s,%s)"
      (match l with None -> "-" | Some n -> decimal_of_n n) (b01 e) (b01 c) (b01 g)
let ws_str (ws : write_state) = match ws with WS_None -> "None" | WS_Response -> "Response" | WS_Shutdown -> "Shutdown"

let parse_rs (s : string) : read_state option =
  if s = "Head" then Some RS_Head else if s = "Shutdown" then Some RS_Shutdown
  else if String.length s > 6 && String.sub s 0 5 = "Body(" then
    (match String.split_on_char ',' (String.sub s 5 (String.length s - 6)) with
     | [l; e; c; g] -> Some (RS_Body ((if l = "-" then None else Some (n_of_decimal l)), e = "1", c = "1", g = "1"))
     | _ -> None)
  else None
let parse_ws s = match s with "None" -> Some WS_None | "Response" -> Some WS_Response | "Shutdown" -> Some WS_Shutdown | _ -> None

let mk_response (code : int) (variant : string) : response =
  let c = n_of_int code in
  let hdr n v r = { r with r_headers = r.r_headers @ [(bytes_of_string n, bytes_of_string v)] } in
  match variant with
  | "n" -> resp_new c
  | "t" -> resp_text !plain c (bytes_of_string "hi")
  | "d" | "g" -> resp_drop
  | "cl" -> hdr "Content-Length" "3" (resp_new c)
  | "ct" -> hdr "content-type" "x/y" (resp_text !plain c (bytes_of_string "hi"))
  | "te" -> hdr "transfer-encoding" "chunked" (resp_new c)
  | "cl2" -> hdr "content-length" "3" (hdr "Content-Length" "3" (resp_new c))
  | "ct2" -> hdr "Content-Type" "x/y" (hdr "content-type" "x/y" (resp_text !plain c (bytes_of_string "hi")))
  | "te2" -> hdr "Transfer-Encoding" "chunked" (hdr "transfer-encoding" "chunked" (resp_new c))
  | "h" -> hdr "x-a" "b c" (resp_new c)
  | "fm" -> { (resp_new c) with r_body = BKnown (n_of_int 10, false, { r_data = []; r_sched = [] }) }
  | "fs" -> { (resp_new c) with r_body = BKnown (n_of_int 10, true, { r_data = bytes_of_string "abc"; r_sched = [] }) }
  | _ -> failwith "bad variant"

let rec parse_ops (toks : string list) : response cop list = match toks with
  | [] -> []
  | "RR" :: r -> OReadRequest :: parse_ops r
  | "BV" :: r -> OReadBodyVec :: parse_ops r
  | "BF" :: d :: m :: r -> OReadBodyFile (d = "1", n_of_decimal m) :: parse_ops r
  | "CO" :: r -> OContinue :: parse_ops r
  | "WR" :: c :: v :: r -> OWrite (mk_response (int_of_string c) v) :: parse_ops r
  | "SH" :: r -> OShutdown :: parse_ops r
  | t :: _ -> failwith ("bad op " ^ t)

let res_str (r : rpayload conn_res) : string = match r with
  | CR_Ok -> "ok"
  | CR_Err e -> "err " ^ herr_name e
  | CR_Req p ->
    let bk = (match p.rp_req.rq_body with
        | BodyEmpty -> "none" | PendingKnown n -> "known" ^ decimal_of_n n | PendingUnknown -> "unknown") in
    Printf.sprintf "req %s %s %s" bk (tok_of_bytes p.rp_method) (tok_of_bytes p.rp_path)
  | CR_Body (BR_Err e) -> "err " ^ herr_name e
  | CR_Body (BR_Vec b) -> "vec " ^ tok_of_bytes b
  | CR_Body (BR_File b) -> "file " ^ tok_of_bytes b

(* split the implementation line into per-op observations: res tokens..., rs=, ws=, rdy=, w= *)
let split_steps (line : string) : string list list =
  let toks = split_ws line in
  let rec go cur acc = function
    | [] -> List.rev (if cur = [] then acc else List.rev cur :: acc)
    | ";" :: r -> go [] (List.rev cur :: acc) r
    | t :: r -> go (t :: cur) acc r in
  go [] [] toks
let field pre toks = List.find_map (fun t ->
    let l = String.length pre in
    if String.length t >= l && String.sub t 0 l = pre then Some (String.sub t l (String.length t - l)) else None) toks

let () =
  let cases = read_lines Sys.argv.(1) and impl = read_lines Sys.argv.(2) in
  List.iter2 (fun case impl_line ->
    match split_ws case with
    | ["tables"] ->
      (* the implementation's text tables: instantiate the model with them, check the hypotheses *)
      let ok = ref true in
      List.iter (fun t ->
          match String.index_opt t '=' with
          | Some i ->
            let k = String.sub t 0 i and v = bytes_of_tok (String.sub t (i+1) (String.length t - i - 1)) in
            if k = "plain" then plain := v
            else if k.[0] = 'r' then begin
              Hashtbl.replace reason_tbl (int_of_string (String.sub k 1 (String.length k - 1))) v;
              if not (reason_text_ok v) then ok := false end
          | None -> ()) (split_ws impl_line);
      Printf.printf "%s | %s\n" impl_line (if !ok then "oracle=ok" else "oracle=fail@reason-phrase-not-printable")
    | script :: optoks ->
      let data = bytes_of_tok script in
      let ops = parse_ops optoks in
      let c0 = conn_new { ci_buf = []; ci_in = { in_bytes = data; in_sched = []; in_err = false } } in
      let buf = Buffer.create 256 in
      let step = cstep_inst url_parse reason ct_text true in
      let model_steps = ref [] in        (* (unread bytes before the step, the step's observation text) *)
      let _ = List.fold_left (fun c o ->
          let (r, c') = step c o in
          let n0 = List.length c.c_wire in
          let delta = List.filteri (fun i _ -> i >= n0) c'.c_wire in
          let txt = Printf.sprintf "%s rs=%s ws=%s rdy=%s w=%s" (res_str r) (rs_str c'.c_rs) (ws_str c'.c_ws)
              (b01 (is_ready c')) (tok_of_bytes delta) in
          model_steps := (c.c_in.ci_buf @ c.c_in.ci_in.in_bytes, txt) :: !model_steps;
          Buffer.add_string buf (txt ^ " ; ");
          c') c0 ops in
      let model_steps = Array.of_list (List.rev !model_steps) in
      (* HeadTooLong is justified only by 8192 unread bytes without the blank line that ends a head.  The unread
         bytes are known as long as the implementation has behaved like the model up to this step. *)
      let fits_head (unread : n list) : bool =
        let a = Array.of_list (List.map int_of_n unread) in
        let lim = min (Array.length a) 8192 in
        let found = ref false in
        for i = 0 to lim - 4 do
          if a.(i) = 13 && a.(i+1) = 10 && a.(i+2) = 13 && a.(i+3) = 10 then found := true
        done;
        !found || Array.length a < 8192 in
      Buffer.add_string buf "files=0";
      (* oracle on the implementation's own observations *)
      let verdict =
        (try
          let steps = List.filter (fun s -> s <> [] && not (List.exists (fun t -> String.length t > 6 && String.sub t 0 6 = "files=") s && List.length s = 1)) (split_steps impl_line) in
          let steps = List.filter (fun s -> field "rs=" s <> None) steps in
          if (match split_ws impl_line with "panic" :: _ -> true | _ -> false) then "oracle=fail@panic"
          else if List.length steps <> List.length ops then "oracle=fail@shape"
          else begin
            let agree = ref true in
            let rec go i rs ws ops steps = match ops, steps with
              | o :: ot, s :: st when !agree && o = OReadRequest && (match s with "err" :: "HeadTooLong" :: _ -> true | _ -> false)
                                      && i < Array.length model_steps && fits_head (fst model_steps.(i)) ->
                ignore (ot, st, rs, ws); "oracle=fail@head-too-long-for-a-head-that-fits@" ^ string_of_int i
              | o :: ot, s :: st ->
                if i < Array.length model_steps && String.concat " " s <> snd model_steps.(i) then agree := false;
                let err = (match s with "err" :: name :: _ -> herr_of_name name | _ -> None) in
                let bad_err = (match s with "err" :: name :: _ -> herr_of_name name = None | _ -> false) in
                let okind = (match s with
                    | "req" :: "none" :: _ -> Some BK_None
                    | "req" :: "unknown" :: _ -> Some BK_Unknown
                    | "req" :: k :: _ when String.length k > 5 && String.sub k 0 5 = "known" ->
                      Some (BK_Known (n_of_decimal (String.sub k 5 (String.length k - 5))))
                    | _ -> None) in
                (match Option.bind (field "rs=" s) parse_rs, Option.bind (field "ws=" s) parse_ws, field "w=" s with
                 | Some rs', Some ws', Some w ->
                   let ename = (match s with "err" :: name :: _ -> name | _ -> "") in
                   let dup = (ename = "DuplicateContentTypeHeader" || ename = "DuplicateContentLengthHeader" || ename = "DuplicateTransferEncodingHeader") in
                   (* a response that carries one of the automatic fields itself (once or several times) is refused by the
                      specific error before any byte, whenever the call is not a state misuse anyway *)
                   let collision_unreported = (match o with
                       | OWrite r -> r.r_normal && collides r && ws = WS_Response && not (dup && w = "x" && ws' = ws)
                       | _ -> false) in
                   if bad_err then "oracle=fail@unknown-error@" ^ string_of_int i
                   else if collision_unreported then "oracle=fail@conflicting-header-not-refused@" ^ string_of_int i
                   else if oracle_c05_step (fun r -> r.r_code) rs ws o err okind rs' ws' (bytes_of_tok w)
                   then go (i+1) rs' ws' ot st else "oracle=fail@contract@" ^ string_of_int i
                 | _ -> "oracle=fail@unparsable")
              | _ -> "oracle=ok" in
            let v = go 0 RS_Head WS_None ops steps in
            if v = "oracle=ok" && field "files=" (split_ws impl_line) <> Some "0" then "oracle=fail@temp-file-left" else v
          end
        with _ -> "oracle=fail@unparsable") in
      Printf.printf "%s | %s\n" (Buffer.contents buf) verdict
    | _ -> Printf.printf "? | oracle=badcase\n") cases impl
