(* common.ml -- hand-written glue shared by all drivers (textually appended after the extracted
   model, so the extracted types positive / n / nat are in scope).  Only parsing and printing. *)
let rec pos_of_int (i : int) : positive =
  if i = 1 then XH else if i land 1 = 0 then XO (pos_of_int (i lsr 1)) else XI (pos_of_int (i lsr 1))
let n_of_int (i : int) : n = if i = 0 then N0 else Npos (pos_of_int i)
let rec int_of_pos (p : positive) : int =
  match p with XH -> 1 | XO q -> 2 * int_of_pos q | XI q -> 2 * int_of_pos q + 1
let int_of_n (x : n) : int = match x with N0 -> 0 | Npos p -> int_of_pos p
let rec nat_of_int (i : int) : nat = if i <= 0 then O else S (nat_of_int (i - 1))
let rec int_of_nat (x : nat) : int = match x with O -> 0 | S y -> 1 + int_of_nat y

(* arbitrary-size decimal <-> n, for 64-bit and larger quantities *)
let n_of_decimal (s : string) : n =
  (* Horner over the extracted N would need N.mul; do it on the binary representation instead:
     repeated division of the decimal string by 2. *)
  let digits = Array.init (String.length s) (fun i -> Char.code s.[i] - 48) in
  let is_zero () = Array.for_all (fun d -> d = 0) digits in
  let divmod2 () =
    let carry = ref 0 in
    Array.iteri (fun i d -> let v = !carry * 10 + d in digits.(i) <- v / 2; carry := v mod 2) digits;
    !carry in
  let rec bits () = if is_zero () then [] else let b = divmod2 () in b :: bits () in
  let bl = bits () in   (* least significant first *)
  let rec build = function
    | [] -> None
    | b :: rest ->
      (match build rest with
       | None -> if b = 1 then Some XH else None
       | Some p -> Some (if b = 1 then XI p else XO p)) in
  match build bl with None -> N0 | Some p -> Npos p
let decimal_of_n (x : n) : string =
  (* binary -> decimal by repeated doubling of a decimal digit array *)
  let rec bits p = match p with XH -> [1] | XO q -> 0 :: bits q | XI q -> 1 :: bits q in
  match x with
  | N0 -> "0"
  | Npos p ->
    let bl = List.rev (bits p) in  (* most significant first *)
    let digits = ref [0] in        (* least significant first *)
    let double_add b =
      let carry = ref b in
      digits := List.map (fun d -> let v = 2 * d + !carry in carry := v / 10; v mod 10) !digits;
      if !carry > 0 then digits := !digits @ [!carry] in
    List.iter double_add bl;
    String.concat "" (List.rev_map string_of_int !digits)

let hexval c = match c with
  | '0'..'9' -> Char.code c - 48 | 'a'..'f' -> Char.code c - 87 | 'A'..'F' -> Char.code c - 55
  | _ -> failwith "bad hex"
(* token "x6162" -> [97;98] as n list; "x" -> [] *)
let bytes_of_tok (t : string) : n list =
  if String.length t = 0 || t.[0] <> 'x' then failwith ("bad bytes token: " ^ t);
  let k = (String.length t - 1) / 2 in
  List.init k (fun i -> n_of_int (16 * hexval t.[1 + 2*i] + hexval t.[2 + 2*i]))
let tok_of_bytes (b : n list) : string =
  let buf = Buffer.create 16 in
  Buffer.add_char buf 'x';
  List.iter (fun x -> Buffer.add_string buf (Printf.sprintf "%02x" (int_of_n x))) b;
  Buffer.contents buf
(* token "u97,8364" -> scalar values; "u" -> [] *)
let scalars_of_tok (t : string) : n list =
  if String.length t = 0 || t.[0] <> 'u' then failwith ("bad scalar token: " ^ t);
  let body = String.sub t 1 (String.length t - 1) in
  if body = "" then [] else List.map (fun s -> n_of_int (int_of_string s)) (String.split_on_char ',' body)
let tok_of_scalars (b : n list) : string =
  "u" ^ String.concat "," (List.map (fun x -> string_of_int (int_of_n x)) b)

let split_ws (s : string) : string list =
  List.filter (fun t -> t <> "") (String.split_on_char ' ' (String.trim s))

let read_lines (path : string) : string list =
  let ic = open_in path in
  let rec go acc = match input_line ic with
    | l -> go (l :: acc)
    | exception End_of_file -> close_in ic; List.rev acc in
  go []

(* FNV-1a 64 and the generated-bytes token, mirroring harness/src/lib.rs *)
let fnv64_ints (data : int list) : int64 =
  List.fold_left (fun h b -> Int64.mul (Int64.logxor h (Int64.of_int b)) 0x100000001b3L) 0xcbf29ce484222325L data
let digest_tok_ints (data : int list) : string =
  let len = List.length data in
  if len <= 64 then
    Printf.sprintf "%d:x%s" len (String.concat "" (List.map (Printf.sprintf "%02x") data))
  else Printf.sprintf "%d:h%016Lx" len (fnv64_ints data)
let expand_bytes_ints (tok : string) : int list =
  List.concat_map (fun part ->
      if String.length part > 0 && part.[0] = 'g' then begin
        match String.split_on_char ',' (String.sub part 1 (String.length part - 1)) with
        | [l; sd] ->
          let len = int_of_string l in
          let s = ref (Int64.of_string ("0u" ^ sd)) in
          List.init len (fun _ ->
              s := Int64.add (Int64.mul !s 6364136223846793005L) 1442695040888963407L;
              97 + Int64.to_int (Int64.unsigned_rem (Int64.shift_right_logical !s 33) 26L))
        | _ -> failwith "bad g token"
      end else List.map int_of_n (bytes_of_tok part)) (String.split_on_char '+' tok)
