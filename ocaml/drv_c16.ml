(* drv_c16.ml -- C16 driver: reads cases and the implementation's observations, prints per case the
   model's observation (harness syntax) and the verdict of the extracted Coq oracles evaluated on
   the implementation's observation.  Parsing and printing only.
   usage: drv_c16 cases.txt impl.txt > model.txt

   case syntax (all numbers decimal):
     new S [Y M D]            DateTime::new(S) and iso8601_utc(UNIX_EPOCH+S); optional date hint
     day K Y M D              the seven seconds-of-day of day number K (hint Y M D)
     walk K Y M D N           N consecutive days from day K x seven seconds-of-day, iso8601_utc only
     secs S N Y M D           N consecutive seconds from S (hint Y M D), iso8601_utc only
     add Y M D h m s SECS     DateTime{..} + Duration::from_secs(SECS)
   The hints are checked by the extracted [new_hinted] (theorem c16_new_hinted_eq); a wrong hint
   only costs time. *)
let z_of_decimal (s : string) : z =
  if String.length s > 0 && s.[0] = '-' then
    (match n_of_decimal (String.sub s 1 (String.length s - 1)) with N0 -> Z0 | Npos p -> Zneg p)
  else (match n_of_decimal s with N0 -> Z0 | Npos p -> Zpos p)
let decimal_of_z (x : z) : string = match x with
  | Z0 -> "0" | Zpos p -> decimal_of_n (Npos p) | Zneg p -> "-" ^ decimal_of_n (Npos p)
let z_of_int (i : int) : z = if i >= 0 then (match n_of_int i with N0 -> Z0 | Npos p -> Zpos p)
  else (match n_of_int (-i) with N0 -> Z0 | Npos p -> Zneg p)
let string_of_bytes (b : n list) : string =
  let buf = Buffer.create 24 in List.iter (fun x -> Buffer.add_char buf (Char.chr (int_of_n x land 255))) b; Buffer.contents buf
let bytes_of_string (s : string) : n list = List.init (String.length s) (fun i -> n_of_int (Char.code s.[i]))

let sods = List.map z_of_int [0; 1; 59; 60; 3599; 3600; 86399]
let z86400 = z_of_int 86400
let end_of_9999 = z_of_decimal "253402300800"
let i64_max = z_of_decimal "9223372036854775807"
let z_lt a b = Z.ltb a b
let z_le a b = Z.leb a b

let pr_dt (t : dt) : string =
  Printf.sprintf "dt %s %s %s %s %s %s" (decimal_of_z t.year) (decimal_of_z t.month) (decimal_of_z t.day)
    (decimal_of_z t.hour) (decimal_of_z t.minute) (decimal_of_z t.sec)
let pr_outcome (o : outcome) : string = match o with
  | Ok t -> pr_dt t
  | PanicAssert _ | PanicUnimplemented | PanicTryFrom -> "panic"
  | Overflow -> "overflow"
  | OutOfFuel -> "outoffuel"

(* model of one instant: date-time line + iso string *)
let model_instant (hint : (z * z) * z) (s : z) : string * string =
  match new_hinted hint s with
  | Ok t -> (pr_dt t, string_of_bytes (fmt_iso t))
  | o -> (pr_outcome o, "-")

(* oracle on one implementation observation "dt Y M D h m s" + iso *)
let parse_dt (toks : string list) : dt option = match toks with
  | ["dt"; y; mo; d; h; mi; s] ->
    (try Some { year = z_of_decimal y; month = z_of_decimal mo; day = z_of_decimal d;
                hour = z_of_decimal h; minute = z_of_decimal mi; sec = z_of_decimal s } with _ -> None)
  | _ -> None
let oracle_instant (s : z) (dt_toks : string list) (iso : string) : string option =
  match parse_dt dt_toks with
  | None -> Some "unparsable"
  | Some t ->
    (* oracle_new: valid and denotes s; oracle_iso: 20 bytes reading back as exactly that date-time
       (together they imply oracle_iso_at s iso) *)
    if not (oracle_new s t) then Some "new"
    else if z_lt s end_of_9999 && not (oracle_iso t (bytes_of_string iso)) then Some "iso"
    else None
let oracle_iso_only (s : z) (iso : string) : bool = oracle_iso_at s (bytes_of_string iso)

let hint_of y m d = ((z_of_decimal y, z_of_decimal m), z_of_decimal d)

let rec split_semi (toks : string list) : string list list =
  let rec go cur acc = function
    | [] -> List.rev (if cur = [] then acc else List.rev cur :: acc)
    | ";" :: r -> go [] (List.rev cur :: acc) r
    | t :: r -> go (t :: cur) acc r in
  go [] [] toks

let () =
  let cases = read_lines Sys.argv.(1) and impl = read_lines Sys.argv.(2) in
  List.iter2 (fun case impl_line ->
    let itoks = split_ws impl_line in
    match split_ws case with
    | "new" :: s :: rest ->
      let s = z_of_decimal s in
      let hint = (match rest with [y; m; d] -> hint_of y m d | _ -> ((Z0, Z0), Z0)) in
      let (d, iso) = model_instant hint s in
      let verdict =
        (match itoks with
         | ["dt"; _; _; _; _; _; _; "iso"; iso_i] ->
           (match oracle_instant s (List.filteri (fun i _ -> i < 7) itoks) iso_i with
            | None -> "oracle=ok" | Some w -> "oracle=fail@" ^ w)
         | "panic" :: _ -> "oracle=fail@panic"
         | _ -> "oracle=fail@unparsable") in
      Printf.printf "%s iso %s | %s\n" d iso verdict
    | ["day"; k; y; m; d] ->
      let k = z_of_decimal k and hint = hint_of y m d in
      let base = Z.mul z86400 k in
      let date = day_hinted hint k in   (* c16_day_hinted_correct *)
      let parts = List.map (fun sod -> let t = at_sod date sod in pr_dt t ^ " iso " ^ string_of_bytes (fmt_iso t)) sods in
      let groups = split_semi itoks in
      let verdict =
        if List.length groups <> List.length sods then
          (match itoks with "panic" :: _ -> "oracle=fail@panic" | _ -> "oracle=fail@shape")
        else
          let rec go sods groups = match sods, groups with
            | sod :: st, g :: gt ->
              (match g with
               | ["dt"; _; _; _; _; _; _; "iso"; iso_i] ->
                 (match oracle_instant (Z.add base sod) (List.filteri (fun i _ -> i < 7) g) iso_i with
                  | None -> go st gt
                  | Some w -> "oracle=fail@" ^ w ^ "@sod" ^ decimal_of_z sod)
               | _ -> "oracle=fail@unparsable")
            | _ -> "oracle=ok" in
          go sods groups in
      Printf.printf "%s | %s\n" (String.concat " ; " parts) verdict
    | ["walk"; k; y; m; d; n] ->
      let k = z_of_decimal k and hint = hint_of y m d and n = int_of_string n in
      (* date of day K: the hinted model (falls back to the fuelled loops if the hint is wrong) *)
      let start = Some (day_hinted hint k) in
      (match start with
       | None -> Printf.printf "outoffuel | oracle=fail@model\n"
       | Some start ->
         let buf = Buffer.create (n * 150) in
         let bad = ref None in
         let iarr = Array.of_list itoks in
         let idx = ref 0 in
         let date = ref start and kk = ref k in
         for _ = 1 to n do
           let base = Z.mul z86400 !kk in
           List.iter (fun sod ->
               let t = at_sod !date sod in
               if !idx > 0 then Buffer.add_char buf ' ';
               Buffer.add_string buf (string_of_bytes (fmt_iso t));
               (if !bad = None then
                  if !idx >= Array.length iarr then bad := Some "shape"
                  else if not (oracle_iso_only (Z.add base sod) iarr.(!idx)) then
                    bad := Some ("iso@day" ^ decimal_of_z !kk ^ "@sod" ^ decimal_of_z sod));
               incr idx) sods;
           date := next_day !date;
           kk := Z.add !kk (z_of_int 1)
         done;
         if !bad = None && Array.length iarr <> !idx then bad := Some "shape";
         Printf.printf "%s | %s\n" (Buffer.contents buf)
           (match !bad with None -> "oracle=ok" | Some w -> "oracle=fail@" ^ w))
    | "par" :: _ ->
      (* conversions on two threads at once give what they give alone (each instant's text is checked by the other
         cases against the model) *)
      Printf.printf "par bad=0 | %s\n" (if String.trim impl_line = "par bad=0" then "oracle=ok" else "oracle=fail@concurrent-conversions-differ")
    | "logt" :: ts ->
      (* the `time` member of a jsonl log line is the iso8601 rendering of the event's own instant, whatever was
         rendered before it on the same thread *)
      let items = List.map (fun t -> match String.split_on_char ':' t with
          | [s; y; m; d] -> (z_of_decimal s, hint_of y m d)
          | _ -> failwith "bad logt item") ts in
      let model = List.map (fun (s, hint) -> snd (model_instant hint s)) items in
      let verdict =
        if List.length itoks <> List.length items then "oracle=fail@shape"
        else (match List.find_opt (fun ((s, _), i) -> not (oracle_iso_only s i)) (List.combine items itoks) with
            | Some ((s, _), _) -> "oracle=fail@log-line-time@" ^ decimal_of_z s
            | None -> "oracle=ok") in
      Printf.printf "%s | %s\n" (String.concat " " model) verdict
    | ["secs"; s; n; y; m; d] ->
      let s0 = z_of_decimal s and hint = hint_of y m d and n = int_of_string n in
      let buf = Buffer.create (n * 21) in
      let bad = ref None in
      let iarr = Array.of_list itoks in
      let s = ref s0 in
      for i = 0 to n - 1 do
        let (_, iso) = model_instant hint !s in
        if i > 0 then Buffer.add_char buf ' ';
        Buffer.add_string buf iso;
        (if !bad = None then
           if i >= Array.length iarr then bad := Some "shape"
           else if not (oracle_iso_only !s iarr.(i)) then bad := Some ("iso@" ^ decimal_of_z !s));
        s := Z.add !s (z_of_int 1)
      done;
      if !bad = None && Array.length iarr <> n then bad := Some "shape";
      Printf.printf "%s | %s\n" (Buffer.contents buf)
        (match !bad with None -> "oracle=ok" | Some w -> "oracle=fail@" ^ w)
    | ["add"; y; mo; d; h; mi; s; secs] ->
      let t = { year = z_of_decimal y; month = z_of_decimal mo; day = z_of_decimal d;
                hour = z_of_decimal h; minute = z_of_decimal mi; sec = z_of_decimal s } in
      let secs = z_of_decimal secs in
      (* durations >= 2^63 are refused whatever the fuel (c16_add_rejects_huge_durations): do not build it *)
      let fuel = if z_lt i64_max secs then O else fuel_for secs in
      let m = pr_outcome (datetime_add fuel t secs) in
      let in_domain = valid_dtb t && z_le (Z.add t.sec secs) i64_max in
      let verdict =
        if z_lt i64_max secs then
          (* c16_add_rejects_huge_durations: the code must refuse *)
          (match itoks with "panic" :: _ -> "oracle=ok rejected" | _ -> "oracle=fail@accepted-huge-duration")
        else if not in_domain then "oracle=ok outside-domain"
        else
          (match itoks with
           | "panic" :: _ -> "oracle=fail@panic"
           | _ -> (match parse_dt itoks with
               | None -> "oracle=fail@unparsable"
               | Some obs -> if oracle_add t secs obs then "oracle=ok" else "oracle=fail@add")) in
      Printf.printf "%s | %s\n" m verdict
    | _ -> Printf.printf "? | oracle=badcase\n") cases impl
