(* drv_c15.ml -- C15 driver: parsing of case / observation lines and printing only.
   usage: drv_c15 cases.txt impl.txt > model.txt

   case syntax:
     req F { f <hdrname> N { p <lead> <name> <value> <trail> | e <lead> <trail> | n <lead> <text> <trail> } }
     sc K { c <name> <value> <domain> <expires|-> <http_only> <path> <secs> <subsec> <S|L|N> <secure> } *)
let z_of_decimal (s : string) : z = match n_of_decimal s with N0 -> Z0 | Npos p -> Zpos p

let take_n k toks = let rec go k acc toks = if k = 0 then (List.rev acc, toks) else
    match toks with t :: r -> go (k-1) (t :: acc) r | [] -> failwith "short" in go k [] toks

(* ---- req ---- *)
let parse_seg toks = match toks with
  | "p" :: l :: n :: v :: t :: r ->
    ({ seg_lead = bytes_of_tok l; seg_core_of = SPair (bytes_of_tok n, bytes_of_tok v); seg_trail = bytes_of_tok t }, r)
  | "e" :: l :: t :: r -> ({ seg_lead = bytes_of_tok l; seg_core_of = SEmpty; seg_trail = bytes_of_tok t }, r)
  | "n" :: l :: x :: t :: r -> ({ seg_lead = bytes_of_tok l; seg_core_of = SNoEq (bytes_of_tok x); seg_trail = bytes_of_tok t }, r)
  | _ -> failwith "bad seg"
let rec parse_segs k toks = if k = 0 then ([], toks) else
    let (s, r) = parse_seg toks in let (ss, r') = parse_segs (k-1) r in (s :: ss, r')
let rec parse_fields k toks = if k = 0 then [] else match toks with
    | "f" :: hdr :: n :: r ->
      let (segs, r') = parse_segs (int_of_string n) r in (bytes_of_tok hdr, segs) :: parse_fields (k-1) r'
    | _ -> failwith "bad field"

let pr_req (r : req_result) : string = match r with
  | CookiesOk m ->
    let m = sort_map m in
    "ok " ^ string_of_int (List.length m) ^
    String.concat "" (List.map (fun (k, v) -> " " ^ tok_of_bytes k ^ " " ^ tok_of_bytes v) m)
  | ErrMalformedCookieHeader ->
    "err HttpError::MalformedCookieHeader " ^ string_of_int (int_of_n status_of_malformed_cookie_header)

let parse_req_obs toks : req_result option = match toks with
  | "ok" :: n :: r ->
    let (xs, rest) = take_n (2 * int_of_string n) r in
    if rest <> [] then None else
      let rec pairs = function a :: b :: t -> (bytes_of_tok a, bytes_of_tok b) :: pairs t | _ -> [] in
      Some (CookiesOk (pairs xs))
  | ["err"; "HttpError::MalformedCookieHeader"; "400"] -> Some ErrMalformedCookieHeader
  | _ -> None

(* ---- sc ---- *)
let parse_cookie t : cookie = match t with
  | ["c"; name; value; domain; expires; ho; path; secs; subsec; ss; secure] ->
    { c_name = bytes_of_tok name; c_value = bytes_of_tok value; c_domain = bytes_of_tok domain;
      c_expires = (if expires = "-" then None else Some (z_of_decimal expires));
      c_http_only = (ho = "1"); c_path = bytes_of_tok path;
      c_max_age_secs = n_of_decimal secs; c_max_age_subsec = (subsec = "1");
      c_same_site = (match ss with "S" -> Strict | "L" -> Lax | "N" -> SSNone | _ -> failwith "bad samesite");
      c_secure = (secure = "1") }
  | _ -> failwith "bad cookie"
let rec parse_cookies k toks = if k = 0 then [] else
    let (t, r) = take_n 11 toks in parse_cookie t :: parse_cookies (k-1) r

let () =
  let cases = read_lines Sys.argv.(1) and impl = read_lines Sys.argv.(2) in
  List.iter2 (fun case impl_line ->
    let itoks = split_ws impl_line in
    match split_ws case with
    | "req" :: f :: toks ->
      let fields = parse_fields (int_of_string f) toks in
      (* only Cookie fields carry cookie pairs; other fields of the request (e.g. the ones read_http_request consumes
         before it walks the Cookie fields) must not change the map *)
      let is_cookie (hdr : n list) = String.lowercase_ascii (String.concat "" (List.map (fun x -> String.make 1 (Char.chr (int_of_n x))) hdr)) = "cookie" in
      let fs = List.map snd (List.filter (fun (hdr, _) -> is_cookie hdr) fields) in
      (* the model sees the header list of the parsed head: (name, rendered value) per field *)
      let hs = List.map (fun (hdr, segs) -> (hdr, render_field segs)) fields in
      let m = pr_req (request_cookies_of_headers hs) in
      let verdict =
        (match parse_req_obs itoks with
         | Some obs -> if oracle_request fs obs then "oracle=ok" else
             (match obs with CookiesOk _ -> "oracle=fail@map" | ErrMalformedCookieHeader -> "oracle=fail@rejected")
         | None ->
           (* another error, a panic, or unparsable text: a failure when the case is inside the statement; a framing
              error caused by one of the OTHER fields of the case (a transfer coding the library does not support,
              say) is outside C15's statement *)
           if List.exists (fun (hdr, _) -> not (is_cookie hdr)) fields
              && (match itoks with "err" :: d :: _ -> d = "HttpError::UnsupportedTransferEncoding" || d = "HttpError::InvalidContentLength" | _ -> false)
           then "oracle=ok outside-statement" else
           if fields_ok fs || oracle_request fs ErrMalformedCookieHeader && not (oracle_request fs (CookiesOk []))
           then "oracle=fail@" ^ (match itoks with a :: b :: _ -> a ^ "-" ^ b | _ -> "unparsable")
           else "oracle=ok outside-statement") in
      Printf.printf "%s | %s\n" m verdict
    | "sc" :: k :: toks ->
      let cs = parse_cookies (int_of_string k) toks in
      (* model: each cookie as a string, then the response's set-cookie fields *)
      let strs = List.map cookie_to_ascii_string cs in
      let m =
        if List.exists (fun c -> cookie_new c.c_name c.c_value = None) cs || List.mem None strs then "panic"
        else
          (match with_set_cookies [] cs with
           | None -> "panic"
           | Some hs ->
             let vs = get_all hs sET_COOKIE in
             String.concat "" (List.map (function Some s -> "str " ^ tok_of_bytes s ^ " ; " | None -> "") strs) ^
             "hdr " ^ string_of_int (List.length vs) ^
             String.concat "" (List.map (fun v -> " " ^ tok_of_bytes v) vs) ^
             " total " ^ string_of_int (List.length hs) ^
             (* the same fields on the wire, whatever the status code *)
             " wire ok " ^ string_of_int (List.length vs) ^
             String.concat "" (List.map (fun v -> " " ^ tok_of_bytes v) vs)) in
      let all_ok = List.for_all cookie_ok cs in
      let verdict =
        (match itoks with
         | "panic" :: _ -> if all_ok then "oracle=fail@panic" else "oracle=ok outside-statement"
         | _ ->
           (try
              (* "str x ; str y ; hdr K a b total T" *)
              let rec go toks strs = match toks with
                | "str" :: s :: ";" :: r -> go r (bytes_of_tok s :: strs)
                | "hdr" :: k :: r ->
                  let (vs, r') = take_n (int_of_string k) r in
                  (List.rev strs, List.map bytes_of_tok vs, r')
                | _ -> failwith "shape" in
              let (strs_i, hdrs_i, rest) = go itoks [] in
              let (total, wire) = (match rest with
                  | "total" :: t :: "wire" :: res :: n :: vs when List.length vs = int_of_string n ->
                    (int_of_string t, Some (res, List.map bytes_of_tok vs))
                  | ["total"; t] -> (int_of_string t, None)
                  | _ -> failwith "shape") in
              if not (oracle_set_cookies cs strs_i) then "oracle=fail@string"
              else if not (oracle_set_cookies cs hdrs_i) then "oracle=fail@header"
              else if total <> List.length cs then "oracle=fail@field-count"
              else (match wire with
                  | Some (res, vs) when all_ok && (res <> "ok" || vs <> hdrs_i) -> "oracle=fail@set-cookie-fields-on-the-wire"
                  | _ -> "oracle=ok")
            with _ -> "oracle=fail@unparsable")) in
      Printf.printf "%s | %s\n" m verdict
    | _ -> Printf.printf "? | oracle=badcase\n") cases impl
