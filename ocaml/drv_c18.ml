(* drv_c18.ml -- C18 driver.  usage: drv_c18 cases.txt impl.txt > model.txt
   Parsing and printing only: the model ([step]), the specification ([spec_step]) and the oracle
   ([oracle_c18_lines_step], [event_line_ok], [res_eqb], [oracle_own_tags]) are extracted Coq terms. *)
let z_of_decimal (s : string) : z =
  if String.length s > 0 && s.[0] = '-'
  then z_of_sign_mag true (n_of_decimal (String.sub s 1 (String.length s - 1)))
  else z_of_sign_mag false (n_of_decimal s)
let level_of_tok = function "error" -> LError | "info" -> LInfo | "debug" -> LDebug | l -> failwith ("level " ^ l)

let rec value_of (t : string) : tag_value =
  let ty, arg = match String.index_opt t ':' with
    | Some i -> String.sub t 0 i, String.sub t (i + 1) (String.length t - i - 1)
    | None -> t, "" in
  match ty with
  | "s" | "ss" -> VStr (scalars_of_tok arg)
  | "b" -> VBool (arg = "1")
  | "none" | "null" -> VNull
  | "i8" | "i16" | "i32" | "i64" | "i128" | "u8" | "u16" | "u32" | "u64" | "u128" | "usize" -> VInt (z_of_decimal arg)
  | "some" -> value_of arg
  | _ -> failwith ("bad value " ^ t)

(* k {name value}*k *)
let parse_tags toks = match toks with
  | k :: rest ->
    let rec go k toks = if k = 0 then ([], toks) else
        match toks with
        | name :: v :: r -> let (l, r') = go (k - 1) r in ((scalars_of_tok name, value_of v) :: l, r')
        | _ -> failwith "short tag list" in
    go (int_of_string k) rest
  | [] -> failwith "no tag count"
let parse_response toks = match toks with
  | code :: blen :: id :: rest ->
    ({ r_code = n_of_decimal code;
       (* g<max> = a get-the-body-first answer: logged like any other response, its body is empty *)
       r_body_len = (if blen = "-" then None else if blen.[0] = 'g' then Some N0 else Some (n_of_decimal blen));
       r_id = n_of_decimal id }, rest)
  | _ -> failwith "short response"
let bt_text = List.map n_of_int [60; 100; 105; 115; 97; 98; 108; 101; 100; 62]   (* <disabled> *)
let parse_hr toks = match toks with
  | "ok" :: rest -> let (r, rest') = parse_response rest in (HOk r, rest')
  | "err" :: msg :: bt :: rest ->
    let (etags, rest1) = parse_tags rest in
    let msg = if msg = "-" then None else Some (scalars_of_tok msg) in
    let bt = if bt = "1" then Some bt_text else None in
    (match rest1 with
     | "none" :: rest2 -> (HErr (msg, bt, etags, None), rest2)
     | "some" :: rest2 -> let (r, rest3) = parse_response rest2 in (HErr (msg, bt, etags, Some r), rest3)
     | _ -> failwith "bad err tail")
  | _ -> failwith "bad handler result"
let parse_request toks = match toks with
  | m :: p :: id :: blen :: rest ->
    ({ q_method = bytes_of_tok m; q_path = bytes_of_tok p; q_id = n_of_decimal id;
       q_body_len = (if blen = "-" then None else Some (n_of_decimal blen)) }, rest)
  | _ -> failwith "short request"

let parse_action toks : act = match toks with
  | ["add"; name; v] -> AAddTag (scalars_of_tok name, value_of v)
  | ["clear"] -> AClear
  | "log" :: lvl :: msg :: rest -> let (tg, _) = parse_tags rest in ALog (level_of_tok lvl, scalars_of_tok msg, tg)
  | "raw" :: lvl :: rest -> let (tg, _) = parse_tags rest in ALogRaw (level_of_tok lvl, tg)
  | "lr" :: rest -> let (hr, _) = parse_hr rest in ALogResponse hr
  | "wb" :: rest -> let (q, _) = parse_request rest in AWrapBegin q
  | "we" :: rest -> let (hr, _) = parse_hr rest in AWrapEnd (N0, hr)
  | "wr" :: rest -> let (q, r1) = parse_request rest in let (hr, _) = parse_hr r1 in AWrapped (q, N0, hr)
  | ["inst"; id] -> AInstall (n_of_decimal id)
  | ["drop"] -> ADropGuard
  | ["gone"; id] -> AReceiverGone (n_of_decimal id)
  | t :: _ -> failwith ("bad action " ^ t)
  | [] -> failwith "empty action"

(* split a token list at ";" *)
let split_semi toks =
  let rec go cur acc = function
    | [] -> List.rev (if cur = [] then acc else List.rev cur :: acc)
    | ";" :: r -> go [] (if cur = [] then acc else List.rev cur :: acc) r
    | t :: r -> go (t :: cur) acc r in
  go [] [] toks

let parse_steps toks = match toks with
  | _nthreads :: rest ->
    List.map (function t :: a -> ((n_of_decimal t, parse_action a), List.hd a) | [] -> failwith "empty step") (split_semi rest)
  | [] -> failwith "no thread count"

let show_res (r : res) = match r with
  | RUnit -> "U" | ROk -> "K" | RStopped -> "S" | RInstalled -> "I1" | RRefused -> "I0" | RDropped -> "D"
  | RNoGuard -> "N" | RPanic -> "panic"
  | RResp r -> Printf.sprintf "R %s %s %s" (decimal_of_n r.r_code)
                 (match r.r_body_len with None -> "-" | Some n -> decimal_of_n n) (decimal_of_n r.r_id)

(* one implementation step: "<result> { E <dest> <x-token> }" *)
let parse_impl_step toks : res * (dest * n list) list =
  let (r, rest) = match toks with
    | "U" :: r -> (RUnit, r) | "K" :: r -> (ROk, r) | "S" :: r -> (RStopped, r) | "I1" :: r -> (RInstalled, r)
    | "I0" :: r -> (RRefused, r) | "D" :: r -> (RDropped, r) | "N" :: r -> (RNoGuard, r) | "panic" :: r -> (RPanic, r)
    | "R" :: rest -> let (resp, r) = parse_response rest in (RResp resp, r)
    | t :: _ -> failwith ("bad result " ^ t)
    | [] -> failwith "empty step" in
  let rec evs = function
    | [] -> []
    | "E" :: "def" :: x :: r -> (DDefault, bytes_of_tok x) :: evs r
    | "E" :: id :: x :: r -> (DLogger (n_of_decimal id), bytes_of_tok x) :: evs r
    | t :: _ -> failwith ("bad event token " ^ t) in
  (r, evs rest)

(* the model's event, rendered with the time / time_ns of the implementation's corresponding line *)
let sample_time = List.map n_of_int [48;48;48;48;45;48;48;45;48;48;84;48;48;58;48;48;58;48;48;90]
let show_event (e : event) (impl_bytes : n list option) : string =
  let ((d, _), _) = e in
  let (time, ns) = match impl_bytes with
    | Some b -> (match utf8_decode b with Some line -> (line_time line, line_time_ns line) | None -> (sample_time, N0))
    | None -> (sample_time, N0) in
  let (_, bytes) = render_event time ns e in
  match d with
  | DLogger id -> Printf.sprintf "E %s %s" (decimal_of_n id) (tok_of_bytes bytes)
  | DDefault -> Printf.sprintf "E def %s" (tok_of_bytes bytes)
let nth_opt l i = try Some (List.nth l i) with _ -> None

let run_turns toks impl_line =
  let steps = parse_steps toks in
  let isteps = List.map (fun s -> try Some (parse_impl_step s) with _ -> None) (split_semi (split_ws impl_line)) in
  let buf = Buffer.create 256 in
  let verdict = ref "oracle=ok" in
  let fail s = if !verdict = "oracle=ok" then verdict := s in
  if List.length isteps <> List.length steps then fail "oracle=fail@shape";
  if not (List.for_all (fun ((_, a), _) -> act_wf a) steps) then fail "oracle=fail@case-not-wf";
  let _ = List.fold_left (fun (st, i) ((ta, op)) ->
      let (st', (r, evs)) = step st ta in
      let io = (match nth_opt isteps i with Some (Some x) -> Some x | _ -> None) in
      (* model observation *)
      Buffer.add_string buf (show_res r);
      List.iteri (fun j e ->
          let ib = (match io with Some (_, ies) -> (match nth_opt ies j with Some (_, b) -> Some b | None -> None) | None -> None) in
          Buffer.add_string buf (" " ^ show_event e ib)) evs;
      Buffer.add_string buf " ; ";
      (* oracle on the implementation's observation of this step, in the specification's state *)
      (match io with
       | Some x -> if not (oracle_c18_lines_step st ta x) then fail (Printf.sprintf "oracle=fail@step%d-%s" i op)
       | None -> fail (Printf.sprintf "oracle=fail@step%d-%s-unparsable" i op));
      (fst (spec_step st ta), i + 1)) (init_state, 0) steps in
  if not (oracle_own_tags (List.map fst steps)) then fail "oracle=fail@own-tags";
  Printf.printf "%s| %s\n" (Buffer.contents buf) !verdict

(* free-running mode: channel 0 installed by the conductor, threads unsynchronised; the model runs the
   threads one after the other (the per-thread event subsequences do not depend on the schedule:
   c18_tags_exact + the logger does not change) *)
let run_free toks impl_line =
  let nthreads = int_of_string (List.hd toks) in
  let steps = parse_steps toks in
  (* implementation: T<t> results.. EV lines.. ; *)
  let isegs = split_semi (split_ws impl_line) in
  let buf = Buffer.create 256 in
  let verdict = ref "oracle=ok" in
  let fail s = if !verdict = "oracle=ok" then verdict := s in
  if List.length isegs <> nthreads then fail "oracle=fail@shape";
  if not (List.for_all (fun ((_, a), _) -> act_wf a) steps) then fail "oracle=fail@case-not-wf";
  let (st0, _) = step init_state (n_of_int 99, AInstall N0) in
  let st = ref st0 in
  for t = 0 to nthreads - 1 do
    let mine = List.filter (fun ((th, _), _) -> int_of_n th = t) steps in
    let results = ref [] and events = ref [] in
    List.iter (fun (ta, _) ->
        let (st', (r, evs)) = step !st ta in
        st := st'; results := r :: !results; events := List.rev_append evs !events) mine;
    let results = List.rev !results and events = List.rev !events in
    let (ires, ilines) = (match nth_opt isegs t with
        | Some (_ :: rest) ->
          let rec cut acc = function "EV" :: r -> (List.rev acc, r) | x :: r -> cut (x :: acc) r | [] -> (List.rev acc, []) in
          cut [] rest
        | _ -> ([], [])) in
    let ibytes = List.map (fun x -> try bytes_of_tok x with _ -> []) ilines in
    Buffer.add_string buf (String.concat " " ((Printf.sprintf "T%d" t) :: List.map show_res results @ ["EV"]));
    List.iteri (fun j e ->
        let ((_, _), _) = e in
        let s = show_event e (nth_opt ibytes j) in
        (* "E 0 x.." -> "x.." *)
        Buffer.add_string buf (" " ^ List.nth (String.split_on_char ' ' s) 2)) events;
    Buffer.add_string buf " ; ";
    if String.concat " " ires <> String.concat " " (List.map show_res results) then fail (Printf.sprintf "oracle=fail@thread%d-results" t);
    if List.length ibytes <> List.length events then fail (Printf.sprintf "oracle=fail@thread%d-event-count" t)
    else List.iter2 (fun b e -> if not (event_line_ok (DLogger N0, b) e) then fail (Printf.sprintf "oracle=fail@thread%d-event" t)) ibytes events
  done;
  Printf.printf "%s| %s\n" (Buffer.contents buf) !verdict

let () =
  let cases = read_lines Sys.argv.(1) and impl = read_lines Sys.argv.(2) in
  List.iter2 (fun case impl_line ->
    try
      match split_ws case with
      | ("prog" | "child") :: toks -> run_turns toks impl_line
      | "free" :: toks -> run_free toks impl_line
      | ["race"; n] ->
        (* the install / first-use race: whatever the interleaving no iteration may break the delivery rule
           (Model/Logging.v: a call is delivered to the logger installed at its linearisation point) *)
        let model = Printf.sprintf "race %s bad=0 first=-" n in
        let got = String.trim impl_line in
        Printf.printf "%s | %s\n" model
          (if got = model then "oracle=ok"
           else match List.rev (String.split_on_char '=' got) with
             | why :: _ :: _ -> "oracle=fail@race-" ^ why
             | _ -> "oracle=fail@race-unreadable")
      | _ -> Printf.printf "? | oracle=badcase\n"
    with e -> Printf.printf "? | oracle=driver-exception-%s\n" (String.map (fun c -> if c = ' ' || c = '|' then '_' else c) (Printexc.to_string e))
  ) cases impl
