(* drv_c14.ml -- reads cases and the implementation's observations, prints per case:
   the model's observation line (same syntax as the harness) and the oracle verdict evaluated on
   the implementation's observations.   usage: drv_c14 cases.txt impl.txt > model.txt *)
let pr_state (hs : (n list * n list) list) : string =
  "S" ^ string_of_int (List.length hs) ^
  String.concat "" (List.map (fun (a, b) -> " " ^ tok_of_bytes a ^ " " ^ tok_of_bytes b) hs)
let pr_res (r : hres) : string = match r with
  | RUnit -> "U"
  | ROpt None -> "N"
  | ROpt (Some v) -> "O " ^ tok_of_bytes v
  | RList vs -> "L" ^ string_of_int (List.length vs) ^ String.concat "" (List.map (fun v -> " " ^ tok_of_bytes v) vs)

let rec parse_ops (toks : string list) : hop list = match toks with
  | [] -> []
  | "A" :: n :: v :: rest -> OpAdd (bytes_of_tok n, bytes_of_tok v) :: parse_ops rest
  | "G" :: n :: rest -> OpGetOnly (bytes_of_tok n) :: parse_ops rest
  | "L" :: n :: rest -> OpGetAll (bytes_of_tok n) :: parse_ops rest
  | "R" :: n :: rest -> OpRemoveOnly (bytes_of_tok n) :: parse_ops rest
  | "X" :: n :: rest -> OpRemoveAll (bytes_of_tok n) :: parse_ops rest
  | t :: _ -> failwith ("bad op token " ^ t)

(* parse the implementation's "<res> <state> ; <res> <state> ; ..." *)
let take_n k toks = let rec go k acc toks = if k = 0 then (List.rev acc, toks) else
    match toks with t :: r -> go (k-1) (t :: acc) r | [] -> failwith "short" in go k [] toks
let parse_res toks = match toks with
  | "U" :: r -> (RUnit, r)
  | "N" :: r -> (ROpt None, r)
  | "O" :: v :: r -> (ROpt (Some (bytes_of_tok v)), r)
  | t :: r when String.length t > 0 && t.[0] = 'L' ->
    let k = int_of_string (String.sub t 1 (String.length t - 1)) in
    let (vs, r') = take_n k r in (RList (List.map bytes_of_tok vs), r')
  | _ -> failwith "bad res"
let parse_state toks = match toks with
  | t :: r when String.length t > 0 && t.[0] = 'S' ->
    let k = int_of_string (String.sub t 1 (String.length t - 1)) in
    let (xs, r') = take_n (2*k) r in
    let rec pairs = function a :: b :: t -> (bytes_of_tok a, bytes_of_tok b) :: pairs t | _ -> [] in
    (pairs xs, r')
  | _ -> failwith "bad state"
let rec parse_steps toks = match toks with
  | [] -> []
  | ";" :: r -> parse_steps r
  | _ -> let (res, r1) = parse_res toks in let (st, r2) = parse_state r1 in (res, st) :: parse_steps r2

let () =
  let cases = read_lines Sys.argv.(1) and impl = read_lines Sys.argv.(2) in
  List.iter2 (fun case impl_line ->
    match split_ws case with
    | "ops" :: toks ->
      let ops = parse_ops toks in
      (* model run *)
      let buf = Buffer.create 64 in
      let _ = List.fold_left (fun hs o ->
          let (hs', r) = hstep hs o in
          Buffer.add_string buf (pr_res r ^ " " ^ pr_state hs' ^ " ; "); hs') [] ops in
      (* oracle on the implementation's own states *)
      let verdict =
        (match split_ws impl_line with
         | "panic" :: _ -> "oracle=panic"
         | itoks ->
           (try
             let steps = parse_steps itoks in
             if List.length steps <> List.length ops then "oracle=shape" else
             let rec go i before ops steps = match ops, steps with
               | o :: ot, (r, after) :: st ->
                 if oracle_c14_step before o after r && all_ascii after then go (i+1) after ot st
                 else "oracle=fail@" ^ string_of_int i
               | _ -> "oracle=ok" in
             go 0 [] ops steps
           with _ -> "oracle=unparsable")) in
      Printf.printf "%s| %s\n" (Buffer.contents buf) verdict
    | "req" :: m :: toks ->
      let rec pairs = function a :: b :: t -> (bytes_of_tok a, bytes_of_tok b) :: pairs t | _ -> [] in
      let hs = pairs toks in
      let meth = bytes_of_tok m in
      let model = (match request_of_head meth hs with
          | QOk r -> "ok " ^ pr_state r.rq_headers
          | QErr InvalidContentLength -> "err InvalidContentLength"
          | QErr UnsupportedTransferEncoding -> "err UnsupportedTransferEncoding"
          | QErr MalformedCookieHeader -> "err MalformedCookieHeader") in
      (* oracle (boolean form of c14_handler_sees_sent_minus_consumed), on the implementation's own answer:
         an accepted request exposes exactly the sent list minus the consumed fields, in order, all ASCII *)
      (* a field with a byte >= 128 never reaches the header processing: the head parser refuses it (names and
         values are always pure ASCII); the model line for such a case is the refusal *)
      let ascii_sent = all_ascii hs in
      let model = if ascii_sent then model else "err MalformedHeaderLine" in
      let verdict = (match split_ws impl_line with
          | "panic" :: _ -> "oracle=fail@panic"
          | "ok" :: st ->
            (try let (hs_i, _) = parse_state st in
               if not (all_ascii hs_i) then "oracle=fail@non-ascii-in-an-exposed-header"
               else if not ascii_sent then "oracle=fail@non-ascii-field-accepted"
               else if oracle_c14_req hs hs_i then "oracle=ok" else "oracle=fail@exposed-headers"
             with _ -> "oracle=unparsable")
          | "err" :: _ ->
            if not ascii_sent then "oracle=ok"
            else (match request_of_head meth hs with QOk _ -> "oracle=fail@rejected" | QErr _ -> "oracle=ok")
          | _ -> "oracle=unparsable") in
      Printf.printf "%s | %s\n" model verdict
    | "ascii" :: _ctor :: u :: _ ->
      let chars = scalars_of_tok u in
      let m = (match ascii_try_from chars with None -> "E" | Some s -> "K " ^ tok_of_bytes s) in
      (* oracle: implementation accepted => result is the same text and all ASCII; rejected => some scalar >= 128 *)
      let verdict = (match split_ws impl_line with
          | ["E"] -> if List.exists (fun c -> int_of_n c >= 128) chars then "oracle=ok" else "oracle=fail@reject-ascii"
          | ["K"; v] -> let b = bytes_of_tok v in
            if b = chars && List.for_all (fun c -> int_of_n c < 128) b then "oracle=ok" else "oracle=fail@accept-nonascii"
          | _ -> "oracle=unparsable") in
      Printf.printf "%s | %s\n" m verdict
    | _ -> Printf.printf "? | oracle=badcase\n") cases impl
