(* drv_c19.ml -- reads cases and the implementation's observations, prints per case the model's
   observation line (same syntax as harness/src/bin/c19.rs) and the oracle verdict evaluated on the
   implementation's observations.   usage: drv_c19 cases.txt impl.txt > model.txt
   Only parsing, printing and bookkeeping of the token streams; every decision (model steps, tie
   plan, oracles, tracking of the specification state) is an extracted Coq function. *)
let nn = n_of_int
let name_of_tok t = NPre (bytes_of_tok t)
let str_of_bytes (b : n list) = String.concat "" (List.map (fun x -> String.make 1 (Char.chr (int_of_n x))) b)
let bytes_of_str (s : string) : n list = List.init (String.length s) (fun i -> nn (Char.code s.[i]))

(* ------------------------------------------------------------------------------ set cases *)
let pr_listing (fs : file list) : string =
  let items = List.filter_map (fun f -> match f.f_name with
      | NPre b -> Some (str_of_bytes b, tok_of_bytes b ^ ":" ^ (if f.f_reg then decimal_of_n (f_size f) else "d"))
      | NGen _ -> None) (listing fs) in
  let items = List.sort compare items in
  "L" ^ string_of_int (List.length items) ^ String.concat "" (List.map (fun (_, s) -> " " ^ s) items)

(* implementation observation of a set case: list of (status, names in listing) *)
let parse_set_obs (line : string) : (string * string list) list =
  let parts = String.split_on_char ';' line in
  List.filter_map (fun p -> match split_ws p with
      | [] -> None
      | st :: rest ->
        let names = List.filter_map (fun t -> match String.index_opt t ':' with
            | Some i when t.[0] = 'x' -> Some (String.sub t 0 i) | _ -> None) rest in
        Some (st, names)) parts

let opname o = match o with ONew _ -> "new" | OPush _ -> "push" | ODelOldest -> "delete_oldest"
                           | ODelOlder _ -> "delete_older_than" | OWhileOver _ -> "delete_oldest_while_over_max_len" | _ -> "?"
let set_case (toks : string list) (impl_line : string) : string * string =
  let prefix = match toks with p :: _ -> bytes_of_tok p | [] -> failwith "no prefix" in
  let ops_toks = List.tl toks in
  let impl = ref (try parse_set_obs impl_line with _ -> []) in
  let buf = Buffer.create 256 in
  let verdict = ref "oracle=ok" in
  let fail s = if !verdict = "oracle=ok" then verdict := "oracle=fail@" ^ s in
  (* model state *)
  let sys = ref ([], { entries = []; slen = N0; ties = [] }) in
  let dead = ref false in
  (* specification-side state, driven by the implementation's observations *)
  let sfs = ref [] and ses = ref [] in
  let prev_names = ref [] in          (* implementation listing before the op (x-tokens) *)
  let order = ref [] in               (* names in creation order (the order of the F / P ops of the case) *)
  let d20 = ref false in              (* a deletion against creation order among equally old files (known finding D20) *)
  let idx = ref 0 in
  let rec go toks = match toks with
    | [] -> ()
    | "F" :: nm :: kind :: size :: mtime :: rest ->
      let o = OMkFile (bytes_of_tok nm, kind = "f", n_of_decimal size, n_of_decimal mtime) in
      (match set_step fix18 Debug prefix !sys o with ROk s -> sys := s | _ -> ());
      (match set_step post_fix Debug prefix (!sfs, { entries = []; slen = N0; ties = [] }) o with
       | ROk (fs, _) -> sfs := fs | _ -> ());
      prev_names := nm :: !prev_names;
      order := !order @ [name_of_tok nm];
      go rest
    | _ ->
      let (o, rest) = (match toks with
          | "N" :: r -> (ONew [], r)
          | "P" :: nm :: mt :: len :: r ->
            if not (List.mem (name_of_tok nm) !order) then order := !order @ [name_of_tok nm];
            (OPush (bytes_of_tok nm, n_of_decimal mt, n_of_decimal len), r)
          | "D" :: r -> (ODelOldest, r)
          | "A" :: now :: dur :: r -> (ODelOlder (n_of_decimal now, n_of_decimal dur), r)
          | "W" :: mx :: r -> (OWhileOver (n_of_decimal mx), r)
          | t :: _ -> failwith ("bad set op " ^ t)
          | [] -> failwith "impossible") in
      (* what the implementation did in this step *)
      let iobs = (match !impl with x :: r -> impl := r; Some x | [] -> None) in
      let del = (match iobs with
          | Some (st, names) when st <> "panic" ->
            List.filter (fun nme -> not (List.mem nme names)) !prev_names
          | _ -> []) in
      let del_n = List.map name_of_tok del in
      (* model step: the repaired heap order (mtime, then path) leaves no choice *)
      if not !dead then begin
        let s1 = !sys in
        (match set_step fix18 Debug prefix s1 o with
         | ROk s -> sys := s; Buffer.add_string buf ("ok " ^ pr_listing (fst s) ^ " ; ")
         | RErr s -> sys := s; Buffer.add_string buf ("err " ^ pr_listing (fst s) ^ " ; ")
         | RPanic -> dead := true; Buffer.add_string buf "panic")
      end;
      (* oracle on the implementation's step *)
      (match iobs with
       | None -> if not !dead then fail "set:missing"
       | Some (st, names) ->
         if st = "panic" then begin
           (* the only documented panic: delete_oldest on an empty set *)
           (match o, !ses with ODelOldest, [] -> () | _ -> fail ("set:panic-in-" ^ opname o))
         end else begin
           if st <> "ok" then fail ("set:" ^ st ^ "-in-" ^ opname o);
           if List.exists (fun nme -> not (List.mem nme !prev_names)) names then fail "set:file-appeared";
           if not (oracle_set_step fix18 !ses o del_n) then
             fail (if oracle_set_step post_fix !ses o del_n then "set:suffix-hole-equal-mtimes-D18" else "set:" ^ opname o);
           (* creation order: no file may survive that is older (smaller mtime, or equal mtime and created earlier)
              than a deleted one; equally old files ordered by path text against creation order = known finding D20 *)
           if del_n <> [] && not (oracle_set_creation !order !ses del_n) then begin
             if kf_c19_equal_mtime_name_order !order !ses del_n then d20 := true
             else fail "set:deleted-a-newer-file-before-an-older-one"
           end;
           ses := track_entries post_fix prefix !sfs !ses o del_n;
           sfs := kill_names del_n !sfs;
           prev_names := names
         end);
      incr idx;
      (match iobs with Some ("panic", _) -> () | _ -> if not !dead || iobs <> None then go rest)
  in
  (try go ops_toks with Failure m -> verdict := "oracle=unparsable:" ^ m);
  if !verdict = "oracle=ok" && !d20 then verdict := "oracle=fail@survivors-not-a-suffix:equally-old-files-ordered-by-path-text kf=D20";
  (Buffer.contents buf, !verdict)

(* ------------------------------------------------------------------------------ writer cases *)
let prefix_str = "server.log"
let entry_name (label : string) : string =
  let kind = label.[0] and idx = int_of_string (String.sub label 1 (String.length label - 1)) in
  match kind with
  | 'g' -> Printf.sprintf "%s.20200101T0000%02dZ-0" prefix_str idx
  | 'p' -> Printf.sprintf "%sx%d" prefix_str idx
  | 'q' -> Printf.sprintf "%s2.%d" prefix_str idx
  | 'o' -> Printf.sprintf "other%d.txt" idx
  | 'r' -> Printf.sprintf "server.lo%d" idx
  | 'd' -> Printf.sprintf "%s.dir%d" prefix_str idx
  | _ -> failwith "bad kind"

let pr_snapshot (labels : (string * n list) list) (fs : file list) : string =
  let b = Buffer.create 256 in
  let live = listing fs in
  List.iter (fun (label, nameb) ->
      List.iter (fun f -> match f.f_name with
          | NPre x when x = nameb ->
            Buffer.add_string b (" " ^ label ^ "=" ^ (if f.f_reg then decimal_of_n (f_size f) else "d"))
          | _ -> ()) live) labels;
  List.iter (fun f -> match f.f_name with
      | NGen _ ->
        Buffer.add_string b " [";
        Buffer.add_string b (String.concat " " (List.map (fun l -> decimal_of_n l.l_id ^ ":" ^ decimal_of_n l.l_size) f.f_lines));
        Buffer.add_string b "]"
      | _ -> ()) live;
  Buffer.contents b

(* parse one implementation snapshot " g0=100 o0=10 [1:5 2:6] [3:7]" *)
let parse_snapshot (s : string) : (string * string) list * line list list =
  let toks = split_ws s in
  let labels = ref [] and files = ref [] and cur = ref None in
  let add_line t =
    match String.split_on_char ':' t with
    | [a; z] -> (match !cur with Some l -> cur := Some ({ l_id = n_of_decimal a; l_size = n_of_decimal z; l_time = N0 } :: l)
                               | None -> failwith "line outside file")
    | _ -> failwith ("bad line token " ^ t) in
  List.iter (fun t ->
      let t = ref t in
      if String.length !t > 0 && !t.[0] = '[' then begin cur := Some []; t := String.sub !t 1 (String.length !t - 1) end;
      let closing = String.length !t > 0 && !t.[String.length !t - 1] = ']' in
      if closing then t := String.sub !t 0 (String.length !t - 1);
      (match !cur with
       | Some _ -> if !t <> "" then add_line !t
       | None ->
         (match String.index_opt !t '=' with
          | Some i -> labels := (String.sub !t 0 i, String.sub !t (i + 1) (String.length !t - i - 1)) :: !labels
          | None -> failwith ("bad snapshot token " ^ !t)));
      if closing then (match !cur with Some l -> files := List.rev l :: !files; cur := None | None -> failwith "stray ]")) toks;
  (List.rev !labels, List.rev !files)

let writer_case (toks : string list) (impl_line : string) : string * string =
  let prefix = bytes_of_str prefix_str in
  let parts = List.map String.trim (String.split_on_char '|' impl_line) in
  let hdr, isnaps = (match parts with h :: r -> (h, ref r) | [] -> ("", ref [])) in
  let geti key = (try
      List.fold_left (fun acc t -> match String.split_on_char '=' t with
          | [k; v] when k = key -> int_of_string v | _ -> acc) (-1) (split_ws hdr) with _ -> -1) in
  let ovh = geti "ovh" and s0 = geti "s0" in
  let buf = Buffer.create 1024 in
  Buffer.add_string buf (Printf.sprintf "ovh=%d s0=%d" ovh s0);
  let verdict = ref "oracle=ok" in
  let fail s = if !verdict = "oracle=ok" then verdict := "oracle=fail@" ^ s in
  let clock = ref 1_000_000_000_000 in
  let fs = ref [] and w = ref None and dead = ref false in
  let labels = ref [] in                     (* (label, name bytes, size string) in E order *)
  let olds = ref [] in                       (* pre-existing log files as set entries (name, mtime, size) *)
  let accepted = ref [] in                   (* reversed *)
  let next_id = ref 0 in
  let mw = ref N0 and mk = ref N0 in
  let cfg = ref { max_keep_age = None; max_keep_bytes = N0; max_write_age = N0; max_write_bytes = N0; ticks_per_sec = nn 1000 } in
  let snap_idx = ref 0 in
  let ev_time : (int, int) Hashtbl.t = Hashtbl.create 64 in   (* event id -> model time of its loop iteration *)
  let restamped = ref [] in                  (* (lines of a file of an earlier run, mtime the harness gave it) *)
  let start_time = ref None in               (* model time of the running writer's start line *)
  let last_event_time = ref None in          (* Some t: the last accepted line of the running writer is an event *)
  let last_ifiles = ref [] in
  let key_of (ls : line list) = String.concat " " (List.map (fun l -> decimal_of_n l.l_id ^ ":" ^ decimal_of_n l.l_size) ls) in
  let cur_fs () = match !w with Some ws -> ws.w_fs | None -> !fs in
  let do_snapshot () =
    if not !dead then Buffer.add_string buf (" |" ^ pr_snapshot (List.map (fun (l, b, _) -> (l, b)) !labels) (cur_fs ()));
    (* oracle on the implementation's snapshot *)
    (match !isnaps with
     | [] -> fail "writer:missing-snapshot"
     | s :: r ->
       isnaps := r;
       if s = "panic" || s = "starterr" || (String.length s >= 7 && String.sub s 0 7 = "timeout") then
         fail ("writer:" ^ List.hd (split_ws s))
       else begin
         let (ilabels, ifiles) = parse_snapshot s in
         (* entries that do not match the prefix (or are directories) must be untouched *)
         List.iter (fun (l, nameb, size) ->
             let m = matches post_fix prefix (NPre nameb) && size <> "d" in
             match List.assoc_opt l ilabels with
             | Some z -> if z <> size then fail ("writer:entry-changed-" ^ String.sub l 0 1)
             | None -> if not m then fail ("writer:non-matching-entry-deleted-" ^ String.sub l 0 1)) !labels;
         List.iter (fun (l, _) -> if not (List.exists (fun (l', _, _) -> l' = l) !labels) then fail "writer:unknown-entry") ilabels;
         let old_total = List.fold_left (fun acc (l, nameb, _) ->
             match List.assoc_opt l ilabels with
             | Some z when z <> "d" && matches post_fix prefix (NPre nameb) -> acc + int_of_string z
             | _ -> acc) 0 !labels in
         let alive = List.filter_map (fun (l, nameb, _) ->
             if List.mem_assoc l ilabels then Some (NPre nameb) else None) !labels in
         if not (ow_old_order fix18 !olds alive) then
           fail (if ow_old_order post_fix !olds alive then "writer:suffix-hole-equal-mtimes-D18"
                 else "writer:old-files-not-deleted-oldest-first");
         last_ifiles := ifiles;
         (* age clause: closed log files with the mtime the set knows *)
         (match !last_event_time with
          | Some now ->
            let old_closed = List.filter (fun e -> List.mem e.p_name alive) !olds in
            let rec gen_closed fl = (match fl with
                | f :: ((g :: _) as rest) ->
                  let k = key_of f in
                  let mt = (match List.assoc_opt k !restamped with
                      | Some t -> Some t
                      | None -> (match g with
                          | l :: _ when l.l_id <> start_id -> Hashtbl.find_opt ev_time (int_of_n l.l_id)
                          | _ -> None)) in
                  (match mt with
                   | Some t -> { p_name = NGen (N0, N0); p_mtime = nn t; p_len = N0 } :: gen_closed rest
                   | None -> gen_closed rest)
                | _ -> []) in
            if not (ow_age !cfg.max_keep_age (nn now) (old_closed @ gen_closed ifiles)) then
              fail "writer:closed-file-older-than-keep-age"
          | None -> ());
         (* write-age clause ("no file exceeds the configured age by more than one event"): every line but the
            first of a file of the running writer was handed over at most max_write_age (+1 tick per line of
            slack for the model's own event ticks) after the line that opened the file *)
         List.iter (fun f ->
             let time_of l = if l.l_id = start_id then !start_time else Hashtbl.find_opt ev_time (int_of_n l.l_id) in
             match f with
             | l0 :: rest when not (List.mem_assoc (key_of f) !restamped) ->
               (match time_of l0 with
                | Some t0 ->
                  List.iter (fun l -> match time_of l with
                      | Some t when l.l_id <> start_id && t - t0 > int_of_n !cfg.max_write_age + List.length f ->
                        fail "writer:line-appended-to-a-file-older-than-max_write_age"
                      | _ -> ()) rest
                | None -> ())
             | _ -> ()) ifiles;
         let acc = List.rev !accepted in
         if not (oracle_writer !mw !mk acc (nn old_total) ifiles) then
           fail (if not (ow_suffix acc ifiles) then "writer:surviving-files-are-not-a-suffix-of-the-accepted-lines"
                 else if not (ow_current_last acc ifiles) then "writer:current-file-does-not-end-with-the-last-event"
                 else if not (ow_file_sizes !mw ifiles) then "writer:file-exceeds-max_write_bytes-by-more-than-one-event"
                 else "writer:total-size-exceeds-keep-bound")
       end);
    incr snap_idx in
  let rec go toks = match toks with
    | [] -> ()
    | "E" :: label :: size :: age :: rest ->
      let nameb = bytes_of_str (entry_name label) in
      let reg = label.[0] <> 'd' in
      let mt = nn (!clock - int_of_string age) in
      let f = { f_name = NPre nameb; f_reg = reg; f_alive = true; f_mtime = mt; f_created = mt;
                f_lines = (if reg then [{ l_id = N0; l_size = n_of_decimal size; l_time = mt }] else []) } in
      fs := !fs @ [f];
      labels := !labels @ [(label, nameb, if reg then size else "d")];
      if reg && matches post_fix prefix (NPre nameb) then
        olds := !olds @ [{ p_name = NPre nameb; p_mtime = mt; p_len = n_of_decimal size }];
      go rest
    | "S" :: a :: b :: ka :: wa :: rest ->
      mw := n_of_decimal a; mk := n_of_decimal b;
      let ka = int_of_string ka and wa = int_of_string wa in
      cfg := { max_keep_age = (if ka > 0 then Some (nn (ka * 1000)) else None); max_keep_bytes = !mk;
               max_write_age = nn (if wa > 0 then wa * 1000 else 86_400_000); max_write_bytes = !mw;
               ticks_per_sec = nn 1000 };
      clock := !clock + 1;
      let sl = { l_id = start_id; l_size = nn s0; l_time = nn !clock } in
      accepted := sl :: !accepted;
      start_time := Some !clock;
      last_event_time := None;
      if not !dead then
        (match start fix18 Debug !cfg prefix (cur_fs ()) [] sl with
         | ROk ws -> w := Some ws
         | RErr _ -> dead := true; Buffer.add_string buf " | starterr"
         | RPanic -> dead := true; Buffer.add_string buf " | panic");
      go rest
    | "snap" :: rest -> do_snapshot (); go rest
    | "X" :: gap :: rest ->
      do_snapshot ();
      (* the harness re-stamps the generated files it saw: newest is gap old, 1 tick apart *)
      let k = List.length !last_ifiles in
      restamped := List.mapi (fun j f -> (key_of f, !clock - int_of_string gap - (k - 1 - j))) !last_ifiles;
      last_event_time := None;
      (match !w with
       | Some ws -> fs := restamp (nn !clock) (n_of_decimal gap) ws.w_fs; w := None
       | None -> ());
      go rest
    | "Z" :: ms :: rest -> clock := !clock + int_of_string ms; go rest
    (* a held event: built now, handed to the writer ms later -- the writer's clock reading is what counts *)
    | "H" :: ms :: rest -> clock := !clock + int_of_string ms; go rest
    | t :: rest when String.length t > 1 && t.[0] = 'e' ->
      let size = String.sub t 1 (String.length t - 1) in
      clock := !clock + 1;
      let ev = { l_id = nn !next_id; l_size = n_of_decimal size; l_time = nn !clock } in
      Hashtbl.replace ev_time !next_id !clock;
      last_event_time := Some !clock;
      incr next_id;
      accepted := ev :: !accepted;
      if not !dead then
        (match !w with
         | Some ws ->
           (match step fix18 Debug !cfg ws ev with
            | ROk ws' -> w := Some ws'
            | _ -> dead := true; Buffer.add_string buf " | panic")
         | None -> failwith "event before start");
      go rest
    | t :: _ -> failwith ("bad writer token " ^ t) in
  (try go toks with Failure m -> verdict := "oracle=unparsable:" ^ m | Not_found -> verdict := "oracle=unparsable");
  (* an implementation that stopped early (panic / timeout) with snapshots left unexamined *)
  (match !isnaps with
   | s :: _ when !verdict = "oracle=ok" && (s = "panic" || s = "starterr" || (String.length s >= 7 && String.sub s 0 7 = "timeout")) ->
     fail ("end:" ^ List.hd (split_ws s))
   | _ -> ());
  (Buffer.contents buf, !verdict)

let () =
  let cases = read_lines Sys.argv.(1) and impl = read_lines Sys.argv.(2) in
  List.iter2 (fun case impl_line ->
      match split_ws case with
      | "set" :: toks -> let (m, v) = set_case toks impl_line in Printf.printf "%s| %s\n" m v
      | "writer" :: toks -> let (m, v) = writer_case toks impl_line in Printf.printf "%s | %s\n" m v
      | _ -> Printf.printf "? | oracle=badcase\n") cases impl
