(* drv_c13.ml -- driver of the C13 check (shares its body with drv_c12.ml). *)
let which = "c13"
(* reads cases and the implementation's observations, prints per case the model's observation
   line (same syntax as the harness) and the oracle verdict evaluated on the implementation's
   observations.   usage: drv cases.txt impl.txt > model.txt
   Parsing and printing only; every decision is taken by extracted Coq functions. *)
let nat = nat_of_int
let int = int_of_nat

let strip_prefix p s =
  let lp = String.length p in
  if String.length s >= lp && String.sub s 0 lp = p then Some (String.sub s lp (String.length s - lp)) else None
let num_of s = int_of_string (List.hd (String.split_on_char ':' s))

(* ---- pool ---- *)
let parse_pop (t : string) : pop = match t with
  | "T" -> PTake | "Y" -> PTry
  | _ -> (match strip_prefix "D" t with Some k -> PDrop (nat (int_of_string k)) | None -> failwith ("bad pool op " ^ t))
let pr_pobs = function OGot -> "G" | OTimeout -> "T" | ODropped -> "D" | OBad -> "B"
let parse_pobs = function "G" -> OGot | "T" -> OTimeout | "D" -> ODropped | "B" -> OBad | t -> failwith ("bad pobs " ^ t)

let pool_case toks impl_line =
  match toks with
  | n :: ops ->
    let n = nat (int_of_string n) in
    let ops = List.map parse_pop ops in
    let ((obs, p1), p2) = pool_model n ops in
    let model = Printf.sprintf "%s ; %d %d" (String.concat " " (List.map pr_pobs obs)) (int p1) (int p2) in
    let verdict =
      (match split_ws impl_line with
       | "panic" :: _ -> "oracle=fail@panic"
       | "hang" :: _ -> "oracle=fail@blocked-with-free-slot"
       | itoks ->
         (try
            let rec split acc = function ";" :: r -> (List.rev acc, r) | x :: r -> split (x :: acc) r | [] -> failwith "no ;" in
            let (o, rest) = split [] itoks in
            (match rest with
             | [a; b] ->
               if oracle_c12_pool n ops ((List.map parse_pobs o, nat (int_of_string a)), nat (int_of_string b))
               then "oracle=ok" else "oracle=fail@pool-conservation"
             | _ -> "oracle=unparsable")
          with _ -> "oracle=unparsable")) in
    (model, verdict)
  | [] -> ("?", "oracle=badcase")

(* ---- accept loop / server scenarios ---- *)
type ctok = Cmd of cmd | ErrThenConnect of int | ErrThenRevoke of int | Burst of int * int
let parse_cmd (t : string) : ctok =
  if t = "c" || t = "C" || t = "x" then Cmd KConnect      (* C: the first request is an upload head without body; same transitions *)
  else if t = "r" then Cmd KRevoke
  else if t = "L" then Cmd (KErrors O)          (* a stalled global logger is installed: no transition *)
  else match strip_prefix "e" t with Some k -> Cmd (KEnd (nat (num_of k))) | None ->
  match strip_prefix "b" t with
  | Some r -> (match String.split_on_char ':' r with
      | [k; j] -> Burst (int_of_string k, int_of_string j)
      | [k] -> Burst (int_of_string k, 2)
      | _ -> failwith ("bad burst " ^ t))
  | None ->
  match strip_prefix "q" t with Some k -> Cmd (KRequest (nat (num_of k))) | None ->
  match strip_prefix "Q" t with Some k -> Cmd (KRequest (nat (num_of k))) | None ->
  match strip_prefix "l" t with Some k -> Cmd (KRelease (nat (num_of k))) | None ->
  match strip_prefix "y" t with Some k -> Cmd (KRelease (nat (num_of k))) | None ->
  match strip_prefix "p" t with Some _ -> Cmd (KErrors O) | None ->       (* half a head: no transition *)
  match strip_prefix "u" t with Some _ -> Cmd (KErrors O) | None ->       (* head + part of the body: none *)
  match strip_prefix "f" t with Some e -> ErrThenConnect (int_of_string e) | None ->
  match strip_prefix "F" t with Some e -> ErrThenRevoke (int_of_string e) | None ->
  match strip_prefix "G" t with Some e -> ErrThenConnect (int_of_string e) | None ->
  failwith ("bad cmd " ^ t)

let b01 b = if b then "1" else "0"
let pr_obs full n (m : sim) : string =
  let o = observe m in
  if full then
    let t = sim_totals true n m in
    Printf.sprintf "-,-,%d,%d,%d,%d,%s,%s" (int o.o_handlers) (int t.t_entries) (int t.t_done) (int (sim_closed true n m))
      (b01 o.o_stopped) (b01 o.o_listening)
  else
    Printf.sprintf "%d,%d,0,0,0,0,%s,%s" (int o.o_admitted) (int o.o_gauge) (b01 o.o_stopped) (b01 o.o_listening)

(* implementation observation -> the record the Coq oracles read.  For the full server the number
   of live connections is not visible; the number of simultaneously entered handlers (a lower
   bound of it, and equal to it in the recovery step) takes its place. *)
let parse_obs (t : string) : aobs =
  match String.split_on_char ',' t with
  | [a; g; h; _t; d; _x; s; l] ->
    let h = int_of_string h in
    { o_admitted = (if a = "-" then O else nat (int_of_string a));
      o_gauge = (if g = "-" then nat h else nat (int_of_string g));
      o_handlers = nat h; o_done = nat (int_of_string d);
      o_stopped = (s = "1"); o_listening = (l = "1") }
  | _ -> failwith ("bad obs " ^ t)

let parse_totals (t : string) : nat * nat =
  match String.split_on_char ',' t with
  | [_; _; _; _; d; x; _; _] -> (nat (int_of_string d), nat (int_of_string x))
  | _ -> failwith ("bad obs " ^ t)

let scen_case which full toks impl_line =
  match toks with
  | n :: ctoks ->
    let ni = int_of_string n in
    let n = nat ni in
    let cts = List.map parse_cmd ctoks in
    (* model run: fold of the extracted do_cmd *)
    let (m, obs_rev) = List.fold_left (fun (m, acc) ct ->
        match ct with
        | Cmd c -> let m' = do_cmd true full n m c in (m', pr_obs full n m' :: acc)
        | ErrThenConnect e ->
          let m1 = do_cmd true full n m (KErrors (nat e)) in
          let m' = do_cmd true full n m1 KConnect in (m', pr_obs full n m' :: acc)
        | ErrThenRevoke e ->
          let m1 = do_cmd true full n m (KErrors (nat e)) in
          let m' = do_cmd true full n m1 KRevoke in (m', pr_obs full n m' :: acc)
        | Burst (k, j) ->
          (* j requests arriving in one read: j KRequest commands, one observation *)
          let rec go i m = if i = 0 then m else go (i - 1) (do_cmd true full n m (KRequest (nat k))) in
          let m' = go j m in (m', pr_obs full n m' :: acc))
        (sim_init n, []) cts in
    let (mfin, _) = run_cmds true full n m (recover_cmds n m) in
    let model = Printf.sprintf "%s ; %s ; over=0" (String.concat " " (List.rev obs_rev)) (pr_obs full n mfin) in
    let cmds = List.map (function Cmd c -> c | ErrThenConnect _ -> KConnect | ErrThenRevoke _ -> KRevoke | Burst (k, _) -> KRequest (nat k)) cts in
    let verdict =
      (match split_ws impl_line with
       | "panic" :: _ -> "oracle=fail@panic"
       | "hang" :: _ -> "oracle=fail@hang"
       | itoks ->
         (try
            let rec split acc = function ";" :: r -> (List.rev acc, r) | x :: r -> split (x :: acc) r | [] -> failwith "no ;" in
            let (o, rest) = split [] itoks in
            (match rest with
             | [fin; ";"; over] ->
               let os = List.map parse_obs o and fo = parse_obs fin in
               if which = "c12" then begin
                 if over <> "over=0" then "oracle=fail@over-admit"
                 else if oracle_c12_acc n cmds (os, fo) then "oracle=ok"
                 else if List.exists (fun x -> int x.o_gauge > ni || int x.o_handlers > ni) (fo :: os) then "oracle=fail@over-admit"
                 else "oracle=fail@capacity-not-recovered"
               end else begin
                 if oracle_c13_acc cmds (os, fo) then
                   (if not (oracle_c13_conn cmds (List.map parse_totals o)) then "oracle=fail@connection-not-closed-after-response"
                    (* "a request whose handler is already running still receives its complete response": after every
                       command the clients have read at least the complete responses the model has delivered by then *)
                    else if full && (try List.exists2 (fun i mo ->
                        let done_of t = (match String.split_on_char ',' t with [_; _; _; _; d; _; _; _] -> int_of_string d | _ -> 0) in
                        done_of i < done_of mo) o (List.rev obs_rev) with Invalid_argument _ -> false)
                    then "oracle=fail@complete-response-owed-but-not-delivered"
                    else "oracle=ok") else
                 (* label only: which clause is the first to fail *)
                 let rec label rev adm cs os = match cs, os with
                   | c :: cs', x :: os' ->
                     let rev' = rev || c = KRevoke in
                     if (not rev') && x.o_stopped then "stopped-before-revoke"
                     else if rev' && not x.o_stopped then "no-stop"
                     else if x.o_stopped && x.o_listening then "listener-open-after-stop"
                     else (match adm with
                         | Some a when int x.o_admitted <> a -> "accept-after-stop"
                         | _ -> label rev' (match adm with Some a -> Some a | None -> if x.o_stopped then Some (int x.o_admitted) else None) cs' os')
                   | _ -> "shape" in
                 "oracle=fail@" ^ label false None cmds os
               end
             | _ -> "oracle=unparsable")
          with _ -> "oracle=unparsable")) in
    (model, verdict)
  | [] -> ("?", "oracle=badcase")

let () =
  let cases = read_lines Sys.argv.(1) and impl = read_lines Sys.argv.(2) in
  List.iter2 (fun case impl_line ->
      let (m, v) = match split_ws case with
        | "pool" :: toks -> pool_case toks impl_line
        | "acc" :: toks -> scen_case which false toks impl_line
        | "srv" :: toks -> scen_case which true toks impl_line
        | _ -> ("?", "oracle=badcase") in
      Printf.printf "%s | %s\n" m v) cases impl
