(* drv_c04.ml -- usage: drv_c04 cases.txt impl.txt   (C04, C09 and C10 share it) *)
let bytes_of_string s = List.init (String.length s) (fun i -> n_of_int (Char.code s.[i]))
let string_of_bytes b = String.concat "" (List.map (fun x -> String.make 1 (Char.chr (int_of_n x))) b)
let ints_of_bytes b = List.map int_of_n b

let url_parse (t : n list) : (n list * n list option) option =
  let s = string_of_bytes t in
  match String.index_opt s '?' with
  | None -> Some (t, None)
  | Some i -> Some (bytes_of_string (String.sub s 0 i), Some (bytes_of_string (String.sub s (i+1) (String.length s - i - 1))))

let reason_tbl : (int, n list) Hashtbl.t = Hashtbl.create 1024
let plain = ref []
let reason (c : n) : n list = try Hashtbl.find reason_tbl (int_of_n c) with Not_found -> bytes_of_string "?"
let ct_text (_ : nat) : n list = []

let plain_reader (data : n list) : reader = { r_data = data; r_sched = [] }
(* ---- the scripted handler, mirroring harness/src/bin/c04.rs ---- *)
let view_str (v : bview) : string = match v with
  | BV_Empty -> "E"
  | BV_PendingKnown n -> "K" ^ decimal_of_n n
  | BV_PendingUnknown -> "U"
  | BV_Mem b -> "M" ^ digest_tok_ints (ints_of_bytes b)
  | BV_File b -> "F" ^ digest_tok_ints (ints_of_bytes b)
let view_pending v = match v with BV_PendingKnown _ | BV_PendingUnknown -> true | _ -> false
let view_len v = match v with
  | BV_Empty -> Some 0 | BV_PendingKnown n -> Some (int_of_string (decimal_of_n n)) | BV_PendingUnknown -> None
  | BV_Mem b | BV_File b -> Some (List.length b)
let strip_prefix p s = let l = String.length p in
  if String.length s >= l && String.sub s 0 l = p then Some (String.sub s l (String.length s - l)) else None
let num s = try n_of_decimal s with _ -> N0
(* l > m for a native int l and a decimal string m of any size *)
let nat_gt (l : int) (m : string) : bool =
  let ls = string_of_int l in
  String.length ls > String.length m || (String.length ls = String.length m && ls > m)
let num_int s = try int_of_string s with _ -> 0
let text code body = HNormal (resp_text !plain (n_of_int (code land 0xffff)) (bytes_of_string body))
let scripted_path (path : string) (v : bview) : response hres =
  let vs = view_str v in
  match strip_prefix "/n" path with Some c -> text (num_int c) vs | None ->
  match strip_prefix "/e" path with Some c -> HNormal (resp_new (n_of_int (num_int c land 0xffff))) | None ->
  (match strip_prefix "/gw" path with Some _ -> Some (if view_pending v then HGetBody (n_of_int 1000000) else text 200 vs) | None -> None) |> function Some r -> r | None ->
  match strip_prefix "/gd" path with Some m -> if view_pending v then HGetBody (num m) else HDrop | None ->
  match strip_prefix "/gg" path with Some m -> HGetBody (num m) | None ->
  match strip_prefix "/gv" path with Some m -> if view_pending v then HGetBody (num m) else text 200 vs | None ->
  match strip_prefix "/g5" path with Some m -> if view_pending v then HGetBody (num m) else text 500 vs | None ->
  match strip_prefix "/g" path with Some m -> if view_pending v then HGetBody (num m) else text 200 vs | None ->
  match strip_prefix "/r" path with
  | Some m ->
    let over = (match view_len v with Some l -> nat_gt l (decimal_of_n (num m)) | None -> false) in
    if over then text 413 "Uploaded data is too big."
    else if view_pending v then HGetBody (num m) else text 200 vs
  | None ->
  (* a file body declared as 10 bytes holding k < 10, or missing: the response fails after its head went out *)
  match strip_prefix "/fs" path with
  | Some k -> let k = min (num_int k) 10 in
    let r = resp_new (n_of_int 200) in
    HNormal { r with r_body = BKnown (n_of_int 10, true, plain_reader (List.init k (fun i -> n_of_int (48 + i)))) }
  | None ->
  match strip_prefix "/fl" path with
  | Some k ->
    let r = resp_new (n_of_int 200) in
    HNormal { r with r_body = BKnown (n_of_int 10, true, plain_reader (List.init (10 + num_int k) (fun i -> n_of_int (if i < 10 then 48 + i else 90)))) }
  | None ->
  if path = "/fm" then (let r = resp_new (n_of_int 200) in HNormal { r with r_body = BKnown (n_of_int 10, false, plain_reader []) }) else
  (match strip_prefix "/w" path with Some _ -> Some (text 200 vs) | None -> None) |> function Some r -> r | None ->
  if path = "/d" then HDrop
  else if path = "/p" then text (int_of_n panic_code) (string_of_bytes panic_text)   (* what HttpServerBuilder::spawn turns the panic into: re-read from src/lib.rs on every run and tied to these constants (Tie/ServerTie.v) *)
  else text 404 vs
let scripted (p : rpayload) (v : bview) : response hres = scripted_path (string_of_bytes p.rp_path) v

(* ---- parsing the implementation's observation ---- *)
let field pre toks = List.find_map (fun t ->
    let l = String.length pre in
    if String.length t >= l && String.sub t 0 l = pre then Some (String.sub t l (String.length t - l)) else None) toks

let parse_view (s : string) : [`E | `K of string | `U | `M of string | `F of string | `Bad] =
  if s = "E" then `E else if s = "U" then `U
  else if String.length s > 0 then (match s.[0] with
      | 'K' -> `K (String.sub s 1 (String.length s - 1))
      | 'M' -> `M (String.sub s 1 (String.length s - 1))
      | 'F' -> `F (String.sub s 1 (String.length s - 1))
      | _ -> `Bad) else `Bad

(* all complete responses of a transcript, with what is left over *)
let rec parse_all (w : n list) (acc : (int * string) list) : (int * string) list * n list =
  if w = [] then (List.rev acc, []) else
  match parse_response w with
  | Some (((code, _), body), rest) -> parse_all rest ((int_of_n code, string_of_bytes body) :: acc)
  | None -> (List.rev acc, w)

(* the longest run of script bytes without a CRLFCRLF in it: a 431 (head too long) can only be
   justified when some head does not fit the 8 KiB buffer *)
let max_gap (data : int list) : int =
  let rec go l run best st = match l with
    | [] -> max run best
    | b :: t ->
      let st' = (match st, b with 0, 13 -> 1 | 1, 10 -> 2 | 2, 13 -> 3 | 3, 10 -> 4 | _, 13 -> 1 | _ -> 0) in
      if st' = 4 then go t 0 (max (run + 1) best) 0 else go t (run + 1) best st' in
  go data 0 0 0

let oracle (script : int list) (impl_line : string) : string =
  let faulty = ref false in
  let toks = split_ws impl_line in
  match toks with "panic" :: _ -> "oracle=fail@panic" | _ ->
  match field "log=[" toks, field "wire=" toks, field "files=" toks with
  | Some lg, Some w, Some files ->
    let lg = String.sub lg 0 (String.length lg - 1) in
    let entries = if lg = "" then [] else List.map (fun e ->
        match String.index_opt e ':' with
        | Some i -> (string_of_bytes (bytes_of_tok (String.sub e 0 i)), String.sub e (i+1) (String.length e - i - 1))
        | None -> ("?", "?")) (String.split_on_char ',' lg) in
    (* group the invocations per request: [v] or [pending view; file view] *)
    let rec groups es = match es with
      | [] -> Some []
      | (p1, v1) :: (p2, v2) :: rest when p1 = p2 && (match parse_view v1, parse_view v2 with (`K _ | `U), `F _ -> true | _ -> false) ->
        Option.map (fun g -> (p1, [v1; v2]) :: g) (groups rest)
      | (p1, v1) :: rest -> Option.map (fun g -> (p1, [v1]) :: g) (groups rest) in
    (match groups entries with
     | None -> "oracle=fail@log-shape"
     | Some gs ->
       (* the handler is a function of (path, view): recompute what each run answered *)
       let view_of_string s : bview option = (match parse_view s with
           | `E -> Some BV_Empty | `U -> Some BV_PendingUnknown | `K n -> Some (BV_PendingKnown (n_of_decimal n))
           | _ -> None) in
       let faulty_path path = (match strip_prefix "/fs" path with Some k -> num_int k < 10 | None -> path = "/fm") in
       let answer path vstr : [`Normal of int * string | `Drop | `Get | `Unknown | `Faulty] =
         if faulty_path path then `Faulty else
         (match view_of_string vstr with
          | Some v -> (match scripted_path path v with
              | HNormal r -> `Normal (int_of_n r.r_code, (match r.r_body with
                  | BKnown (n, _, src) -> string_of_bytes (List.filteri (fun i _ -> i < int_of_n n) src.r_data) | _ -> "?"))
              | HDrop -> `Drop | HGetBody _ -> `Get)
          | None ->
            (* memory / file views: the answer echoes the view string, the code is path-determined *)
            let fake = BV_Mem [] in
            (match scripted_path path fake with
             | HNormal r ->
               let code = int_of_n r.r_code in
               let body = (match r.r_body with
                   | BKnown (n, _, src) -> string_of_bytes (List.filteri (fun i _ -> i < int_of_n n) src.r_data) | _ -> "?") in
               (* /r<M>: decide over-limit from the length in the view string *)
               (match strip_prefix "/r" path with
                | Some m ->
                  let len = (try int_of_string (List.hd (String.split_on_char ':' (String.sub vstr 1 (String.length vstr - 1)))) with _ -> 0) in
                  if nat_gt len (decimal_of_n (num m)) then `Normal (413, "Uploaded data is too big.") else `Normal (200, vstr)
                | None ->
                  (* bodies that echo the view: replace the fake view's rendering by the real one *)
                  if body = view_str fake then `Normal (code, vstr) else `Normal (code, body))
             | HDrop -> `Drop | HGetBody _ -> `Get)) in
       (* expected final responses, in order, until the first closing event *)
       let rec expect gs (acc : (int * string) list) : ((int * string) list * bool * string option) =
         (* returns (expected responses, closed?, shape error) *)
         match gs with
         | [] -> (List.rev acc, false, None)
         | (path, vs) :: rest ->
           let first = answer path (List.hd vs) in
           (match vs, first with
            | [_; v2], `Get ->
              (match answer path v2 with
               | `Normal (c, b) -> if c / 100 = 4 || c / 100 = 5 then (List.rev ((c, b) :: acc), true, if rest = [] then None else Some "runs-after-closing-response")
                 else expect rest ((c, b) :: acc)
               | `Drop -> (List.rev acc, true, if rest = [] then None else Some "runs-after-drop")
               | `Get -> (List.rev acc, true, if rest = [] then None else Some "runs-after-already-got-body")
               | `Unknown -> (List.rev acc, true, Some "unknown-answer"))
            | [_; _], _ -> (List.rev acc, true, Some "second-run-without-get-body")
            | [_], `Faulty -> faulty := true; (List.rev acc, true, if rest = [] then None else Some "runs-after-failed-response")
            | [_], `Normal (c, b) ->
              let pending = (match parse_view (List.hd vs) with `K _ | `U -> true | _ -> false) in
              if c / 100 = 4 || c / 100 = 5 then (List.rev ((c, b) :: acc), true, if rest = [] then None else Some "runs-after-closing-response")
              else if pending then (List.rev ((c, b) :: acc), true, if rest = [] then None else Some "runs-after-unread-body")
              else expect rest ((c, b) :: acc)
            | [_], `Drop -> (List.rev acc, true, if rest = [] then None else Some "runs-after-drop")
            | [_], `Get -> (List.rev acc, true, if rest = [] then None else Some "runs-after-failed-body-fetch")
            | _ -> (List.rev acc, true, Some "log-shape")) in
       let (expected, _closed, shape_err) = expect gs [] in
       let count_status (w : n list) : int =
         let s = string_of_bytes w and pat = "HTTP/1.1 " in
         let n = String.length s and m = String.length pat in
         let rec go i acc = if i + m > n then acc else go (i + 1) (if String.sub s i m = pat then acc + 1 else acc) in
         go 0 0 in
       (match shape_err with Some e -> "oracle=fail@" ^ e | None ->
        if String.length w > 0 && w.[0] <> 'x' then "oracle=ok"   (* digest only: compared by correspondence *)
        else begin
          let (resps, rest) = parse_all (bytes_of_tok w) [] in
          let reset = List.mem "reset=1" toks in
          let rec prefix_of a b = (match a, b with [], _ -> true | x :: a', y :: b' -> x = y && prefix_of a' b' | _ -> false) in
          if reset && prefix_of (List.filter (fun (c, _) -> c / 100 <> 1) resps) expected && files = "0" then
            (* the server closed with unread request bytes in its receive queue, the kernel answered RST and the
               client lost the tail of what it was sent: what it did receive is a prefix of the answers *)
            "oracle=ok"
          else
          if !faulty then begin
            (* the last answer is a response whose body source fails after the head went out: the client sees the
               earlier answers in full, then ONE partial response (its status line, never a second one), then EOF *)
            let finals = List.filter (fun (c, _) -> c / 100 <> 1) resps in
            if finals <> expected then "oracle=fail@responses-differ-from-handler-answers"
            else if rest = [] then "oracle=fail@failed-response-looks-complete"
            else if count_status rest <> 1 then "oracle=fail@second-status-line-after-a-partial-response"
            else if files <> "0" then "oracle=fail@temp-file-left" else "oracle=ok"
          end else
          if rest <> [] then "oracle=fail@transcript-not-well-formed"
          else begin
            let finals = List.filter (fun (c, _) -> c / 100 <> 1) resps in
            (* the handler's answers must be a prefix of the final responses, in order; what may
               follow is at most one server-generated error response, and it closes *)
            let rec is_prefix a b = match a, b with
              | [], r -> Some r
              | x :: a', y :: b' when x = y -> is_prefix a' b'
              | _ -> None in
            (match is_prefix expected finals with
             | None -> "oracle=fail@responses-differ-from-handler-answers"
             | Some [] -> if files = "0" then "oracle=ok" else "oracle=fail@temp-file-left"
             | Some [(431, _)] when max_gap script <= 8192 -> "oracle=fail@431-for-a-head-that-fits"
             | Some [(c, _)] when List.mem c [400; 413; 431; 500; 505] -> if files = "0" then "oracle=ok" else "oracle=fail@temp-file-left"
             | Some _ -> "oracle=fail@extra-responses")
          end
        end))
  | _ -> "oracle=fail@unparsable"


(* ---- C09: the size-limit clauses, decided from the implementation's observation and the case
   parameters: S = small_body_len, M = handler limit, L = body length actually sent ---- *)
let dec_le (a : string) (b : string) : bool =   (* a <= b on decimal naturals of any size *)
  String.length a < String.length b || (String.length a = String.length b && a <= b)
let oracle_c09 (s : string) (m : string) (l : int) (declared : bool) (kind : string) (cache : string)
    (body_digest : string) (impl_line : string) : string =
  let toks = split_ws impl_line in
  match field "log=[" toks, field "wire=" toks with
  | Some lg, Some w when String.length w > 0 && w.[0] = 'x' ->
    let lg = String.sub lg 0 (String.length lg - 1) in
    let views = if lg = "" then [] else List.map (fun e ->
        match String.index_opt e ':' with Some i -> String.sub e (i+1) (String.length e - i - 1) | None -> "?") (String.split_on_char ',' lg) in
    let (resps, _) = parse_all (bytes_of_tok w) [] in
    let finals = List.filter (fun (c, _) -> c / 100 <> 1) resps in
    let code = (match finals with (c, _) :: _ -> c | [] -> 0) in
    let ls = string_of_int l in
    let in_memory = declared && dec_le ls s in
    let fits = dec_le ls m in
    let expect_views, expect_code =
      if in_memory then
        ([ "M" ^ body_digest ], (if kind = "r" && not fits then 413 else 200))
      else begin
        let first = if declared then "K" ^ ls else "U" in
        if kind = "r" && declared && not fits then ([first], 413)          (* refused by the handler itself: one run *)
        else if cache = "-" then ([first], 500)                            (* CacheDirNotConfigured *)
        else if declared && not fits then ([first], 413)                   (* refused before the directory is touched *)
        else if cache = "missing" then ([first], 500)                      (* ErrorSavingFile *)
        else if fits then ([first; "F" ^ body_digest], 200)
        else ([first], 413)                                                 (* refused by the server: no second run *)
      end in
    if l = 0 && declared then "oracle=ok"   (* Content-Length: 0 is an empty body, not a pending one *)
    else if views <> expect_views then "oracle=fail@c09-handler-views"
    else if code <> expect_code then "oracle=fail@c09-status"
    else "oracle=ok"
  | _ -> "oracle=ok"

let rec repeat_nat k x = if k = 0 then [] else x :: repeat_nat (k-1) x

let () =
  let cases = read_lines Sys.argv.(1) and impl = read_lines Sys.argv.(2) in
  List.iter2 (fun case impl_line ->
    match split_ws case with
    | ["tables"] ->
      let ok = ref true in
      List.iter (fun t ->
          match String.index_opt t '=' with
          | Some i ->
            let k = String.sub t 0 i and v = bytes_of_tok (String.sub t (i+1) (String.length t - i - 1)) in
            if k = "plain" then plain := v
            else if k.[0] = 'r' then begin
              Hashtbl.replace reason_tbl (int_of_string (String.sub k 1 (String.length k - 1))) v;
              if not (reason_text_ok v) then ok := false end
          | None -> ()) (split_ws impl_line);
      Printf.printf "%s | %s\n" impl_line (if !ok then "oracle=ok" else "oracle=fail@reason-phrase-not-printable")
    | mode :: rest when mode = "D" || mode = "S" || mode = "I" || mode = "X" || mode = "B" || mode = "E" || mode = "K" || mode = "N" || mode = "R" || mode = "T" || mode = "V" ->
      let (rest, ann) = (let rec cut acc = function
          | "@c09" :: a -> (List.rev acc, Some a) | x :: r -> cut (x :: acc) r | [] -> (List.rev acc, None) in cut [] rest) in
      let (small, cache, script) = (match mode, rest with
          | "D", [s; c; sc] -> (s, c, sc)
          | ("S" | "I" | "R" | "T" | "V"), [s; c; _; _; sc] -> (s, c, sc)
          (* B: the same exchange while another request keeps the one-thread blocking pool busy *)
          | ("B" | "E" | "K" | "N"), [s; c; _slow; sc] -> (s, c, sc)
          (* X: a disk write fault while the upload (longer than the file-size limit) is saved: the same
             ErrorSavingFile path as a cache directory that cannot be written *)
          | "X", [s; _; _limit; sc] -> (s, "missing", sc)
          | _ -> failwith "bad case") in
      let data = List.map n_of_int (expand_bytes_ints script) in
      let cache_dir = (match cache with "-" -> None | "ok" -> Some true | _ -> Some false) in
      let big = nat_of_int 8192 in
      let i0 = { ci_buf = []; ci_in = { in_bytes = data; in_sched = repeat_nat 64 big; in_err = false } } in
      let out = handle_conn_inst url_parse reason ct_text !plain true true scripted (n_of_decimal small) cache_dir
          (fun _ -> false) (nat_of_int (List.length data + 2)) i0 in
      let log = String.concat "," (List.map (fun iv ->
          tok_of_bytes iv.iv_req.rp_path ^ ":" ^ view_str iv.iv_body) out.lo_log) in
      let wire = ints_of_bytes out.lo_conn.c_wire in
      let wstr = if List.length wire <= 131072 then "x" ^ String.concat "" (List.map (Printf.sprintf "%02x") wire)
        else Printf.sprintf "%d:h%016Lx" (List.length wire) (fnv64_ints wire) in
      Printf.printf "log=[%s] wire=%s files=0%s%s | %s\n" log wstr
        (if mode = "I" then " idle=0" else if mode = "B" || mode = "E" || mode = "K" || mode = "N" || mode = "R" || mode = "V" then " busy=0" else "")
        (if out.lo_out_of_fuel then " OUT-OF-FUEL" else "")
        (let v = oracle (List.map int_of_n data) impl_line in
         (* mode I: no temp file may exist once every request sent so far has been answered, although the
            connection is still open and idle *)
         (* mode X (disk write fault while the upload is saved): whatever the handler is given as a file must be,
            byte for byte, the body the client sent -- never a shortened one *)
         let v = if mode = "X" && v = "oracle=ok" then begin
             let parts = String.split_on_char '+' script in
             let body = (match List.find_opt (fun p -> String.length p > 0 && p.[0] = 'g') parts with
                 | Some p -> expand_bytes_ints p | None -> []) in
             let want = "F" ^ digest_tok_ints body in
             let lg = (match field "log=[" (split_ws impl_line) with Some l -> String.sub l 0 (String.length l - 1) | None -> "") in
             let views = List.filter_map (fun e -> match String.index_opt e ':' with
                 | Some i -> Some (String.sub e (i + 1) (String.length e - i - 1)) | None -> None)
                 (if lg = "" then [] else String.split_on_char ',' lg) in
             if List.exists (fun v -> String.length v > 0 && v.[0] = 'F' && v <> want) views
             then "oracle=fail@handler-got-a-damaged-body-after-a-write-fault" else v
           end else v in
         (* a server-made 400 that ends the transcript must be justified: where the model (same bytes, same handler)
            answers with something else, the request was well-formed *)
         let v = if v = "oracle=ok" && List.length wire <= 131072 then begin
             let statuses (w : int list) : int list =
               let str = String.init (List.length w) (let a = Array.of_list w in fun i -> Char.chr (a.(i) land 255)) in
               let n = String.length str in
               let rec go i acc =
                 if i + 12 > n then List.rev acc
                 else if String.sub str i 9 = "HTTP/1.1 " && (i = 0 || str.[i-1] = '\n' || true) then
                   (match int_of_string_opt (String.sub str (i + 9) 3) with
                    | Some c -> go (i + 12) (c :: acc)
                    | None -> go (i + 1) acc)
                 else go (i + 1) acc in
               go 0 [] in
             let iw = (match field "wire=x" (split_ws impl_line) with
                 | Some h -> List.init (String.length h / 2) (fun i -> int_of_string ("0x" ^ String.sub h (2 * i) 2))
                 | None -> []) in
             let si = statuses iw and sm = statuses wire in
             let rec last = function [x] -> Some x | _ :: r -> last r | [] -> None in
             if iw <> [] && last si = Some 400 && List.length si <= List.length sm
                && List.nth sm (List.length si - 1) <> 400
                && (let rec pre a b = match a, b with [_], _ -> true | x :: a', y :: b' -> x = y && pre a' b' | _ -> false in pre si sm)
             then "oracle=fail@400-for-a-request-the-model-serves" else v
           end else v in
         let v = if mode = "I" && v = "oracle=ok" && field "idle=" (split_ws impl_line) <> Some "0"
           then "oracle=fail@temp-file-alive-after-its-request-was-answered" else v in
         (* mode B: the upload was abandoned (its connection has ended) while the blocking pool was busy: its temp
            file must be gone then, not when the pool gets round to it *)
         let v = if (mode = "B" || mode = "E" || mode = "K" || mode = "N" || mode = "R" || mode = "V") && v = "oracle=ok" && field "busy=" (split_ws impl_line) <> Some "0"
           then "oracle=fail@temp-file-alive-after-its-request-was-abandoned" else v in
         match ann, v with
         | Some [s; m; l; decl; kind; bodytok], "oracle=ok" ->
           oracle_c09 s m (int_of_string l) (decl = "1") kind cache (digest_tok_ints (expand_bytes_ints bodytok)) impl_line
         | _ -> v)
    | _ -> Printf.printf "? | oracle=badcase\n") cases impl
