(* drv_c20.ml -- usage: drv_c20 cases.txt impl.txt *)
let kinds = [| "NotFound"; "PermissionDenied"; "InvalidData"; "UnexpectedEof"; "Other"; "ConnectionRefused"; "ConnectionReset"; "ConnectionAborted"; "NotConnected"; "AddrInUse"; "AddrNotAvailable"; "BrokenPipe"; "AlreadyExists"; "WouldBlock"; "InvalidInput"; "TimedOut"; "WriteZero"; "Interrupted"; "Unsupported"; "OutOfMemory"; "StorageFull"; "QuotaExceeded"; "FileTooLarge"; "ReadOnlyFilesystem"; "DirectoryNotEmpty"; "IsADirectory"; "NotADirectory"; "ResourceBusy"; "Deadlock"; "TooManyLinks"; "InvalidFilename"; "ArgumentListTooLong"; "HostUnreachable"; "NetworkUnreachable"; "NetworkDown"; "NotSeekable"; "StaleNetworkFileHandle"; "CrossesDevices"; "ExecutableFileBusy" |]
let bytes_of_string s = List.init (String.length s) (fun i -> n_of_int (Char.code s.[i]))
let b01 b = if b then "1" else "0"
let () =
  let cases = read_lines Sys.argv.(1) and impl = read_lines Sys.argv.(2) in
  List.iter2 (fun case impl_line ->
    let it = split_ws impl_line in
    match split_ws case with
    | "ctor" :: n :: _ ->
      let name = bytes_of_tok n in
      let m = (match List.find_opt (fun (a, _) -> a = name) ctor_table with
          | Some (_, c) -> "K " ^ string_of_int (int_of_n c) ^ " 1" | None -> "unknown") in
      let v = (match it with
          | ["K"; c; nrm] -> if oracle_ctor name (n_of_int (int_of_string c)) (nrm = "1") then "oracle=ok" else "oracle=fail@ctor-code"
          | _ -> "oracle=fail@ctor-missing") in
      Printf.printf "%s | %s\n" m v
    | ["err"; n; k; p] ->
      let name = bytes_of_tok n and tx = bytes_of_tok p in
      let kd = bytes_of_string kinds.(int_of_string k) in
      let m = (match lookup_err err_table name with
          | None -> "unknown"
          | Some e ->
            let kd' = if e.e_payload then kd else [] and tx' = if e.e_payload then tx else [] in
            (match respond e kd' tx' with
             | None -> "D"
             | Some (c, body) -> "T " ^ string_of_int (int_of_n c) ^ " " ^ tok_of_bytes body)
            ^ " S" ^ b01 e.e_server ^ " " ^ tok_of_bytes (describe e kd' tx')) in
      let v = (match lookup_class spec_classes name with
          | None -> "oracle=fail@unclassified-variant"
          | Some cls ->
            let obs = (match it with
                | "D" :: _ -> Some None
                | "T" :: c :: body :: _ -> Some (Some (n_of_int (int_of_string c), bytes_of_tok body))
                | _ -> None) in
            (match obs with
             | None -> "oracle=fail@unparsable"
             | Some o -> if oracle_err cls name kd tx o then "oracle=ok" else "oracle=fail@error-mapping")) in
      Printf.printf "%s | %s\n" m v
    | ["reqconn"; n; _bytes] ->
      (* the connection loop answers a request-reading error with the mapped response: its status, and -- the
         property's last clause -- a 5xx among them is marked `connection: close` and the connection is closed *)
      let name = bytes_of_tok n in
      let (m, v) = (match lookup_err err_table name with
          | None -> ("unknown", "oracle=fail@unknown-variant")
          | Some e ->
            (match respond e [] [] with
             | None -> ("none 0 1", (match it with ["none"; _; "1"] -> "oracle=ok" | _ -> "oracle=fail@drop-expected"))
             | Some (c, _) ->
               let cl = in_close_range close_lo close_hi c in
               (string_of_int (int_of_n c) ^ " " ^ b01 cl ^ " 1",
                (match it with
                 | [st; hc; sh] ->
                   let code = (try int_of_string st with _ -> 0) in
                   if code <> int_of_n c then "oracle=fail@error-mapping"
                   else if not (oracle_close (n_of_int code) (hc = "1") (sh = "1")) then "oracle=fail@5xx-not-closed"
                   else if sh <> "1" then "oracle=fail@connection-left-open-after-an-error" else "oracle=ok"
                 | _ -> "oracle=fail@unparsable")))) in
      Printf.printf "%s | %s\n" m v
    | "conn" :: c :: _ ->   (* further tokens: handler-supplied header fields; the close rule does not depend on them *)
      let code = n_of_int (int_of_string c) in
      let cl = in_close_range close_lo close_hi code in
      let m = c ^ " " ^ b01 cl ^ " " ^ b01 cl in
      let v = (match it with
          | [_; hc; sh] -> if oracle_close code (hc = "1") (sh = "1") then "oracle=ok" else "oracle=fail@5xx-not-closed"
          | _ -> "oracle=fail@unparsable") in
      Printf.printf "%s | %s\n" m v
    | _ -> Printf.printf "? | oracle=badcase\n") cases impl
