(* drv_c17.ml -- C17 driver.  usage: drv_c17 cases.txt impl.txt > model.txt
   Parsing and printing only: the model line ([write_jsonl], [utf8_encode]), the hypothesis check
   ([float_text_ok]) and the oracle ([oracle_c17_utf8]) are the extracted Coq terms. *)
let z_of_decimal (s : string) : z =
  if String.length s > 0 && s.[0] = '-'
  then z_of_sign_mag true (n_of_decimal (String.sub s 1 (String.length s - 1)))
  else z_of_sign_mag false (n_of_decimal s)

let level_of_tok = function "error" -> LError | "info" -> LInfo | "debug" -> LDebug | l -> failwith ("level " ^ l)

(* value token -> tag_value; float values take their Display text from the implementation's
   observation (queue [floats]) *)
let rec value_of (t : string) (floats : n list Queue.t) : tag_value =
  let ty, arg = match String.index_opt t ':' with
    | Some i -> String.sub t 0 i, String.sub t (i + 1) (String.length t - i - 1)
    | None -> t, "" in
  match ty with
  | "s" | "ss" -> VStr (scalars_of_tok arg)
  | "b" -> VBool (arg = "1")
  | "none" | "null" -> VNull
  | "i8" | "i16" | "i32" | "i64" | "i128" | "u8" | "u16" | "u32" | "u64" | "u128" | "usize" -> VInt (z_of_decimal arg)
  | "f64" | "f32" -> VFloat (Queue.pop floats)
  | "some" -> value_of arg floats
  | _ -> failwith ("bad value " ^ t)

let rec parse_tags k toks floats =
  if k = 0 then [] else
  match toks with
  | name :: v :: rest -> let tg = (scalars_of_tok name, value_of v floats) in tg :: parse_tags (k - 1) rest floats
  | _ -> failwith "short tag list"

(* model line for the event, instantiated with the time / time_ns of the implementation's line *)
let model_line lvl tags (impl_bytes : n list) : string =
  match utf8_decode impl_bytes with
  | None -> "x"   (* not UTF-8: nothing to instantiate with; the oracle fails anyway *)
  | Some line -> tok_of_bytes (utf8_encode (write_jsonl (line_time line) (line_time_ns line) lvl tags))

(* handler result tokens (see harness/src/logshared.rs) *)
let parse_response toks = match toks with
  | code :: blen :: id :: rest ->
    ({ r_code = n_of_decimal code; r_body_len = (if blen = "-" then None else Some (n_of_decimal blen));
       r_id = n_of_decimal id }, rest)
  | _ -> failwith "short response"
let rec split_tags k toks = if k = 0 then ([], toks) else
    match toks with a :: b :: rest -> let (l, r) = split_tags (k - 1) rest in (a :: b :: l, r) | _ -> failwith "short tags"
let bt_text = List.map n_of_int [60; 100; 105; 115; 97; 98; 108; 101; 100; 62]   (* <disabled> *)
let parse_hr toks floats = match toks with
  | "ok" :: rest -> let (r, rest') = parse_response rest in (HOk r, rest')
  | "err" :: msg :: bt :: k :: rest ->
    let k = int_of_string k in
    let (ttoks, rest1) = split_tags k rest in
    let etags = parse_tags k ttoks floats in
    let msg = if msg = "-" then None else Some (scalars_of_tok msg) in
    let bt = if bt = "1" then Some bt_text else None in
    (match rest1 with
     | "none" :: rest2 -> (HErr (msg, bt, etags, None), rest2)
     | "some" :: rest2 -> let (r, rest3) = parse_response rest2 in (HErr (msg, bt, etags, Some r), rest3)
     | _ -> failwith "bad err tail")
  | _ -> failwith "bad handler result"
let show_response r =
  Printf.sprintf "R %s %s %s" (decimal_of_n r.r_code)
    (match r.r_body_len with None -> "-" | Some n -> decimal_of_n n) (decimal_of_n r.r_id)

let take_n k toks = let rec go k acc toks = if k = 0 then (List.rev acc, toks) else
    match toks with t :: r -> go (k-1) (t :: acc) r | [] -> failwith "short" in go k [] toks

let () =
  let cases = read_lines Sys.argv.(1) and impl = read_lines Sys.argv.(2) in
  List.iter2 (fun case impl_line ->
    try
      (* evt <secs> <nanos> <level> ...: judged like ev (the time is read back from the line) *)
      let ctoks = (match split_ws case with "evt" :: _ :: _ :: rest -> "ev" :: rest | t -> t) in
      match ctoks with
      | ("ev" | "file") :: lvl :: k :: toks ->
        (* file: the line as the file log writer wrote it.  Long lines (the full RFC 8259 oracle is quadratic in the
           extracted model) are compared with the model's line, which c17_jsonl_roundtrip proves valid *)
        let lvl = level_of_tok lvl and k = int_of_string k in
        (match split_ws impl_line with
         | "panic" :: _ -> Printf.printf "nopanic | oracle=fail@panic\n"
         | t :: _ when String.length t > 18 && String.sub t 0 18 = "time_ns-member-is-" ->
           Printf.printf "time-ns-ok | oracle=fail@%s\n" t
         | "start-event-has-no-line-of-its-own" :: _ ->
           Printf.printf "start-ok | oracle=fail@the-writers-start-event-shares-a-physical-line-with-a-leftover-cut-line\n"
         | f :: rest when String.length f > 0 && f.[0] = 'F' ->
           let m = int_of_string (String.sub f 1 (String.length f - 1)) in
           let (ftoks, rest') = take_n m rest in
           (match rest' with
            | ["L"; linetok] ->
              let floats = Queue.create () in
              List.iter (fun t -> Queue.add (bytes_of_tok t) floats) ftoks;
              let tags = parse_tags k toks floats in
              let impl_bytes = bytes_of_tok linetok in
              let hyp = List.for_all (fun t -> float_text_ok (bytes_of_tok t)) ftoks in
              let verdict =
                if not hyp then "oracle=fail@hypothesis-float_text_grammar"
                else if not (tags_wf tags) then "oracle=fail@case-not-wf"
                else if List.length impl_bytes > 20000 then
                  (if tok_of_bytes impl_bytes = model_line lvl tags impl_bytes
                   then "oracle=ok" else "oracle=fail@long-line-differs-from-the-serialisation")
                else if oracle_c17_utf8 lvl tags impl_bytes then "oracle=ok" else "oracle=fail@line" in
              Printf.printf "F%d%s L %s | %s\n" m (String.concat "" (List.map (fun t -> " " ^ t) ftoks))
                (model_line lvl tags impl_bytes) verdict
            | _ -> Printf.printf "? | oracle=unparsable\n")
         | _ -> Printf.printf "? | oracle=unparsable\n")
      | "resp" :: toks ->
        (match split_ws impl_line with
         | "panic" :: _ -> Printf.printf "nopanic | oracle=fail@panic\n"
         | itoks ->
           (* <R code len id | S> F<m> texts { L line } *)
           let (ret_toks, rest) = (match itoks with
               | "R" :: a :: b :: c :: rest -> (["R"; a; b; c], rest)
               | "S" :: rest -> (["S"], rest)
               | _ -> failwith "bad resp obs") in
           (match rest with
            | f :: rest1 when String.length f > 0 && f.[0] = 'F' ->
              let m = int_of_string (String.sub f 1 (String.length f - 1)) in
              let (ftoks, rest2) = take_n m rest1 in
              let floats = Queue.create () in
              List.iter (fun t -> Queue.add (bytes_of_tok t) floats) ftoks;
              let (hr, _) = parse_hr toks floats in
              let tags = sort_tags (response_call_tags hr) and lvl = level_of hr in
              let rec lines = function "L" :: l :: r -> l :: lines r | [] -> [] | _ -> failwith "bad lines" in
              let ls = lines rest2 in
              let hyp = List.for_all (fun t -> float_text_ok (bytes_of_tok t)) ftoks in
              let ret_ok = String.concat " " ret_toks = show_response (response_of hr) in
              let verdict =
                if not hyp then "oracle=fail@hypothesis-float_text_grammar"
                else if not (tags_wf tags) then "oracle=fail@case-not-wf"
                else if not ret_ok then "oracle=fail@returned-response"
                else (match ls with
                    | [l] -> if oracle_c17_utf8 lvl tags (bytes_of_tok l) then "oracle=ok" else "oracle=fail@line"
                    | _ -> "oracle=fail@not-exactly-one-event") in
              let ml = (match ls with l :: _ -> model_line lvl tags (bytes_of_tok l) | [] -> "x") in
              Printf.printf "%s F%d%s L %s | %s\n" (show_response (response_of hr)) m
                (String.concat "" (List.map (fun t -> " " ^ t) ftoks)) ml verdict
            | _ -> Printf.printf "? | oracle=unparsable\n"))
      | ["chars"; lo; n] ->
        let lo = int_of_string lo and n = int_of_string n in
        (match split_ws impl_line with
         | "panic" :: _ -> Printf.printf "nopanic | oracle=fail@panic\n"
         | c :: ltoks when String.length c > 0 && c.[0] = 'C' ->
           let scalars = List.filter (fun c -> c < 0xD800 || c > 0xDFFF) (List.init n (fun i -> lo + i)) in
           if List.length scalars <> List.length ltoks then Printf.printf "? | oracle=shape\n" else begin
             let buf = Buffer.create 1024 in
             Buffer.add_string buf (Printf.sprintf "C%d" (List.length scalars));
             let bad = ref None in
             List.iter2 (fun c lt ->
                 let tags = [([n_of_int 99], VStr [n_of_int c])] in
                 let impl_bytes = bytes_of_tok lt in
                 Buffer.add_char buf ' ';
                 Buffer.add_string buf (model_line LInfo tags impl_bytes);
                 if !bad = None && not (oracle_c17_utf8 LInfo tags impl_bytes) then bad := Some c) scalars ltoks;
             Printf.printf "%s | %s\n" (Buffer.contents buf)
               (match !bad with None -> "oracle=ok" | Some c -> Printf.sprintf "oracle=fail@line-U+%04X" c)
           end
         | _ -> Printf.printf "? | oracle=unparsable\n")
      | _ -> Printf.printf "? | oracle=badcase\n"
    with e -> Printf.printf "? | oracle=driver-exception-%s\n" (String.map (fun c -> if c = ' ' || c = '|' then '_' else c) (Printexc.to_string e))
  ) cases impl
