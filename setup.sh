#!/bin/sh
# Build the framework from files on disk only (offline): Coq development, extracted drivers, Rust harness.
set -e
cd "$(dirname "$0")"
export CARGO_NET_OFFLINE=true
python3 - <<'PY'
import os, sys, json
sys.path.insert(0, os.getcwd())
import vlib
vlib.ensure_makefile()
rc, out = vlib.sh(["make", "-j16"], cwd=vlib.COQ, timeout=7200)
print(out[-3000:])
if rc != 0:
    sys.exit("coq build failed")
man = json.load(open("MANIFEST.json"))
bad = 0
for c in man["checks"]:
    pid = c["property_id"]
    try:
        vlib.build_driver(pid)
        sys.path.insert(0, "props")
        mod = __import__(pid.lower())
        for prof in getattr(mod, "PROFILES", ["release"]):
            vlib.build_harness(getattr(mod, "HARNESS_BIN", pid.lower()), prof)
        print("built", pid)
    except Exception as e:
        print("SETUP PROBLEM", pid, e)
        bad += 1
sys.exit(1 if bad else 0)
PY
