#!/bin/sh
# Build the framework from files on disk only (offline): Coq development, extracted drivers, Rust harness.
set -e
cd "$(dirname "$0")"
export CARGO_NET_OFFLINE=true
python3 - <<'PY'
import os, sys, json
sys.path.insert(0, os.getcwd())
import vlib
sys.path.insert(0, "props")
for f in sorted(os.listdir("props")):
    if f.endswith(".py"):
        m = __import__(f[:-3])
        if hasattr(m, "pre_proof"):
            m.pre_proof()
vlib.ensure_makefile()
man = json.load(open("MANIFEST.json"))
targets = ["theories/Properties/%s.vo" % c["property_id"] for c in man["checks"]]
rc, out = vlib.sh(["make", "-k", "-j16"] + targets, cwd=vlib.COQ, timeout=7200)
print(out[-3000:])
bad = 0
if rc != 0:
    print("SETUP PROBLEM: coq build failed for some target")
    bad += 1
for c in man["checks"]:
    pid = c["property_id"]
    try:
        sys.path.insert(0, "props")
        mod = __import__(pid.lower())
        vlib.build_driver(getattr(mod, "DRIVER_PID", pid))
        for prof in getattr(mod, "PROFILES", ["release"]):
            vlib.build_harness(getattr(mod, "HARNESS_BIN", pid.lower()), prof)
        print("built", pid)
    except Exception as e:
        print("SETUP PROBLEM", pid, e)
        bad += 1
sys.exit(1 if bad else 0)
PY
