#!/usr/bin/env python3
"""Regenerates MANIFEST.json from the per-property descriptions below (single source of truth)."""
import json, os
ROOT = os.path.dirname(os.path.abspath(__file__))
LEVEL_NOTE = ("Trusted: Coq 8.16.1 kernel (vm_compute inside proofs, no native_compute); no axioms (Print Assumptions of every property theorem "
 "audited each run: 'Closed under the global context'); extraction via ExtrOcamlBasic only + OCaml 4.13.1; hand-written OCaml/Rust/Python glue "
 "(parsing, printing, driving the API); the hand-written model is tied to the code by a differential correspondence run on every check "
 "(sampled unless evidence says exhaustive). Modelled not verified: external crates, Rust std, OS.")
CHECKS = {
 "C01": dict(text="Coq theorems over the transcribed head parser and read loop (src/head.rs, head phase of read_http_request): for every url parser, buffer capacity, buffer state, stream, read schedule and EOF/error ending, with fuel >= cap+2 the outcome is a request or one of the documented errors -- never Panic, never OutOfFuel; the outcome equals a schedule-free function of the bytes (split independence); exactly head_len+4 bytes are consumed; pipelined heads after buf.shift() fit; error -> status table; pre-fix D1 panic refuted. Tied to the code by driving Head::try_read / read_http_head / read_http_request with scripted in-memory readers.",
   technique="Rocq/Coq proof (fuelled loop = schedule-free spec, induction on fuel; no-panic by case analysis) + extracted-model differential correspondence", ref="DESIGN.md section 6 C01"),
 "C02": dict(text="Coq theorems: render/parse round trip for all token methods, canonical targets (url crate as a Section variable with the url_canonical hypothesis, exercised on every canonical target met) and field lists; accepted heads are in the grammar (never repaired beyond the enumerated line-end leniencies); every rejection is justified by a violated rule; recognisers equal the declarative reading of the two regex patterns (literal text pinned against the source each run); pre-fix D2 refuted. Tied to the code by Head::try_read on generated and mutated heads.",
   technique="Rocq/Coq proof (parser/renderer round trip and grammar soundness by induction over field lists) + extracted-model differential correspondence with the url crate's answers logged per case", ref="DESIGN.md section 6 C02"),
 "C04": dict(text="Coq theorems about the model of handle_http_conn_once / handle_http_conn (parametric in request reader, response writer and handler): the handler runs once per request or exactly twice after 'fetch the body'; what is written is the handler's answer, drop writes nothing, 4xx/5xx (incl. the 500 a panic becomes) closes; after any closing event nothing more is read or run; the loop terminates; small bodies reach the handler byte-exact; pre-fix D5 refuted. Tied to the code by driving the real handle_http_conn over loop-back and a full HttpServerBuilder server with a scripted handler; an independent oracle (handler mirror + strict response parser) is evaluated on the implementation's transcript.",
   technique="Rocq/Coq proof (case analysis of one iteration, induction over loop fuel) + extracted-model differential correspondence on real connections", ref="DESIGN.md section 6 C04"),
 "C09": dict(text="Coq theorems for all L, S, M as unbounded naturals with explicit 2^64 side conditions: declared L<=S is handed over in memory without asking, byte-exact; larger/undeclared bodies are asked first; accepted iff L<=M (known: refused before anything is read; unknown: exactly at the boundary; M=2^64-1 does not overflow -- repair of D7, pre-fix refuted); single run on 413 (repair of D5); bytes in memory <= S, bytes handed over on disk <= M. Tied to the code by the quantifier's grid through the real handle_http_conn, debug and release builds.",
   technique="Rocq/Coq proof (case analysis + lia over N with 2^64 side conditions) + grid correspondence on real connections in debug and release builds", ref="DESIGN.md section 6 C09"),
 "C10": dict(text="PARTIAL. Coq theorems about the temp-file effect log transcribed into the server model: on every path of one request every created file is dropped exactly once (in the reader on failure, with the request after hand-over), and after the connection loop ends no file is alive. That Rust really runs those drops is observed, not proved: the correspondence check lists the cache directory after every scenario (uploads cut at every offset class x handler outcomes x cache dir kinds, direct and through a full server).",
   technique="Rocq/Coq proof over a hand-transcribed effect log (balanced create/drop on all paths, induction over the loop) + directory-listing correspondence; partial", ref="DESIGN.md section 6 C10"),
 "C05": dict(text="Coq theorems, for EVERY request reader and EVERY response writer (Section variables) and all states / all operation sequences: misuse yields the documented error and changes nothing; the wire grows exactly by the prescribed bytes; nothing after shutdown (induction over sequences); finals sent <= requests started (trace invariant); interim keeps owed; 5xx closes; failed-write accounting; auto 100-continue; a failed body read never re-opens head reading (repair of D16, pre-fix refuted); oracle soundness. Tied to the code by driving a real HttpConn over loop-back with the concrete instantiation (head + request + response models), comparing every call's result, both states, is_ready and the exact wire bytes.",
   technique="Rocq/Coq proof (state-machine contract, parametric in reader/writer; invariants by induction over operation sequences) + extracted-model differential correspondence on a real HttpConn", ref="DESIGN.md section 6 C05"),
 "C14": dict(text="Coq theorems: every HeaderList operation of the model (transcribed from src/headers.rs, incl. the index loop of remove_all over Vec::remove) equals the ordered case-insensitive multimap specification for all states and all operation sequences (induction); ASCII invariant for all reachable collections; tied to the code by running servlin::HeaderList and every AsciiString constructor against the extracted model and the extracted oracle.",
   technique="Rocq/Coq proof (refinement to a filter-based multimap spec, induction over operation sequences) + extracted-model differential correspondence", ref="DESIGN.md section 6 C14"),
 "C20": dict(text="The finite tables (status-named constructors, the 28 error variants with is_server_error / description / response mapping, the 5xx close rule) are REGENERATED from the repository source by a translator on every run; Coq theorems over the generated tables prove code=name for every constructor, the documented class for every error variant and payload-independence of every error response for ALL payloads; the translator is validated exhaustively against the real code (every constructor, every variant x payloads, every status 100..999 through a real connection).",
   technique="Rocq/Coq proof over tables regenerated from source (translator) + exhaustive translation validation against the implementation", ref="DESIGN.md section 6 C20",
   note=" Additional trusted component: the regex-based translator props/c20.py (validated exhaustively each run)."),
}
NOT_YET = "check not built yet in this round (work in progress; see DESIGN.md section 10)"
def main():
    checks = []
    for pid in sorted(CHECKS):
        c = CHECKS[pid]
        checks.append(dict(property_id=pid, quick_cmd="./check %s --tier quick" % pid, thorough_cmd="./check %s --tier thorough" % pid,
            evidence_file="/verif/evidence/%s.json" % pid, replay_cmd_template="./check %s --replay {path}" % pid,
            engine="coq-model+correspondence",
            level_claimed=dict(category="proof", text=c["text"], design_ref=c["ref"]),
            level_note=LEVEL_NOTE + c.get("note", ""), technique=c["technique"]))
    man = dict(version=1, setup_cmd="./setup.sh",
        hooks=dict(guard="servlin_verif", enable="RUSTFLAGS='--cfg servlin_verif' (set by vlib.build_harness; no hook is currently present in /repo)",
                   baseline_off_cmd="cd /repo && cargo nextest run --workspace --no-fail-fast --offline || cargo test --workspace --no-fail-fast --offline --tests",
                   source_commits=[], add_only=True),
        engines=[dict(name="coq-model+correspondence", path="/verif/check", serves_properties=sorted(CHECKS),
                      kind_free_text="Hand-written Gallina model + Coq theorems (coq/theories), extraction to OCaml drivers (ocaml/), Rust harness linked against /repo (harness/), Python orchestrator (vlib.py, props/)")],
        checks=checks, notes="See DESIGN.md. known_findings.json lists findings and fixed defects.",
        not_applicable=[dict(property_id="C%02d" % i, reason=NOT_YET) for i in range(1, 21) if "C%02d" % i not in CHECKS])
    json.dump(man, open(os.path.join(ROOT, "MANIFEST.json"), "w"), indent=1)
if __name__ == "__main__":
    main()
