//! The `pool` and `acc` surfaces of the C12 / C13 harness: servlin::internal::{TokenSet, Token}
//! driven directly and servlin::internal::accept_loop driven directly with a harness-supplied
//! conn_handler.  Needs src/srv_common.rs (forecast, waiting, main loop) as `crate::srv_common`.
//!
//!   pool <n> <op>*   op = T (take) | Y (try-take with timeout) | D<i> (drop i-th live token)
//!   acc  <n> <cmd>*  cmd = c (client connects) | e<k> (the handler drops the Token of connection k)
//!                        | r (revoke) | f<e> (accept() fails with EMFILE for 200+500e ms while a client knocks)
//!                        | F<e> (the same, and the permit is revoked while accept() is still failing)
//!                        | L (a stalled global logger is installed for the rest of the case)
//!                        | G<e> (accept() fails for 200+500e ms while the global logger is stalled; then both recover)
#![allow(dead_code)]
use crate::srv_common::*;
use permit::Permit;
use servlin::internal::{accept_loop, listen_127_0_0_1_any_port, Token, TokenSet};
use std::net::{SocketAddr, TcpStream};
use std::sync::atomic::{AtomicUsize, Ordering::SeqCst};
use std::sync::{Arc, Mutex};
use std::time::Duration;

// ------------------------------------------------------------------------------------------ pool

fn pool_case(toks: &[String]) -> String {
    let n: usize = toks[1].parse().unwrap();
    let ts = TokenSet::new(n);
    let mut live: Vec<Token> = Vec::new();
    let mut out: Vec<&str> = Vec::new();
    for op in &toks[2..] {
        let r = match op.as_str() {
            "T" => {
                if live.len() < n {
                    // the caller's own bookkeeping says a slot is free: the blocking call
                    live.push(ts.wait_token());
                    "G"
                } else {
                    match ts.wait_token_timeout(SHORT) {
                        Ok(t) => {
                            live.push(t);
                            "G"
                        }
                        Err(_) => "T",
                    }
                }
            }
            "Y" => match ts.wait_token_timeout(SHORT) {
                Ok(t) => {
                    live.push(t);
                    "G"
                }
                Err(_) => "T",
            },
            d if d.starts_with('D') => {
                let i: usize = d[1..].parse().unwrap();
                if i < live.len() {
                    drop(live.remove(i));
                    "D"
                } else {
                    "B"
                }
            }
            _ => panic!("bad pool op"),
        };
        out.push(r);
    }
    let drain = |ts: &TokenSet| {
        let mut got = Vec::new();
        while let Ok(t) = ts.wait_token_timeout(SHORT) {
            got.push(t);
            if got.len() > n + 4 {
                break;
            }
        }
        got.len()
    };
    let p1 = drain(&ts);
    drop(live);
    let p2 = drain(&ts);
    format!("{} ; {} {}", out.join(" "), p1, p2)
}

// ------------------------------------------------------------------------ accept_loop, direct

struct AccShared {
    held: Mutex<Vec<Option<(Token, async_net::TcpStream, Permit)>>>,
    admitted: AtomicUsize,
    gauge: AtomicUsize,
    maxgauge: AtomicUsize,
}

extern "C" {
    fn getrlimit(resource: i32, rlim: *mut [u64; 2]) -> i32;
    fn setrlimit(resource: i32, rlim: *const [u64; 2]) -> i32;
    fn dup(fd: i32) -> i32;
    fn close(fd: i32) -> i32;
    fn socket(domain: i32, ty: i32, protocol: i32) -> i32;
    fn connect(fd: i32, addr: *const [u8; 16], len: u32) -> i32;
}
const RLIMIT_NOFILE: i32 = 7;
const AF_INET: i32 = 2;
const SOCK_STREAM_CLOEXEC: i32 = 1 | 0o2000000;
fn open_fds() -> u64 {
    std::fs::read_dir("/proc/self/fd").map(|d| d.count() as u64).unwrap_or(64)
}

/// Makes the descriptor table dense (dup(0) returns the lowest free number; earlier scenarios may have left gaps
/// below descriptors that are still open) and returns the fillers and the limit under which no new descriptor can
/// be had: the number of the highest descriptor in use + 1.  `fallback` = the count-based guess.
fn fill_fd_gaps(fallback: u64) -> (Vec<i32>, u64) {
    let mut fillers = Vec::new();
    for _ in 0..4096 {
        let f = unsafe { dup(0) };
        if f < 0 {
            break;
        }
        fillers.push(f);
        // open_fds() counts its own directory descriptor too
        if (f as u64) + 2 >= open_fds() {
            return (fillers, f as u64 + 1);
        }
    }
    (fillers, fallback)
}
/// While the descriptor limit is lowered, a descriptor freed by anything else in the process (a late close by an
/// earlier scenario's threads) would let accept() succeed.  This thread takes every descriptor that becomes free
/// (dup(0) fails with EMFILE as long as none is) within about a millisecond; accept() is retried only every 500 ms.
/// `start_plugger` returns once the thread has seen dup(0) fail, i.e. once no descriptor is to be had.
struct Plugger {
    stop: Arc<std::sync::atomic::AtomicBool>,
    handle: std::thread::JoinHandle<Vec<i32>>,
}
fn start_plugger() -> Plugger {
    let stop = Arc::new(std::sync::atomic::AtomicBool::new(false));
    let armed = Arc::new(std::sync::atomic::AtomicBool::new(false));
    let (stop2, armed2) = (stop.clone(), armed.clone());
    let handle = std::thread::spawn(move || {
        let mut got = Vec::new();
        while !stop2.load(SeqCst) {
            let f = unsafe { dup(0) };
            if f >= 0 {
                got.push(f);
            } else {
                armed2.store(true, SeqCst);
                std::thread::sleep(Duration::from_micros(500));
            }
        }
        got
    });
    let t0 = std::time::Instant::now();
    while !armed.load(SeqCst) && t0.elapsed() < Duration::from_secs(2) {
        std::thread::sleep(Duration::from_micros(100));
    }
    Plugger { stop, handle }
}
fn stop_plugger(p: Plugger) {
    p.stop.store(true, SeqCst);
    if let Ok(fds) = p.handle.join() {
        close_all(fds);
    }
}

/// The EMFILE injection.  The ORDER matters: the client's socket is created first (it needs a descriptor itself),
/// then the descriptor table is made dense, the limit is lowered to the highest descriptor + 1 and the plugger is
/// running -- and only THEN does the client knock (`knock`), so that the accept() the knock wakes up cannot get a
/// descriptor.  (Knocking before the limit was lowered left accept() a window of some hundred microseconds, which it
/// won or lost depending on the machine: the false alarm `acc 2 c F7` of C13.)
struct Emfile {
    lim: [u64; 2],
    fillers: Vec<i32>,
    plug: Plugger,
    client_fd: i32,
}
impl Emfile {
    fn begin() -> Emfile {
        let mut lim = [0u64; 2];
        unsafe { getrlimit(RLIMIT_NOFILE, &mut lim) };
        let client_fd = unsafe { socket(AF_INET, SOCK_STREAM_CLOEXEC, 0) };
        let cur = open_fds();
        let (fillers, top_fd) = fill_fd_gaps(cur);
        let low = [top_fd.min(lim[0]), lim[1]];
        unsafe { setrlimit(RLIMIT_NOFILE, &low) };
        let plug = start_plugger();
        Emfile { lim, fillers, plug, client_fd }
    }
    /// The client connects (blocking; on loopback this returns as soon as the connection sits in the listener's queue).
    fn knock(&mut self, addr: SocketAddr) -> Option<TcpStream> {
        use std::os::unix::io::FromRawFd;
        let fd = std::mem::replace(&mut self.client_fd, -1);
        let SocketAddr::V4(a) = addr else { panic!("harness listens on 127.0.0.1") };
        if fd < 0 {
            return None;
        }
        let mut sa = [0u8; 16];
        sa[0..2].copy_from_slice(&(AF_INET as u16).to_ne_bytes());
        sa[2..4].copy_from_slice(&a.port().to_be_bytes());
        sa[4..8].copy_from_slice(&a.ip().octets());
        if unsafe { connect(fd, &sa, 16) } == 0 {
            Some(unsafe { TcpStream::from_raw_fd(fd) })
        } else {
            unsafe { close(fd) };
            None
        }
    }
    fn end(self) {
        unsafe { setrlimit(RLIMIT_NOFILE, &self.lim) };
        stop_plugger(self.plug);
        close_all(self.fillers);
        if self.client_fd >= 0 {
            unsafe { close(self.client_fd) };
        }
    }
}
fn close_all(fds: Vec<i32>) {
    for f in fds {
        unsafe { close(f) };
    }
}

fn acc_case(toks: &[String]) -> (String, bool) {
    let n: usize = toks[1].parse().unwrap();
    let executor = safina::executor::Executor::new(1, 1).unwrap();
    let listener = executor.block_on(async { listen_127_0_0_1_any_port().await.unwrap() });
    let addr = listener.local_addr().unwrap();
    let top = Permit::new();
    let sh = Arc::new(AccShared { held: Mutex::new(Vec::new()), admitted: AtomicUsize::new(0), gauge: AtomicUsize::new(0), maxgauge: AtomicUsize::new(0) });
    let sh2 = sh.clone();
    let conn_handler = move |permit: Permit, token: Token, stream: async_net::TcpStream, _addr: SocketAddr| {
        let mut h = sh2.held.lock().unwrap();
        h.push(Some((token, stream, permit)));
        sh2.admitted.fetch_add(1, SeqCst);
        let g = sh2.gauge.fetch_add(1, SeqCst) + 1;
        sh2.maxgauge.fetch_max(g, SeqCst);
    };
    let (stx, srx) = std::sync::mpsc::channel::<()>();
    let token_set = TokenSet::new(n);
    let sub = top.new_sub();
    executor.spawn(async move {
        accept_loop(sub, listener, token_set, conn_handler).await;
        let _ = stx.send(());
    });
    let mut clients: Vec<Option<TcpStream>> = Vec::new();
    let mut pred = Pred::new(n, false);
    let mut stopped = false;
    let mut out: Vec<String> = Vec::new();
    let mut matched = true;
    let observe = |stopped: &mut bool| -> Obs {
        if !*stopped && srx.try_recv().is_ok() {
            *stopped = true;
        }
        let listening = if *stopped { probe_listening(addr) } else { true };
        Obs { admitted: Some(sh.admitted.load(SeqCst)), gauge: Some(sh.gauge.load(SeqCst)), handlers: 0, entries: 0, done: 0, closed: 0, stopped: *stopped, listening }
    };
    let step = |pred: &Pred, stopped: &mut bool, out: &mut Vec<String>, matched: &mut bool| {
        let want = pred.obs();
        let ok = wait_for(
            || {
                if !*stopped && want.stopped && srx.try_recv().is_ok() {
                    *stopped = true;
                }
                sh.admitted.load(SeqCst) == want.admitted.unwrap() && sh.gauge.load(SeqCst) == want.gauge.unwrap() && *stopped == want.stopped
            },
            if *matched { STEP_DEADLINE } else { AFTER_DEVIATION },
        );
        std::thread::sleep(Duration::from_millis(2));
        let o = observe(stopped);
        if !ok || o != want {
            *matched = false;
        }
        out.push(o.show());
    };
    let do_end = |k: usize| {
        let mut h = sh.held.lock().unwrap();
        if k < h.len() {
            if let Some(x) = h[k].take() {
                // however the owner of a Token ends, the slot comes back: by turns it is dropped here, dropped on
                // another thread, and dropped while its thread unwinds from a panic (a connection task that panics)
                match k % 3 {
                    0 => drop(x),
                    1 => {
                        let _ = std::thread::spawn(move || {
                            let _owned = x;
                            panic!("connection task panics (scripted)");
                        })
                        .join();
                    }
                    _ => {
                        let _ = std::thread::spawn(move || drop(x)).join();
                    }
                }
                sh.gauge.fetch_sub(1, SeqCst);
            }
        }
    };
    let mut stalled_logger = None;
    let mut scratch_clients: Vec<Option<TcpStream>> = Vec::new(); // knocked while accept() failed, never admitted
    for c in &toks[2..] {
        let c = c.as_str();
        if c == "c" {
            clients.push(TcpStream::connect_timeout(&addr, Duration::from_millis(1000)).ok());
            pred.connect();
        } else if c == "L" {
            // from now on the process has a global logger whose one-slot queue is full and that nobody drains: a
            // logging call made by the code under test blocks.  Stopping must not depend on the logger.
            let (tx, rx) = std::sync::mpsc::sync_channel(1);
            let _ = tx.send(servlin::log::internal::LogEvent::new(servlin::log::Level::Info, ()));
            if let Ok(g) = servlin::log::set_global_logger(tx) {
                stalled_logger = Some((g, rx));
            }
        } else if c == "r" {
            top.revoke();
            pred.revoke();
        } else if let Some(k) = c.strip_prefix('e') {
            let k: usize = k.split(':').next().unwrap().parse().unwrap();
            do_end(k);
            pred.end(k);
        } else if let Some(e) = c.strip_prefix('G') {
            // accept() fails (EMFILE, as for f<e>) WHILE the global logger's queue is full and undrained; afterwards the
            // limit is restored and the logger drained again.  The failure must not cost the server its accept loop:
            // the client that knocked is admitted.
            let e: u64 = e.parse().unwrap_or(1).max(1);
            let (tx, rx) = std::sync::mpsc::sync_channel(1);
            let _ = tx.send(servlin::log::internal::LogEvent::new(servlin::log::Level::Info, ()));
            let guard = servlin::log::set_global_logger(tx).ok();
            let mut inj = Emfile::begin();
            let client = inj.knock(addr);
            std::thread::sleep(Duration::from_millis(200 + 500 * e));
            inj.end();
            // the logger works again: everything queued and everything sent from now on is taken
            let drainer = std::thread::spawn(move || for _ev in rx {});
            clients.push(client);
            pred.connect();
            step(&pred, &mut stopped, &mut out, &mut matched);
            drop(guard);
            let _ = drainer.join();
            continue;
        } else if let Some(e) = c.strip_prefix('f').or_else(|| c.strip_prefix('F')) {
            // accept failures: lower the descriptor limit below what accept() needs, THEN let a client
            // knock, keep it so for 200 + 500*e ms (e retry rounds of the loop's 500 ms pause), then
            // restore the limit.  F<e>: the permit is revoked while accept() is still failing.
            let e: u64 = e.parse().unwrap_or(1).max(1);
            let admitted_before = sh.admitted.load(SeqCst);
            let mut inj = Emfile::begin();
            let client = inj.knock(addr);
            std::thread::sleep(Duration::from_millis(200 + 500 * e));
            if sh.admitted.load(SeqCst) != admitted_before {
                // accept() succeeded under the lowered limit: a descriptor was freed meanwhile (a late close by an earlier
                // scenario) and the injection did not hold -- not a measurement: repeat the case
                matched = false;
            }
            if c.starts_with('F') {
                top.revoke();
                pred.revoke();
                step(&pred, &mut stopped, &mut out, &mut matched);
                inj.end();
                scratch_clients.push(client);
                continue;
            }
            inj.end();
            clients.push(client);
            pred.connect();
        } else {
            panic!("bad acc cmd {c}");
        }
        step(&pred, &mut stopped, &mut out, &mut matched);
    }
    // recovery: end every live connection, then n+1 fresh clients
    let live: Vec<usize> = pred.live.iter().map(|x| x.0).collect();
    for k in live {
        do_end(k);
        pred.end(k);
    }
    let mut scratch = Vec::new();
    for _ in 0..=n {
        clients.push(TcpStream::connect_timeout(&addr, Duration::from_millis(1000)).ok());
        pred.connect();
    }
    step(&pred, &mut stopped, &mut scratch, &mut matched);
    let over = u8::from(sh.maxgauge.load(SeqCst) > n);
    // tidy up
    top.revoke();
    sh.held.lock().unwrap().clear();
    drop(clients);
    if let Some((g, rx)) = stalled_logger.take() {
        drop(rx); // blocked senders (if any) fail now
        drop(g);
    }
    (format!("{} ; {} ; over={}", out.join(" "), scratch[0], over), matched)
}

fn pool_runner(toks: &[String]) -> (String, bool) {
    (pool_case(toks), true)
}

pub fn full_lookup(kind: &str) -> Option<(Runner, bool)> {
    match kind {
        "pool" => Some((pool_runner as Runner, false)),
        "acc" => Some((acc_case as Runner, true)),
        other => srv_lookup(other),
    }
}

pub fn main_common() {
    main_with(full_lookup);
}
