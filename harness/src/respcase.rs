//! Builds a real `servlin::Response` from the tokens of a C06 / C08 case
//! (included with `#[path = "../respcase.rs"] mod respcase;`).
//!
//!   <code> <ctype> H<k> <name> <value> ... <body>
//!   ctype  none | v<idx> (fixed variant) | s<hex> (ContentType::Str) | S<hex> (ContentType::String)
//!   body   static:<data> | str:<data> | vec:<data> | file:<declared>:<data> | tmp:<declared>:<data>
//!          | filemissing:<declared> | filedir:<declared> | tmpmissing:<declared>
//!          | fileshrink:<declared>:<data>:<keep>  (a file holding <data> that is cut to <keep> bytes in flight: when
//!            the writer of the `ser` surface gets its first write call, i.e. after every check made before the head)
//!          | es:<hex>,<hex>,.. (event stream, one Event::Message per item, 'e' = empty text, B<n> = n bytes 'a', senders dropped before the write)
//!          | drop | getbody (non-Normal response kinds)
#![allow(dead_code)]
use servlin::internal::{ContentType, Event, ResponseBody, ResponseKind};
use servlin::{AsciiString, Response};
use std::path::PathBuf;

use crate::sio::data_of_tok;

pub const VARIANTS: usize = 16;
pub fn variant(idx: usize) -> ContentType {
    match idx {
        0 => ContentType::Css,
        1 => ContentType::Csv,
        2 => ContentType::EventStream,
        3 => ContentType::FormUrlEncoded,
        4 => ContentType::Gif,
        5 => ContentType::Html,
        6 => ContentType::JavaScript,
        7 => ContentType::Jpeg,
        8 => ContentType::Json,
        9 => ContentType::Markdown,
        10 => ContentType::MultipartForm,
        11 => ContentType::OctetStream,
        12 => ContentType::Pdf,
        13 => ContentType::PlainText,
        14 => ContentType::Png,
        15 => ContentType::Svg,
        _ => panic!("bad content type index"),
    }
}

fn ascii(t: &str) -> String {
    String::from_utf8(data_of_tok(t)).unwrap()
}

pub struct Built {
    pub response: Response,
    /// keeps the temp dir (and with it File bodies) alive until the case is over
    pub dir: Option<temp_dir::TempDir>,
    /// fileshrink: the body file and the length it is cut to once the first byte of the response went out
    pub shrink: Option<(PathBuf, u64)>,
}

/// Parses the response part of a case; returns the response and the number of tokens consumed.
pub fn build(toks: &[&str]) -> (Built, usize) {
    let code: u16 = toks[0].parse().unwrap();
    let ct = toks[1];
    let content_type = if ct == "none" {
        ContentType::None
    } else if let Some(i) = ct.strip_prefix('v') {
        variant(i.parse().unwrap())
    } else if let Some(h) = ct.strip_prefix('s') {
        ContentType::Str(Box::leak(ascii(&format!("x{h}")).into_boxed_str()))
    } else if let Some(h) = ct.strip_prefix('S') {
        ContentType::String(ascii(&format!("x{h}")))
    } else {
        panic!("bad ctype")
    };
    let k: usize = toks[2][1..].parse().unwrap();
    // the content type is set through the builder (with_type) or by assigning the public field, by turns (parity of
    // the status code): the same response either way
    let mut response = if code % 2 == 0 {
        Response::new(code).with_type(content_type)
    } else {
        let mut r = Response::new(code);
        r.content_type = content_type;
        r
    };
    let mut i = 3;
    for _ in 0..k {
        let name = ascii(toks[i]);
        let value: AsciiString = ascii(toks[i + 1]).try_into().unwrap();
        response = response.with_header(name, value);
        i += 2;
    }
    let body = toks[i];
    i += 1;
    let mut dir = None;
    let mut shrink = None;
    let (kind, arg) = body.split_once(':').unwrap_or((body, ""));
    let mut mkfile = |data: &[u8]| -> PathBuf {
        let d = temp_dir::TempDir::new().unwrap();
        let p = d.child("body");
        std::fs::write(&p, data).unwrap();
        dir = Some(d);
        p
    };
    match kind {
        "static" => response.body = ResponseBody::StaticBytes(Box::leak(data_of_tok(arg).into_boxed_slice())),
        "str" => {
            response.body =
                ResponseBody::StaticStr(Box::leak(String::from_utf8(data_of_tok(arg)).unwrap().into_boxed_str()));
        }
        "vec" => response.body = ResponseBody::Vec(data_of_tok(arg)),
        "file" => {
            let (declared, data) = arg.split_once(':').unwrap();
            let p = mkfile(&data_of_tok(data));
            response.body = ResponseBody::File(p, declared.parse().unwrap());
        }
        "tmp" => {
            let (declared, data) = arg.split_once(':').unwrap();
            let tf = temp_file::TempFile::new().unwrap().with_contents(&data_of_tok(data)).unwrap();
            response.body = ResponseBody::TempFile(tf, declared.parse().unwrap());
        }
        "fileshrink" => {
            let parts: Vec<&str> = arg.split(':').collect();
            let p = mkfile(&data_of_tok(parts[1]));
            shrink = Some((p.clone(), parts[2].parse().unwrap()));
            response.body = ResponseBody::File(p, parts[0].parse().unwrap());
        }
        "filemissing" => {
            let p = mkfile(b"");
            std::fs::remove_file(&p).unwrap();
            response.body = ResponseBody::File(p, arg.parse().unwrap());
        }
        "tmpmissing" => {
            let tf = temp_file::TempFile::new().unwrap();
            std::fs::remove_file(tf.path()).unwrap();
            response.body = ResponseBody::TempFile(tf, arg.parse().unwrap());
        }
        "filedir" => {
            let p = mkfile(b"");
            std::fs::remove_file(&p).unwrap();
            std::fs::create_dir(&p).unwrap();
            response.body = ResponseBody::File(p, arg.parse().unwrap());
        }
        "es" => {
            let (mut sender, r) = Response::event_stream();
            for item in arg.split(',').filter(|s| !s.is_empty()) {
                let text = if item == "e" {
                    String::new()
                } else if let Some(n) = item.strip_prefix('B') {
                    "a".repeat(n.parse().unwrap())
                } else {
                    ascii(&format!("x{item}"))
                };
                sender.send(Event::Message(text));
            }
            drop(sender);
            response.body = r.body;
        }
        "drop" => response.kind = ResponseKind::DropConnection,
        "getbody" => response.kind = ResponseKind::GetBodyAndReprocess(100),
        _ => panic!("bad body kind"),
    }
    (Built { response, dir, shrink }, i)
}

pub fn err_name(e: &servlin::internal::HttpError) -> String {
    let s = format!("{e:?}");
    s.split(['(', ' ']).next().unwrap().to_string()
}
