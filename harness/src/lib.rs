//! Shared helpers for the correspondence harness: token syntax, panic capture.
use std::io::{BufRead, Write};

pub fn hexval(c: u8) -> u8 {
    match c {
        b'0'..=b'9' => c - b'0',
        b'a'..=b'f' => c - b'a' + 10,
        b'A'..=b'F' => c - b'A' + 10,
        _ => panic!("bad hex"),
    }
}
/// token "x6162" -> b"ab"
pub fn bytes_of_tok(t: &str) -> Vec<u8> {
    let b = t.as_bytes();
    assert!(!b.is_empty() && b[0] == b'x', "bad bytes token {t}");
    b[1..].chunks(2).map(|p| 16 * hexval(p[0]) + hexval(p[1])).collect()
}
pub fn tok_of_bytes(b: &[u8]) -> String {
    let mut s = String::with_capacity(1 + 2 * b.len());
    s.push('x');
    for x in b {
        s.push_str(&format!("{x:02x}"));
    }
    s
}
/// token "u97,8364" -> "a€"
pub fn string_of_scalars_tok(t: &str) -> String {
    assert!(t.starts_with('u'), "bad scalar token {t}");
    let body = &t[1..];
    if body.is_empty() {
        return String::new();
    }
    body.split(',').map(|s| char::from_u32(s.parse::<u32>().unwrap()).unwrap()).collect()
}
pub fn tok_of_scalars(s: &str) -> String {
    let v: Vec<String> = s.chars().map(|c| (c as u32).to_string()).collect();
    format!("u{}", v.join(","))
}
/// The ASCII text of a token that is known to be ASCII.
pub fn ascii_of_tok(t: &str) -> String {
    String::from_utf8(bytes_of_tok(t)).unwrap()
}

/// Runs `f` on every input line, writing one output line per input line.
/// A panic inside `f` becomes the line `panic <location>`.
pub fn run_lines(f: impl Fn(&[&str]) -> String + std::panic::RefUnwindSafe) {
    std::panic::set_hook(Box::new(|_| {}));
    let stdin = std::io::stdin();
    let stdout = std::io::stdout();
    let mut out = std::io::BufWriter::new(stdout.lock());
    for line in stdin.lock().lines() {
        let line = line.unwrap();
        let toks: Vec<&str> = line.split_ascii_whitespace().collect();
        let res = std::panic::catch_unwind(|| f(&toks));
        match res {
            Ok(s) => writeln!(out, "{s}").unwrap(),
            Err(e) => {
                let msg = if let Some(s) = e.downcast_ref::<String>() {
                    s.clone()
                } else if let Some(s) = e.downcast_ref::<&str>() {
                    (*s).to_string()
                } else {
                    "?".to_string()
                };
                let msg: String = msg.chars().map(|c| if c.is_ascii_graphic() { c } else { '_' }).take(80).collect();
                writeln!(out, "panic {msg}").unwrap()
            }
        }
    }
}
