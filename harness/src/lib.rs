//! Shared helpers for the correspondence harness: token syntax, panic capture.
use std::io::{BufRead, Write};

pub fn hexval(c: u8) -> u8 {
    match c {
        b'0'..=b'9' => c - b'0',
        b'a'..=b'f' => c - b'a' + 10,
        b'A'..=b'F' => c - b'A' + 10,
        _ => panic!("bad hex"),
    }
}
/// token "x6162" -> b"ab"
pub fn bytes_of_tok(t: &str) -> Vec<u8> {
    let b = t.as_bytes();
    assert!(!b.is_empty() && b[0] == b'x', "bad bytes token {t}");
    b[1..].chunks(2).map(|p| 16 * hexval(p[0]) + hexval(p[1])).collect()
}
pub fn tok_of_bytes(b: &[u8]) -> String {
    let mut s = String::with_capacity(1 + 2 * b.len());
    s.push('x');
    for x in b {
        s.push_str(&format!("{x:02x}"));
    }
    s
}
/// token "u97,8364" -> "a€"
pub fn string_of_scalars_tok(t: &str) -> String {
    assert!(t.starts_with('u'), "bad scalar token {t}");
    let body = &t[1..];
    if body.is_empty() {
        return String::new();
    }
    body.split(',').map(|s| char::from_u32(s.parse::<u32>().unwrap()).unwrap()).collect()
}
pub fn tok_of_scalars(s: &str) -> String {
    let v: Vec<String> = s.chars().map(|c| (c as u32).to_string()).collect();
    format!("u{}", v.join(","))
}
/// The ASCII text of a token that is known to be ASCII.
pub fn ascii_of_tok(t: &str) -> String {
    String::from_utf8(bytes_of_tok(t)).unwrap()
}

/// Runs `f` on every input line, writing one output line per input line.
/// A panic inside `f` becomes the line `panic <message>`.
/// Stdout is not kept locked, so code under test that prints to stdout cannot dead-lock; use
/// `run_lines_marked` when it does print, so that the orchestrator can tell the lines apart.
pub fn run_lines(f: impl Fn(&[&str]) -> String + std::panic::RefUnwindSafe) {
    // always marked: whatever the code under test (or a change to it) prints to stdout must not be
    // taken for an observation line
    run_lines_with("@@", f);
}
/// Like `run_lines`, but every observation line starts with "@@"; all other stdout lines are
/// ignored by the orchestrator.
pub fn run_lines_marked(f: impl Fn(&[&str]) -> String + std::panic::RefUnwindSafe) {
    run_lines_with("@@", f);
}
fn run_lines_with(mark: &str, f: impl Fn(&[&str]) -> String + std::panic::RefUnwindSafe) {
    std::panic::set_hook(Box::new(|_| {}));
    let stdin = std::io::stdin();
    let mut pending = String::new();
    let flush = |pending: &mut String| {
        if !pending.is_empty() {
            let stdout = std::io::stdout();
            let mut lock = stdout.lock();
            lock.write_all(pending.as_bytes()).unwrap();
            lock.flush().unwrap();
            pending.clear();
        }
    };
    for line in stdin.lock().lines() {
        let line = line.unwrap();
        let toks: Vec<&str> = line.split_ascii_whitespace().collect();
        if !mark.is_empty() {
            // code under test may print: never hold buffered output across a call
            flush(&mut pending);
        }
        let res = std::panic::catch_unwind(|| f(&toks));
        let out = match res {
            Ok(s) => s,
            Err(e) => {
                let msg = if let Some(s) = e.downcast_ref::<String>() {
                    s.clone()
                } else if let Some(s) = e.downcast_ref::<&str>() {
                    (*s).to_string()
                } else {
                    "?".to_string()
                };
                let msg: String = msg.chars().map(|c| if c.is_ascii_graphic() { c } else { '_' }).take(80).collect();
                format!("panic {msg}")
            }
        };
        if !mark.is_empty() {
            // start on a fresh line in case the code under test left a partial one
            pending.push('\n');
        }
        pending.push_str(mark);
        pending.push_str(&out);
        pending.push('\n');
        if pending.len() > 1 << 16 {
            flush(&mut pending);
        }
    }
    flush(&mut pending);
}

/// FNV-1a 64-bit, used to compare large byte strings by digest on both sides.
pub fn fnv64(data: &[u8]) -> u64 {
    let mut h: u64 = 0xcbf29ce484222325;
    for b in data {
        h ^= u64::from(*b);
        h = h.wrapping_mul(0x100000001b3);
    }
    h
}
/// Short canonical rendering of a byte string: hex when small, length + digest otherwise.
pub fn digest_tok(data: &[u8]) -> String {
    if data.len() <= 64 {
        format!("{}:{}", data.len(), tok_of_bytes(data))
    } else {
        format!("{}:h{:016x}", data.len(), fnv64(data))
    }
}
/// Token "g<len>,<seed>" -> pseudo-random bytes (LCG), "x.." -> literal bytes; several tokens
/// joined with '+' are concatenated.
pub fn expand_bytes(tok: &str) -> Vec<u8> {
    let mut out = Vec::new();
    for part in tok.split('+') {
        if let Some(rest) = part.strip_prefix('g') {
            let mut it = rest.split(',');
            let len: usize = it.next().unwrap().parse().unwrap();
            let mut s: u64 = it.next().unwrap().parse().unwrap();
            for _ in 0..len {
                s = s.wrapping_mul(6364136223846793005).wrapping_add(1442695040888963407);
                out.push(b'a' + ((s >> 33) % 26) as u8);
            }
        } else {
            out.extend(bytes_of_tok(part));
        }
    }
    out
}
