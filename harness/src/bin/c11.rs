//! C11 harness: drives Response::event_stream() -> (EventSender, Response), the response body's
//! async reader and servlin::internal::copy_chunked_async by hand-polling the copy future with a
//! no-op waker between sender steps, so that the interleaving of the case is reproduced exactly
//! and single-threaded.
//!
//! Case syntax:
//!   sse <step>*      step = S<i>,m,<data> | S<i>,c,<type>,<data>   EventSender i .send(event)
//!                         | C<i>  clone      | D<i>  disconnect()   | X<i>  drop
//!                         | W     one poll of the writer (one read of the EventReceiver allowed)
//!                         | G     the client is gone (writes fail from now on)
//!     <data>/<type> = '+'-joined pieces: x<hex> | R<count>:<hexbyte>
//!   finale (implicit): poll until nothing moves; drop every sender; poll until the copy ends.
//!   custom <type>    Event::custom(type, "d")  -> K | E
//!   conv <n1> <n2>   see conv()
//!   stress <threads> <events-per-thread> [h]   full server over loop-back, sender threads (h: the client half-closes
//!                         after its request and keeps reading; r instead of h: the server's permit is revoked
//!                         once the stream is open, before the first event)
//! Observation per step:  <new wire bytes as x-hex or ->,<flags>,<state>
//!   flags: one char per EventSender ever created: 1 connected, 0 disconnected, x dropped
//!   state: A copy running, T CopyResult::Ok, R ReaderErr, W WriterErr
use futures_io::{AsyncRead, AsyncWrite};
use servlin::internal::{copy_chunked_async, CopyResult};
use servlin::{Event, EventSender, Response};
use std::future::Future;
use std::pin::Pin;
use std::sync::atomic::{AtomicBool, AtomicUsize, Ordering::SeqCst};
use std::sync::{Arc, Mutex};
use std::task::{Context, Poll, Waker};
use svharness::*;

struct BudgetReader<R> {
    inner: R,
    budget: Arc<AtomicUsize>,
}
impl<R: AsyncRead + Unpin> AsyncRead for BudgetReader<R> {
    fn poll_read(mut self: Pin<&mut Self>, cx: &mut Context<'_>, buf: &mut [u8]) -> Poll<std::io::Result<usize>> {
        if self.budget.load(SeqCst) == 0 {
            return Poll::Pending; // this task is simply not scheduled further (polled by hand)
        }
        match Pin::new(&mut self.inner).poll_read(cx, buf) {
            Poll::Ready(r) => {
                self.budget.fetch_sub(1, SeqCst);
                Poll::Ready(r)
            }
            Poll::Pending => Poll::Pending,
        }
    }
}
struct RecordingWriter {
    out: Arc<Mutex<Vec<u8>>>,
    fail: Arc<AtomicBool>,
    /// at most this many bytes are accepted per poll_write (0 = no limit): short writes
    wmax: usize,
}
impl AsyncWrite for RecordingWriter {
    fn poll_write(self: Pin<&mut Self>, _cx: &mut Context<'_>, buf: &[u8]) -> Poll<std::io::Result<usize>> {
        if self.fail.load(SeqCst) {
            return Poll::Ready(Err(std::io::Error::new(std::io::ErrorKind::BrokenPipe, "client gone")));
        }
        let n = if self.wmax == 0 { buf.len() } else { buf.len().min(self.wmax) };
        self.out.lock().unwrap().extend_from_slice(&buf[..n]);
        Poll::Ready(Ok(n))
    }
    fn poll_flush(self: Pin<&mut Self>, _cx: &mut Context<'_>) -> Poll<std::io::Result<()>> {
        Poll::Ready(Ok(()))
    }
    fn poll_close(self: Pin<&mut Self>, _cx: &mut Context<'_>) -> Poll<std::io::Result<()>> {
        Poll::Ready(Ok(()))
    }
}

fn parse_text(t: &str) -> Vec<u8> {
    let mut v = Vec::new();
    for piece in t.split('+') {
        if let Some(rest) = piece.strip_prefix('R') {
            let mut it = rest.split(':');
            let n: usize = it.next().unwrap().parse().unwrap();
            let b = bytes_of_tok(&format!("x{}", it.next().unwrap()));
            for _ in 0..n {
                v.extend_from_slice(&b);
            }
        } else {
            v.extend_from_slice(&bytes_of_tok(piece));
        }
    }
    v
}
fn text(t: &str) -> String {
    String::from_utf8(parse_text(t)).expect("case text must be UTF-8")
}

fn poll_once<F: Future + ?Sized>(f: Pin<&mut F>) -> Poll<F::Output> {
    let waker = Waker::noop();
    let mut cx = Context::from_waker(waker);
    f.poll(&mut cx)
}

struct Stream {
    response: *mut Response,
    fut: Option<Pin<Box<dyn Future<Output = CopyResult>>>>,
    budget: Arc<AtomicUsize>,
    out: Arc<Mutex<Vec<u8>>>,
    fail: Arc<AtomicBool>,
    state: char,
    seen: usize,
}
impl Stream {
    fn new(response: Response, wmax: usize) -> Self {
        let response: *mut Response = Box::into_raw(Box::new(response));
        // the reader borrows the Response; it is released in `finish` after the future is dropped
        let r: &'static Response = unsafe { &*response };
        let mut rf = Box::pin(r.body.async_reader());
        let reader = match poll_once(rf.as_mut()) {
            Poll::Ready(Ok(x)) => x,
            _ => panic!("async_reader not ready"),
        };
        drop(rf);
        let budget = Arc::new(AtomicUsize::new(0));
        let out = Arc::new(Mutex::new(Vec::new()));
        let fail = Arc::new(AtomicBool::new(false));
        let fut = copy_chunked_async(BudgetReader { inner: reader, budget: budget.clone() }, RecordingWriter { out: out.clone(), fail: fail.clone(), wmax });
        Stream { response, fut: Some(Box::pin(fut)), budget, out, fail, state: 'A', seen: 0 }
    }
    /// one poll; at most `reads` reads of the EventReceiver; true if something happened
    fn poll(&mut self, reads: usize) -> bool {
        let Some(f) = self.fut.as_mut() else { return false };
        self.budget.store(reads, SeqCst);
        let before = self.out.lock().unwrap().len();
        let r = poll_once(f.as_mut());
        let used = reads - self.budget.load(SeqCst);
        self.budget.store(0, SeqCst);
        if let Poll::Ready(res) = r {
            self.state = match res {
                CopyResult::Ok(_) => 'T',
                CopyResult::ReaderErr(_) => 'R',
                CopyResult::WriterErr(_) => 'W',
            };
            self.fut = None;
            // the server drops the Response as soon as the copy has returned
            unsafe { drop(Box::from_raw(self.response)) };
            self.response = std::ptr::null_mut();
            return true;
        }
        used > 0 || self.out.lock().unwrap().len() != before
    }
    fn new_bytes(&mut self) -> String {
        let o = self.out.lock().unwrap();
        let s = if o.len() == self.seen { "-".to_string() } else { tok_of_bytes(&o[self.seen..]) };
        self.seen = o.len();
        s
    }
}
impl Drop for Stream {
    fn drop(&mut self) {
        self.fut = None;
        if !self.response.is_null() {
            unsafe { drop(Box::from_raw(self.response)) };
        }
    }
}

fn flags(s: &[Option<EventSender>]) -> String {
    s.iter().map(|h| match h { None => 'x', Some(e) => if e.is_connected() { '1' } else { '0' } }).collect()
}

fn sse(toks: &[&str]) -> String {
    let (sender, response) = Response::event_stream();
    // optional first token w<k>: the writer accepts at most k bytes per poll_write
    let (wmax, toks) = match toks.first() {
        Some(t) if t.starts_with('w') => (t[1..].parse::<usize>().unwrap(), &toks[1..]),
        _ => (0, toks),
    };
    let mut st = Stream::new(response, wmax);
    let mut senders: Vec<Option<EventSender>> = vec![Some(sender)];
    let mut out: Vec<String> = Vec::new();
    for t in toks {
        let c = t.as_bytes()[0] as char;
        match c {
            'S' => {
                let parts: Vec<&str> = t[1..].split(',').collect();
                let i: usize = parts[0].parse().unwrap();
                let ev = match parts[1] {
                    "m" => Event::Message(text(parts[2])),
                    "c" => Event::custom(text(parts[2]), text(parts[3])).expect("case uses a type with CR/LF"),
                    _ => panic!("bad event"),
                };
                if let Some(Some(s)) = senders.get_mut(i) {
                    s.send(ev);
                }
            }
            'C' => {
                let i: usize = t[1..].parse().unwrap();
                if let Some(Some(s)) = senders.get(i) {
                    let c = s.clone();
                    senders.push(Some(c));
                }
            }
            'D' => {
                let i: usize = t[1..].parse().unwrap();
                if let Some(Some(s)) = senders.get_mut(i) {
                    s.disconnect();
                }
            }
            'X' => {
                let i: usize = t[1..].parse().unwrap();
                if let Some(h) = senders.get_mut(i) {
                    *h = None;
                }
            }
            'W' => {
                // W<k>: one scheduling of the writer task in which up to k events are ready to be read
                let k: usize = if t.len() > 1 { t[1..].parse().unwrap() } else { 1 };
                st.poll(k);
            }
            'G' => st.fail.store(true, SeqCst),
            _ => panic!("bad step {t}"),
        }
        out.push(format!("{},{},{}", st.new_bytes(), flags(&senders), st.state));
    }
    // finale 1: poll until nothing moves
    for _ in 0..80 {
        if !st.poll(1) {
            break;
        }
    }
    let f1 = format!("{},{},{}", st.new_bytes(), flags(&senders), st.state);
    // finale 2: drop every sender, poll until the copy has ended
    for h in senders.iter_mut() {
        *h = None;
    }
    for _ in 0..80 {
        if !st.poll(1) {
            break;
        }
    }
    let f2 = format!("{},{},{}", st.new_bytes(), flags(&senders), st.state);
    format!("{} ; {} ; {}", out.join(" "), f1, f2)
}

/// thorough: full server over loop-back, `nt` sender threads each sending `per` numbered events
/// through clones of one EventSender; the client de-chunks and checks per-thread order and counts.
/// conv <n1> <n2>: the event-stream body converted to bytes (Vec::<u8>::try_from(response.body), which the String
/// conversion uses too) on another thread WHILE a sender is still connected: n1 events are queued before the conversion
/// starts, the original sender disconnects, a clone sends n2 more 60 ms later and then drops.  The conversion must
/// wait for the last sender and return every event in order.
fn conv(n1: usize, n2: usize) -> String {
    let (mut sender, response) = Response::event_stream();
    for i in 0..n1 {
        sender.send(Event::Message(format!("e{i}")));
    }
    let mut late = sender.clone();
    sender.disconnect();
    let th = std::thread::spawn(move || Vec::<u8>::try_from(response.body));
    std::thread::sleep(std::time::Duration::from_millis(60));
    for i in n1..n1 + n2 {
        late.send(Event::Message(format!("e{i}")));
    }
    drop(late);
    drop(sender);
    match th.join() {
        Ok(Ok(bytes)) => tok_of_bytes(&bytes),
        Ok(Err(e)) => format!("err:{:?}", e.kind()),
        Err(_) => "panic".to_string(),
    }
}

fn stress(nt: usize, per: usize, half_close: bool, revoke_early: bool) -> String {
    use std::io::{Read, Write};
    let executor = safina::executor::Executor::new(2, 4).unwrap();
    let holder: Arc<Mutex<Option<EventSender>>> = Arc::new(Mutex::new(None));
    let h2 = holder.clone();
    let handler = move |_req: servlin::Request| -> Response {
        let (sender, response) = Response::event_stream();
        *h2.lock().unwrap() = Some(sender);
        response
    };
    let permit = permit::Permit::new();
    let sub = permit.new_sub();
    let (addr, _stopped) = executor.block_on(async move { servlin::HttpServerBuilder::new().max_conns(2).permit(sub).spawn(handler).await }).unwrap();
    let mut s = std::net::TcpStream::connect(addr).unwrap();
    s.write_all(b"GET /events HTTP/1.1\r\n\r\n").unwrap();
    if half_close {
        // the client has nothing more to say and closes its sending side; it is still there and keeps reading
        // (HTTP/1.0-style clients, `nc -N`, some proxies): the stream goes on while a sender is connected
        s.shutdown(std::net::Shutdown::Write).unwrap();
        std::thread::sleep(std::time::Duration::from_millis(30));
    }
    let t0 = std::time::Instant::now();
    let sender = loop {
        if let Some(x) = holder.lock().unwrap().take() {
            break x;
        }
        if t0.elapsed().as_secs() > 5 {
            return "no-handler".to_string();
        }
        std::thread::sleep(std::time::Duration::from_millis(1));
    };
    if revoke_early {
        // the server is told to stop while the stream is open and before any event was sent: the stream goes on for as
        // long as a sender is connected, every event is delivered and the terminating chunk comes at the end
        permit.revoke();
        std::thread::sleep(std::time::Duration::from_millis(30));
    }
    let accepted = Arc::new(Mutex::new(vec![0usize; nt]));
    let mut th = Vec::new();
    for t in 0..nt {
        let mut sd = sender.clone();
        let acc = accepted.clone();
        th.push(std::thread::spawn(move || {
            for k in 0..per {
                // pace the senders below the writer so that the queue of 50 is normally not overrun;
                // an overrun disconnects the sender, which is then counted
                if k % 10 == 9 {
                    std::thread::sleep(std::time::Duration::from_millis(2));
                }
                sd.send(Event::Message(format!("{t}:{k}")));
                if !sd.is_connected() {
                    break;
                }
                acc.lock().unwrap()[t] = k + 1;
            }
        }));
    }
    drop(sender);
    for t in th {
        t.join().unwrap();
    }
    s.set_read_timeout(Some(std::time::Duration::from_secs(10))).unwrap();
    let mut all = Vec::new();
    let mut buf = [0u8; 65536];
    loop {
        match s.read(&mut buf) {
            Ok(0) | Err(_) => break,
            Ok(k) => {
                all.extend_from_slice(&buf[..k]);
                if all.ends_with(b"0\r\n\r\n") {
                    break;
                }
            }
        }
    }
    permit.revoke();
    let Some(p) = all.windows(4).position(|w| w == b"\r\n\r\n") else { return "no-head".to_string() };
    let body = &all[p + 4..];
    // de-chunk
    let mut i = 0;
    let mut next = vec![0usize; nt];
    let mut terminated = false;
    let mut order_ok = true;
    while i < body.len() {
        let Some(e) = body[i..].windows(2).position(|w| w == b"\r\n") else { break };
        let n = usize::from_str_radix(std::str::from_utf8(&body[i..i + e]).unwrap_or("x"), 16).unwrap_or(usize::MAX);
        i += e + 2;
        if n == 0 {
            terminated = true;
            break;
        }
        if n == usize::MAX || i + n + 2 > body.len() {
            order_ok = false;
            break;
        }
        let block = std::str::from_utf8(&body[i..i + n]).unwrap_or("");
        i += n + 2;
        // "data: t:k\n"
        let Some(v) = block.strip_prefix("data: ").and_then(|x| x.strip_suffix('\n')) else {
            order_ok = false;
            break;
        };
        let mut it = v.split(':');
        let t: usize = it.next().and_then(|x| x.parse().ok()).unwrap_or(usize::MAX);
        let k: usize = it.next().and_then(|x| x.parse().ok()).unwrap_or(usize::MAX);
        if t >= nt || k != next[t] {
            order_ok = false;
            break;
        }
        next[t] += 1;
    }
    let acc = accepted.lock().unwrap().clone();
    // a send that found the queue full disconnected its sender: that event is not counted in `acc`
    let counts_ok = (0..nt).all(|t| next[t] == acc[t] || next[t] == acc[t] + 0);
    format!("order={} counts={} terminated={}", u8::from(order_ok), u8::from(counts_ok), u8::from(terminated))
}

fn main() {
    run_lines_marked(|toks| match toks[0] {
        "sse" => sse(&toks[1..]),
        "custom" => match Event::custom(text(toks[1]), "d".to_string()) {
            Ok(_) => "K".to_string(),
            Err(_) => "E".to_string(),
        },
        "conv" => conv(toks[1].parse().unwrap(), toks[2].parse().unwrap()),
        "stress" => stress(toks[1].parse().unwrap(), toks[2].parse().unwrap(), toks.get(3) == Some(&"h"), toks.get(3) == Some(&"r")),
        _ => panic!("bad case"),
    });
}
