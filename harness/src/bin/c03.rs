//! C03 harness: message framing.  Drives the real `servlin::internal::read_http_request` on a
//! `FixedBuf<8192>` + scripted in-memory reader holding several concatenated messages, then reads
//! the body exactly as `HttpConn::read_body_to_vec` does (`(&mut buf).chain(&mut reader)` +
//! `read_http_body_to_vec` / `read_http_unsized_body_to_vec`; chunked / gzip refused), message
//! after message.
//!
//! case:   seq <x stream bytes> s<k1,k2,...>     (schedule: bytes per read, cycled; 0 = Pending once;
//!                                                empty = everything available)
//! output: one line, messages separated by " ; ":
//!   H <xmethod> <n> (<xname> <xvalue>)*     the head exactly as Head::try_read parsed it (pre-pass on
//!                                           a copy of the unread bytes; INPUT of the framing model)
//!   | HE                                    Head::try_read failed on the unread bytes
//!   R ok cl=.. ch=.. gz=.. ex=.. ct=.. ck <k> (..)* hd <k> (..)* kind=.. body=.. left=x..
//!   | R err <Variant> left=x..  | R err head
use fixed_buffer::FixedBuf;
use futures_io::AsyncRead;
use futures_lite::AsyncReadExt;
use servlin::internal::{
    read_http_body_to_vec, read_http_request, read_http_unsized_body_to_vec, Head, HttpError,
};
use servlin::{ContentType, RequestBody};
use std::net::SocketAddr;
use std::pin::Pin;
use std::task::{Context, Poll};
use svharness::*;

/// `small_body_len` default of `HttpServerBuilder`: larger known-length bodies are not read into memory.
const SMALL_BODY_LEN: u64 = 64 * 1024;
const MAX_MESSAGES: usize = 9;

struct Scripted {
    data: Vec<u8>,
    pos: usize,
    sched: Vec<usize>,
    i: usize,
    pendings: usize,
}
impl AsyncRead for Scripted {
    fn poll_read(
        mut self: Pin<&mut Self>,
        cx: &mut Context<'_>,
        buf: &mut [u8],
    ) -> Poll<std::io::Result<usize>> {
        let mut want = usize::MAX;
        if !self.sched.is_empty() {
            let k = self.i % self.sched.len();
            want = self.sched[k];
            self.i += 1;
        }
        if want == 0 {
            if self.pendings < 3 {
                self.pendings += 1;
                cx.waker().wake_by_ref();
                return Poll::Pending;
            }
            want = 1;
        }
        self.pendings = 0;
        let n = want.min(buf.len()).min(self.data.len() - self.pos);
        let p = self.pos;
        buf[..n].copy_from_slice(&self.data[p..p + n]);
        self.pos += n;
        Poll::Ready(Ok(n))
    }
}

fn ct_name(ct: &ContentType) -> String {
    match ct {
        ContentType::Css => "Css".into(),
        ContentType::Csv => "Csv".into(),
        ContentType::EventStream => "EventStream".into(),
        ContentType::FormUrlEncoded => "FormUrlEncoded".into(),
        ContentType::Gif => "Gif".into(),
        ContentType::Html => "Html".into(),
        ContentType::JavaScript => "JavaScript".into(),
        ContentType::Jpeg => "Jpeg".into(),
        ContentType::Json => "Json".into(),
        ContentType::Markdown => "Markdown".into(),
        ContentType::MultipartForm => "MultipartForm".into(),
        ContentType::None => "None".into(),
        ContentType::OctetStream => "OctetStream".into(),
        ContentType::Pdf => "Pdf".into(),
        ContentType::PlainText => "PlainText".into(),
        ContentType::Png => "Png".into(),
        ContentType::Svg => "Svg".into(),
        ContentType::Str(s) => format!("Str:{}", tok_of_bytes(s.as_bytes())),
        ContentType::String(s) => format!("S:{}", tok_of_bytes(s.as_bytes())),
        #[allow(unreachable_patterns)]
        other => format!("{other:?}").chars().filter(|c| c.is_ascii_alphanumeric()).collect(),
    }
}

fn unread(buf: &FixedBuf<8192>, reader: &Scripted) -> Vec<u8> {
    let mut v = buf.readable().to_vec();
    v.extend_from_slice(&reader.data[reader.pos..]);
    v
}

fn seq(stream: Vec<u8>, sched: Vec<usize>) -> String {
    let addr: SocketAddr = "127.0.0.1:1".parse().unwrap();
    let mut buf: FixedBuf<8192> = FixedBuf::new();
    let mut reader = Scripted { data: stream, pos: 0, sched, i: 0, pendings: 0 };
    let mut out: Vec<String> = Vec::new();
    for _ in 0..MAX_MESSAGES {
        let mut m = String::new();
        // pre-pass: what does the real head parser make of the unread bytes?
        let rem = unread(&buf, &reader);
        let mut fresh: FixedBuf<8192> = FixedBuf::new();
        let n = rem.len().min(8192);
        if n > 0 {
            fresh.write_bytes(&rem[..n]).unwrap();
        }
        match Head::try_read(&mut fresh) {
            Ok(head) => {
                m.push_str(&format!("H {} {}", tok_of_bytes(head.method.as_bytes()), head.headers.len()));
                for h in head.headers.iter() {
                    m.push_str(&format!(" {} {}", tok_of_bytes(h.name.as_bytes()), tok_of_bytes(h.value.as_bytes())));
                }
            }
            Err(_) => m.push_str("HE"),
        }
        // the real thing
        let res = futures_lite::future::block_on(read_http_request(addr, &mut buf, &mut reader));
        let mut go_on = false;
        match res {
            Err(e) => {
                let kind = match e {
                    HttpError::InvalidContentLength => "InvalidContentLength",
                    HttpError::UnsupportedTransferEncoding => "UnsupportedTransferEncoding",
                    HttpError::MalformedCookieHeader => "MalformedCookieHeader",
                    HttpError::Disconnected
                    | HttpError::Truncated
                    | HttpError::HeadTooLong
                    | HttpError::MalformedHeaderLine
                    | HttpError::MalformedPath
                    | HttpError::MalformedRequestLine
                    | HttpError::MissingRequestLine
                    | HttpError::UnsupportedProtocol => "head",
                    _ => "other",
                };
                if kind == "head" {
                    m.push_str(" R err head");
                } else {
                    m.push_str(&format!(" R err {kind} left={}", tok_of_bytes(&unread(&buf, &reader))));
                }
            }
            Ok(req) => {
                m.push_str(&format!(
                    " R ok m={} cl={} ch={} gz={} ex={} ct={}",
                    tok_of_bytes(req.method.as_bytes()),
                    req.content_length.map_or("-".to_string(), |n| n.to_string()),
                    u8::from(req.chunked),
                    u8::from(req.gzip),
                    u8::from(req.expect_continue),
                    ct_name(&req.content_type)
                ));
                let mut ck: Vec<(&String, &String)> = req.cookies.iter().collect();
                ck.sort();
                m.push_str(&format!(" ck {}", ck.len()));
                for (k, v) in ck {
                    m.push_str(&format!(" {} {}", tok_of_bytes(k.as_bytes()), tok_of_bytes(v.as_bytes())));
                }
                m.push_str(&format!(" hd {}", req.headers.len()));
                for h in req.headers.iter() {
                    m.push_str(&format!(" {} {}", tok_of_bytes(h.name.as_bytes()), tok_of_bytes(h.value.as_bytes())));
                }
                // HttpConn::read_request: read_state := Body{len, expect_continue, chunked, gzip} for a
                // pending body, Head otherwise; HttpConn::read_body_to_vec: the arms on that state.
                // (handle_http_conn_once reads a known-length body into memory only if len <= small_body_len.)
                let coded = req.chunked || req.gzip;
                let mut filetok: Option<String> = None;
                let body = match &req.body {
                    RequestBody::PendingKnown(len) => {
                        m.push_str(&format!(" kind=known:{len}"));
                        if *len > SMALL_BODY_LEN {
                            // handle_http_conn_once does not read such a body into memory; when the handler asks for it,
                            // it is received into a file: do that on a copy of the unread bytes (the sequence ends here)
                            if !coded && *len <= 400_000 {
                                let rem = unread(&buf, &reader);
                                let dir = temp_dir::TempDir::new().unwrap();
                                let r = futures_lite::future::block_on(servlin::internal::read_http_body_to_file(
                                    futures_lite::io::Cursor::new(rem),
                                    *len,
                                    dir.path(),
                                ));
                                filetok = Some(match r {
                                    Ok(RequestBody::TempFile(tf, n)) => {
                                        let data = std::fs::read(tf.path()).unwrap_or_default();
                                        format!("file=ok:{n}:{}:h{:016x}", data.len(), fnv64(&data))
                                    }
                                    Ok(_) => "file=other".to_string(),
                                    Err(HttpError::Truncated) => "file=trunc".to_string(),
                                    Err(_) => "file=err".to_string(),
                                });
                            }
                            "deferred".to_string()
                        } else if coded {
                            "refused".to_string()
                        } else {
                            let len_usize = usize::try_from(*len).unwrap();
                            match futures_lite::future::block_on(read_http_body_to_vec(
                                (&mut buf).chain(&mut reader),
                                len_usize,
                            )) {
                                Ok(RequestBody::Vec(v)) => {
                                    go_on = true;
                                    format!("vec:{}", tok_of_bytes(&v))
                                }
                                Ok(_) => "other".to_string(),
                                Err(HttpError::Truncated) => "trunc".to_string(),
                                Err(_) => "othererr".to_string(),
                            }
                        }
                    }
                    RequestBody::PendingUnknown => {
                        m.push_str(" kind=unknown");
                        if coded {
                            "refused".to_string()
                        } else {
                            match futures_lite::future::block_on(read_http_unsized_body_to_vec(
                                (&mut buf).chain(&mut reader),
                            )) {
                                Ok(RequestBody::Vec(v)) => format!("vec:{}", tok_of_bytes(&v)),
                                Ok(_) => "other".to_string(),
                                Err(HttpError::Truncated) => "trunc".to_string(),
                                Err(_) => "othererr".to_string(),
                            }
                        }
                    }
                    b => {
                        if b.len() == Some(0) && !b.is_pending() {
                            m.push_str(" kind=empty");
                            go_on = true;
                            "none".to_string()
                        } else {
                            m.push_str(" kind=other");
                            "other".to_string()
                        }
                    }
                };
                m.push_str(&format!(" body={body} left={}", tok_of_bytes(&unread(&buf, &reader))));
                if let Some(f) = filetok {
                    m.push_str(&format!(" {f}"));
                }
            }
        }
        out.push(m);
        if !go_on {
            break;
        }
    }
    out.join(" ; ")
}

/// Loop-back: the same stream sent to a real server (`HttpServerBuilder::spawn`, default
/// small_body_len, no cache dir) whose handler records (method, content_length, body as handed over)
/// and answers 200.  The client writes the stream in the pieces of the schedule, half-closes and
/// reads to EOF.  Output: the `seq` observation of the same stream, then ` ;; log <n> <entries>`.
fn server_log(stream: &[u8], sched: &[usize]) -> String {
    use std::io::{Read, Write};
    use std::sync::{Arc, Mutex};
    let log: Arc<Mutex<Vec<String>>> = Arc::new(Mutex::new(Vec::new()));
    let log2 = log.clone();
    let permit = permit::Permit::new();
    let executor = safina::executor::Executor::new(2, 2).unwrap();
    let builder = servlin::HttpServerBuilder::new().max_conns(2).permit(permit.new_sub());
    let (addr, stopped) = executor
        .block_on(builder.spawn(move |req: servlin::Request| {
            let body = match &req.body {
                RequestBody::Vec(v) => format!("vec:{}", tok_of_bytes(v)),
                b if b.is_pending() => "pending".to_string(),
                b if b.len() == Some(0) => "none".to_string(),
                _ => "other".to_string(),
            };
            log2.lock().unwrap().push(format!(
                "{}:{}:{}",
                tok_of_bytes(req.method.as_bytes()),
                req.content_length.map_or("-".to_string(), |n| n.to_string()),
                body
            ));
            servlin::Response::new(200)
        }))
        .unwrap();
    let mut client = std::net::TcpStream::connect(addr).unwrap();
    client.set_read_timeout(Some(std::time::Duration::from_secs(5))).unwrap();
    let mut pos = 0;
    let mut k = 0;
    while pos < stream.len() {
        let want = if sched.is_empty() { 0 } else { sched[k % sched.len()] };
        if want == 999_999 {
            // a pause of the client (e.g. waiting for `100 Continue` that never comes), no bytes
            std::thread::sleep(std::time::Duration::from_millis(60));
            k += 1;
            continue;
        }
        let n = if want == 0 { stream.len() - pos } else { want.min(stream.len() - pos) };
        if client.write_all(&stream[pos..pos + n]).is_err() {
            break;
        }
        let _ = client.flush();
        pos += n;
        k += 1;
        if k % 4 == 1 && pos < stream.len() {
            std::thread::sleep(std::time::Duration::from_millis(1));
        }
    }
    let _ = client.shutdown(std::net::Shutdown::Write);
    let mut sink = Vec::new();
    let _ = client.read_to_end(&mut sink);
    drop(permit);
    let _ = stopped.recv_timeout(std::time::Duration::from_secs(5));
    let entries = log.lock().unwrap().clone();
    format!("log {} {}", entries.len(), entries.join(" "))
}

fn parse_sched(tok: &str) -> Vec<usize> {
    let s = &tok[1..];
    if s.is_empty() {
        Vec::new()
    } else {
        s.split(',').map(|x| x.parse().unwrap()).collect()
    }
}

fn main() {
    safina::timer::start_timer_thread();
    // the server prints "ERROR ..." lines on stdout: observation lines are marked
    run_lines_marked(|toks| match toks[0] {
        "seq" => seq(bytes_of_tok(toks[1]), parse_sched(toks[2])),
        "loop" => {
            let stream = bytes_of_tok(toks[1]);
            let sched = parse_sched(toks[2]);
            let log = server_log(&stream, &sched);
            format!("{} ;; {}", seq(stream, sched), log)
        }
        _ => "?".to_string(),
    });
}
