//! C20 harness: status-named constructors, HttpError -> Response mapping, close marking of 5xx.
use servlin::internal::{HttpConn, HttpError, ResponseKind, WriteState};
use servlin::Response;
use std::io::{ErrorKind, Read};
use svharness::*;

fn ctor(name: &str, arg: Option<&str>) -> Option<Response> {
    // constructors that take a text: the case may name it (any ASCII text, control characters included)
    let text = arg.unwrap_or("/x");
    Some(match name {
        "ok_200" => Response::ok_200(),
        "no_content_204" => Response::no_content_204(),
        "redirect_301" => Response::redirect_301(text),
        "redirect_303" => Response::redirect_303(text),
        "unauthorized_401" => Response::unauthorized_401(),
        "forbidden_403" => Response::forbidden_403(),
        "not_found_404" => Response::not_found_404(),
        "method_not_allowed_405" => Response::method_not_allowed_405(&["GET"]),
        "length_required_411" => Response::length_required_411(),
        "payload_too_large_413" => Response::payload_too_large_413(),
        "unprocessable_entity_422" => Response::unprocessable_entity_422(arg.unwrap_or("x")),
        "too_many_requests_429" => Response::too_many_requests_429(),
        "internal_server_error_500" => Response::internal_server_error_500(),
        "not_implemented_501" => Response::not_implemented_501(),
        "service_unavailable_503" => Response::service_unavailable_503(),
        _ => return None,
    })
}

const KINDS: [ErrorKind; 39] = [
    ErrorKind::NotFound,
    ErrorKind::PermissionDenied,
    ErrorKind::InvalidData,
    ErrorKind::UnexpectedEof,
    ErrorKind::Other,
    ErrorKind::ConnectionRefused,
    ErrorKind::ConnectionReset,
    ErrorKind::ConnectionAborted,
    ErrorKind::NotConnected,
    ErrorKind::AddrInUse,
    ErrorKind::AddrNotAvailable,
    ErrorKind::BrokenPipe,
    ErrorKind::AlreadyExists,
    ErrorKind::WouldBlock,
    ErrorKind::InvalidInput,
    ErrorKind::TimedOut,
    ErrorKind::WriteZero,
    ErrorKind::Interrupted,
    ErrorKind::Unsupported,
    ErrorKind::OutOfMemory,
    ErrorKind::StorageFull,
    ErrorKind::QuotaExceeded,
    ErrorKind::FileTooLarge,
    ErrorKind::ReadOnlyFilesystem,
    ErrorKind::DirectoryNotEmpty,
    ErrorKind::IsADirectory,
    ErrorKind::NotADirectory,
    ErrorKind::ResourceBusy,
    ErrorKind::Deadlock,
    ErrorKind::TooManyLinks,
    ErrorKind::InvalidFilename,
    ErrorKind::ArgumentListTooLong,
    ErrorKind::HostUnreachable,
    ErrorKind::NetworkUnreachable,
    ErrorKind::NetworkDown,
    ErrorKind::NotSeekable,
    ErrorKind::StaleNetworkFileHandle,
    ErrorKind::CrossesDevices,
    ErrorKind::ExecutableFileBusy,
];

fn err_value(name: &str, kind: ErrorKind, text: String) -> Option<HttpError> {
    Some(match name {
        "AlreadyGotBody" => HttpError::AlreadyGotBody,
        "BodyNotAvailable" => HttpError::BodyNotAvailable,
        "BodyNotRead" => HttpError::BodyNotRead,
        "BodyNotUtf8" => HttpError::BodyNotUtf8,
        "BodyTooLong" => HttpError::BodyTooLong,
        "CacheDirNotConfigured" => HttpError::CacheDirNotConfigured,
        "Disconnected" => HttpError::Disconnected,
        "DuplicateContentLengthHeader" => HttpError::DuplicateContentLengthHeader,
        "DuplicateContentTypeHeader" => HttpError::DuplicateContentTypeHeader,
        "DuplicateTransferEncodingHeader" => HttpError::DuplicateTransferEncodingHeader,
        "ErrorReadingFile" => HttpError::ErrorReadingFile(kind, text),
        "ErrorReadingResponseBody" => HttpError::ErrorReadingResponseBody(kind, text),
        "ErrorSavingFile" => HttpError::ErrorSavingFile(kind, text),
        "HandlerDeadlineExceeded" => HttpError::HandlerDeadlineExceeded,
        "HeadTooLong" => HttpError::HeadTooLong,
        "InvalidContentLength" => HttpError::InvalidContentLength,
        "MalformedCookieHeader" => HttpError::MalformedCookieHeader,
        "MalformedHeaderLine" => HttpError::MalformedHeaderLine,
        "MalformedPath" => HttpError::MalformedPath,
        "MalformedRequestLine" => HttpError::MalformedRequestLine,
        "MissingRequestLine" => HttpError::MissingRequestLine,
        "ResponseAlreadySent" => HttpError::ResponseAlreadySent,
        "ResponseNotSent" => HttpError::ResponseNotSent,
        "TimerThreadNotStarted" => HttpError::TimerThreadNotStarted,
        "Truncated" => HttpError::Truncated,
        "UnsupportedProtocol" => HttpError::UnsupportedProtocol,
        "UnsupportedTransferEncoding" => HttpError::UnsupportedTransferEncoding,
        "UnwritableResponse" => HttpError::UnwritableResponse,
        _ => return None,
    })
}

fn body_bytes(r: Response) -> Vec<u8> {
    Vec::<u8>::try_from(r.body).unwrap()
}

fn conn_case(code: u16, headers: &[&str]) -> String {
    let listener = std::net::TcpListener::bind("127.0.0.1:0").unwrap();
    let addr = listener.local_addr().unwrap();
    let mut client = std::net::TcpStream::connect(addr).unwrap();
    let (server_std, peer) = listener.accept().unwrap();
    let stream = async_net::TcpStream::try_from(server_std).unwrap();
    let mut conn = HttpConn::new(peer, stream);
    conn.write_state = WriteState::Response;
    let mut resp = Response::new(code);
    for nv in headers.chunks(2) {
        let value: servlin::AsciiString = ascii_of_tok(nv[1]).try_into().unwrap();
        resp = resp.with_header(ascii_of_tok(nv[0]), value);
    }
    let res = futures_lite::future::block_on(conn.write_response(&resp));
    if res.is_err() {
        return format!("write-error");
    }
    let shut_state = conn.write_state == WriteState::Shutdown;
    client.set_read_timeout(Some(std::time::Duration::from_secs(3))).unwrap();
    let mut data = Vec::new();
    let mut eof = false;
    let mut buf = [0u8; 4096];
    loop {
        if !shut_state && data.windows(4).any(|w| w == b"\r\n\r\n") {
            break;
        }
        match client.read(&mut buf) {
            Ok(0) => {
                eof = true;
                break;
            }
            Ok(n) => data.extend_from_slice(&buf[..n]),
            Err(_) => break,
        }
    }
    let text = String::from_utf8_lossy(&data).to_string();
    let status: String = text.split(' ').nth(1).unwrap_or("?").to_string();
    let has_close = text
        .split("\r\n")
        .skip(1)
        .any(|l| l.eq_ignore_ascii_case("connection: close"));
    format!("{status} {} {}", u8::from(has_close), u8::from(shut_state && eof))
}

/// reqconn <variant> <bytes>: the bytes are a client's whole input (then half-close); the server side runs
/// handle_http_conn with a handler answering 200; what the error path of the connection loop sent:
/// `<status> <marked connection: close> <write side shut and EOF seen>`
fn reqconn_case(bytes: &[u8]) -> String {
    use std::io::Write;
    let listener = std::net::TcpListener::bind("127.0.0.1:0").unwrap();
    let addr = listener.local_addr().unwrap();
    let mut client = std::net::TcpStream::connect(addr).unwrap();
    let (server_std, peer) = listener.accept().unwrap();
    client.write_all(bytes).unwrap();
    client.shutdown(std::net::Shutdown::Write).unwrap();
    let reader = {
        let mut c = client.try_clone().unwrap();
        std::thread::spawn(move || {
            c.set_read_timeout(Some(std::time::Duration::from_secs(3))).unwrap();
            let mut data = Vec::new();
            let mut buf = [0u8; 4096];
            let mut eof = false;
            loop {
                match c.read(&mut buf) {
                    Ok(0) => {
                        eof = true;
                        break;
                    }
                    Ok(n) => data.extend_from_slice(&buf[..n]),
                    Err(e) if e.kind() == std::io::ErrorKind::ConnectionReset => {
                        eof = true;
                        break;
                    }
                    Err(_) => break,
                }
            }
            (data, eof)
        })
    };
    let stream = async_net::TcpStream::try_from(server_std).unwrap();
    let conn = HttpConn::new(peer, stream);
    let permit = permit::Permit::new();
    futures_lite::future::block_on(servlin::internal::handle_http_conn(
        permit.new_sub(),
        servlin::internal::Token::new(),
        conn,
        None,
        65536,
        |_req: servlin::Request| async { Response::new(200) },
    ));
    let (data, eof) = reader.join().unwrap();
    let text = String::from_utf8_lossy(&data).to_string();
    if text.is_empty() {
        return format!("none 0 {}", u8::from(eof));
    }
    let status: String = text.split(' ').nth(1).unwrap_or("?").to_string();
    let head = text.split("\r\n\r\n").next().unwrap_or("");
    let has_close = head.split("\r\n").skip(1).any(|l| l.eq_ignore_ascii_case("connection: close"));
    format!("{status} {} {}", u8::from(has_close), u8::from(eof))
}

fn main() {
    run_lines_marked(|toks| match toks[0] {
        "ctor" => match ctor(&ascii_of_tok(toks[1]), toks.get(2).map(|t| ascii_of_tok(t)).as_deref()) {
            None => "unknown".to_string(),
            Some(r) => format!("K {} {}", r.code, u8::from(r.kind == ResponseKind::Normal)),
        },
        "err" => {
            let name = ascii_of_tok(toks[1]);
            let kind = KINDS[toks[2].parse::<usize>().unwrap()];
            let text = String::from_utf8(bytes_of_tok(toks[3])).unwrap();
            match err_value(&name, kind, text) {
                None => "unknown".to_string(),
                Some(e) => {
                    let server = e.is_server_error();
                    let desc = e.description();
                    let r: Response = e.into();
                    let head = match r.kind {
                        ResponseKind::DropConnection => "D".to_string(),
                        ResponseKind::Normal => {
                            let code = r.code;
                            format!("T {} {}", code, tok_of_bytes(&body_bytes(r)))
                        }
                        ResponseKind::GetBodyAndReprocess(_) => "G".to_string(),
                    };
                    format!("{head} S{} {}", u8::from(server), tok_of_bytes(desc.as_bytes()))
                }
            }
        }
        "conn" => conn_case(toks[1].parse().unwrap(), &toks[2..]),
        "reqconn" => reqconn_case(&bytes_of_tok(toks[2])),
        _ => "?".to_string(),
    });
}
