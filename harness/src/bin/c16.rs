//! C16 harness: drives servlin::internal::DateTime::new, `DateTime + Duration` and
//! FormatTime::iso8601_utc on SystemTime.  No calendar arithmetic of its own: every date printed
//! here comes out of the library.
use servlin::internal::{DateTime, FormatTime};
use std::time::{Duration, SystemTime};
use svharness::*;

const SODS: [u64; 7] = [0, 1, 59, 60, 3599, 3600, 86399];

fn pr_dt(dt: &DateTime) -> String {
    format!("dt {} {} {} {} {} {}", dt.year, dt.month, dt.day, dt.hour, dt.min, dt.sec)
}

/// The text of an instant must not depend on what was converted before it on the same thread: before every
/// conversion another instant is converted -- of a later day, an earlier day or the next day, by s mod 3 -- and the
/// result thrown away.
fn iso(s: u64) -> String {
    let far = 86400 * (1 + s % 400);
    let other = match s % 3 {
        0 if s + far < 253_402_300_800 => s + far,
        1 => s.saturating_sub(far),
        _ => if s + 86400 < 253_402_300_800 { s + 86400 } else { s - 86400 },
    };
    let _ = (SystemTime::UNIX_EPOCH + Duration::from_secs(other)).iso8601_utc();
    (SystemTime::UNIX_EPOCH + Duration::from_secs(s)).iso8601_utc()
}

fn instant(s: u64) -> String {
    let dt = DateTime::new(i64::try_from(s).unwrap());
    format!("{} iso {}", pr_dt(&dt), iso(s))
}

/// logt <s>:<y>:<m>:<d> ... : events with these instants go through the library's `log` function to a channel
/// logger and are rendered with LogEvent::write_jsonl in the order given, on one thread; prints the `time`
/// member of every line (the rendering clause of C16 for log lines, whatever was rendered before)
fn logt(toks: &[&str]) -> String {
    use servlin::log::internal::{log, LogEvent};
    use servlin::log::{set_global_logger, Level};
    let (tx, rx) = std::sync::mpsc::sync_channel::<LogEvent>(toks.len() + 1);
    let Ok(guard) = set_global_logger(tx) else { return "logger-already-set".to_string() };
    for t in toks {
        let s: u64 = t.split(':').next().unwrap().parse().unwrap();
        if log(SystemTime::UNIX_EPOCH + Duration::from_secs(s), Level::Info, ()).is_err() {
            return "logger-stopped".to_string();
        }
    }
    drop(guard);
    let mut out = Vec::new();
    for ev in rx {
        let mut line = Vec::new();
        ev.write_jsonl(&mut line).unwrap();
        let text = String::from_utf8_lossy(&line).to_string();
        let v = text.split("\"time\":\"").nth(1).and_then(|r| r.split('"').next()).unwrap_or("?").to_string();
        out.push(v);
    }
    out.join(" ")
}

/// par <s1> <s2> <rounds>: two threads convert instants of two different days (s1 + i and s2 + i) at the same time, as
/// the logger stamping "now" and a handler rendering a far expiry date do; every text is compared with the one the
/// same call gives afterwards on one thread.  observation: par bad=<number of texts that differ>
fn par(s1: u64, s2: u64, rounds: u64) -> String {
    let work = move |base: u64| -> Vec<String> { (0..rounds).map(|i| iso(base + i % 7)).collect() };
    let barrier = std::sync::Arc::new(std::sync::Barrier::new(2));
    let b2 = barrier.clone();
    let t = std::thread::spawn(move || {
        b2.wait();
        work(s2)
    });
    barrier.wait();
    let r1 = work(s1);
    let r2 = t.join().unwrap_or_default();
    let mut bad = 0;
    for (base, got) in [(s1, r1), (s2, r2)] {
        for (i, g) in got.iter().enumerate() {
            if *g != iso(base + (i as u64) % 7) {
                bad += 1;
            }
        }
    }
    format!("par bad={bad}")
}

fn main() {
    run_lines(|toks| match toks[0] {
        "par" => par(toks[1].parse().unwrap(), toks[2].parse().unwrap(), toks[3].parse().unwrap()),
        "logt" => logt(&toks[1..]),
        "new" => instant(toks[1].parse::<u64>().unwrap()),
        "day" => {
            let k = toks[1].parse::<u64>().unwrap();
            let parts: Vec<String> = SODS.iter().map(|sod| instant(k * 86400 + sod)).collect();
            parts.join(" ; ")
        }
        "walk" => {
            let k = toks[1].parse::<u64>().unwrap();
            let n = toks[5].parse::<u64>().unwrap();
            let mut out = String::with_capacity((n as usize) * 150);
            for day in k..k + n {
                for sod in SODS {
                    if !out.is_empty() {
                        out.push(' ');
                    }
                    out.push_str(&iso(day * 86400 + sod));
                }
            }
            out
        }
        "secs" => {
            let s0 = toks[1].parse::<u64>().unwrap();
            let n = toks[2].parse::<u64>().unwrap();
            let mut out = String::with_capacity((n as usize) * 21);
            for s in s0..s0 + n {
                if !out.is_empty() {
                    out.push(' ');
                }
                out.push_str(&iso(s));
            }
            out
        }
        "add" => {
            let f: Vec<i64> = toks[1..7].iter().map(|t| t.parse::<i64>().unwrap()).collect();
            let secs = toks[7].parse::<u64>().unwrap();
            let r = std::panic::catch_unwind(|| {
                let dt = DateTime { year: f[0], month: f[1], day: f[2], hour: f[3], min: f[4], sec: f[5] };
                dt + Duration::from_secs(secs)
            });
            match r {
                Ok(dt) => pr_dt(&dt),
                Err(_) => "panic".to_string(),
            }
        }
        _ => "?".to_string(),
    });
}
