//! C04 / C09 / C10 harness: drives servlin::internal::handle_http_conn (mode D, deterministic: the
//! client has written its whole script and half-closed) and a full HttpServerBuilder server
//! (mode S: real executor + blocking pool, client delivery schedules, handler panics).
use permit::Permit;
use servlin::internal::{handle_http_conn, HttpConn, Token};
use servlin::{HttpServerBuilder, Request, RequestBody, Response};
use std::io::{Read, Write};
use std::path::PathBuf;
use std::sync::{Arc, Mutex};
use svharness::*;

fn view(req: &Request) -> String {
    match &req.body {
        RequestBody::PendingKnown(n) => format!("K{n}"),
        RequestBody::PendingUnknown => "U".to_string(),
        RequestBody::Vec(v) => format!("M{}", digest_tok(v)),
        RequestBody::TempFile(..) | RequestBody::File(..) => {
            let mut data = Vec::new();
            req.body.reader().unwrap().read_to_end(&mut data).unwrap();
            format!("F{}", digest_tok(&data))
        }
        other => {
            if other.len() == Some(0) {
                "E".to_string()
            } else {
                format!("O{other:?}")
            }
        }
    }
}

/// The scripted application handler, keyed by the request path.
fn scripted(req: Request, log: &Mutex<Vec<String>>) -> Response {
    let path = req.url.path().to_string();
    let v = view(&req);
    log.lock().unwrap().push(format!("{}:{}", tok_of_bytes(path.as_bytes()), v));
    let num = |s: &str| -> u64 { s.parse().unwrap_or(0) };
    if let Some(c) = path.strip_prefix("/n") {
        Response::text(num(c) as u16, v)
    } else if let Some(c) = path.strip_prefix("/e") {
        Response::new(num(c) as u16)
    } else if let Some(ms) = path.strip_prefix("/gw") {
        // fetch the body, then take a while over it (holding the received body all the time)
        if req.body.is_pending() {
            Response::get_body_and_reprocess(1_000_000)
        } else {
            std::thread::sleep(std::time::Duration::from_millis(num(ms)));
            Response::text(200, v)
        }
    } else if let Some(m) = path.strip_prefix("/gd") {
        if req.body.is_pending() {
            Response::get_body_and_reprocess(num(m))
        } else {
            Response::drop_connection()
        }
    } else if let Some(m) = path.strip_prefix("/gg") {
        Response::get_body_and_reprocess(num(m))
    } else if let Some(m) = path.strip_prefix("/gv") {
        // like /g, but the handler takes the received body through the conversion impl (Vec::<u8>::try_from,
        // which String::try_from uses too) instead of a reader: the same bytes
        if req.body.is_pending() {
            Response::get_body_and_reprocess(num(m))
        } else {
            match Vec::<u8>::try_from(req.body) {
                Ok(data) if (v == "E" && data.is_empty()) || (v.len() > 1 && v[1..] == digest_tok(&data)) => Response::text(200, v),
                Ok(data) => Response::text(500, format!("conversion gives {} bytes: not what the reader gave", data.len())),
                Err(e) => Response::text(500, format!("conversion failed: {:?}", e.kind())),
            }
        }
    } else if let Some(m) = path.strip_prefix("/g5") {
        // fetch the body, then answer 500
        if req.body.is_pending() {
            Response::get_body_and_reprocess(num(m))
        } else {
            Response::text(500, v)
        }
    } else if let Some(m) = path.strip_prefix("/g") {
        if req.body.is_pending() {
            Response::get_body_and_reprocess(num(m))
        } else {
            Response::text(200, v)
        }
    } else if let Some(m) = path.strip_prefix("/r") {
        match req.recv_body(num(m)) {
            Ok(req) => Response::text(200, view(&req)),
            Err(resp) => resp,
        }
    } else if let Some(k) = path.strip_prefix("/fs") {
        // a file body declared as 10 bytes whose file holds only k < 10: the response fails after its head
        // (and k body bytes) went out; the directory is leaked on purpose (the file must outlive the handler)
        let dir = Box::leak(Box::new(temp_dir::TempDir::new().unwrap()));
        let p = dir.child("body");
        std::fs::write(&p, &b"0123456789"[..(num(k) as usize).min(10)]).unwrap();
        let mut r = Response::new(200);
        r.body = servlin::internal::ResponseBody::File(p, 10);
        r
    } else if let Some(k) = path.strip_prefix("/fl") {
        // a file body declared as 10 bytes whose file holds 10 + k: exactly the declared 10 go out and the
        // connection carries on (serving a prefix of a file; a log file that grew since its length was taken)
        let dir = Box::leak(Box::new(temp_dir::TempDir::new().unwrap()));
        let p = dir.child("body");
        let mut data = b"0123456789".to_vec();
        data.extend(std::iter::repeat(b'Z').take(num(k) as usize));
        std::fs::write(&p, &data).unwrap();
        let mut r = Response::new(200);
        r.body = servlin::internal::ResponseBody::File(p, 10);
        r
    } else if path == "/fm" {
        // a file body whose file does not exist: the head goes out, then opening fails
        let mut r = Response::new(200);
        r.body = servlin::internal::ResponseBody::File(PathBuf::from("/nonexistent-dir-servlin-verif/body"), 10);
        r
    } else if let Some(ms) = path.strip_prefix("/w") {
        // a handler that takes a while
        std::thread::sleep(std::time::Duration::from_millis(num(ms)));
        Response::text(200, v)
    } else if path == "/d" {
        Response::drop_connection()
    } else if path == "/p" {
        panic!("scripted handler panic")
    } else {
        Response::text(404, v)
    }
}

fn cache_dir(kind: &str, tmp: &temp_dir::TempDir) -> Option<PathBuf> {
    match kind {
        "-" => None,
        "ok" => Some(tmp.path().to_path_buf()),
        "missing" => Some(PathBuf::from("/nonexistent-dir-servlin-verif")),
        _ => panic!("bad cache kind"),
    }
}

static RESET_SEEN: std::sync::atomic::AtomicBool = std::sync::atomic::AtomicBool::new(false);
fn reset_mark() -> &'static str {
    if RESET_SEEN.swap(false, std::sync::atomic::Ordering::SeqCst) {
        " reset=1"
    } else {
        ""
    }
}

/// extra patience for scripts with slow handlers (/w<ms> with ms >= 4000): set per case by the S-mode runner
static EXTRA_WAIT_MS: std::sync::atomic::AtomicU64 = std::sync::atomic::AtomicU64::new(0);

fn read_all(client: &mut std::net::TcpStream) -> Vec<u8> {
    let extra = EXTRA_WAIT_MS.load(std::sync::atomic::Ordering::SeqCst);
    client.set_read_timeout(Some(std::time::Duration::from_millis(5000 + extra))).unwrap();
    let mut out = Vec::new();
    let mut buf = [0u8; 65536];
    loop {
        match client.read(&mut buf) {
            Ok(0) => break,
            Ok(n) => out.extend_from_slice(&buf[..n]),
            // the server closed with unread data in its receive queue: the kernel answers RST, and the client
            // may lose response bytes it had not read yet (TCP behaviour, not the library's): mark the transcript
            Err(e) if e.kind() == std::io::ErrorKind::ConnectionReset => {
                RESET_SEEN.store(true, std::sync::atomic::Ordering::SeqCst);
                break;
            }
            Err(_) => {
                out.extend_from_slice(b"<TIMEOUT>");
                break;
            }
        }
    }
    out
}

extern "C" {
    fn getrlimit(resource: i32, rlim: *mut [u64; 2]) -> i32;
    fn setrlimit(resource: i32, rlim: *const [u64; 2]) -> i32;
    fn signal(signum: i32, handler: usize) -> usize;
    fn dup(fd: i32) -> i32;
    fn dup2(a: i32, b: i32) -> i32;
    fn close(fd: i32) -> i32;
}
const RLIMIT_FSIZE: i32 = 1;
const SIGXFSZ: i32 = 25;
const SIG_IGN: usize = 1;

/// Mode X: like D, with a disk write fault: while the connection is handled no file of this process may grow
/// beyond `limit` bytes (RLIMIT_FSIZE with SIGXFSZ ignored: the write fails with EFBIG, as on a full disk)
fn direct_fsize(toks: &[&str]) -> String {
    let limit: u64 = toks[2].parse().unwrap();
    let mut old = [0u64; 2];
    unsafe {
        signal(SIGXFSZ, SIG_IGN);
        getrlimit(RLIMIT_FSIZE, &mut old);
        setrlimit(RLIMIT_FSIZE, &[limit, old[1]]);
    }
    // the harness's own stdout is a regular file: the code under test prints diagnostics there, and that file must
    // not be hit by the limit -- send fd 1 to /dev/null while the limit is on
    use std::os::fd::AsRawFd;
    let null = std::fs::OpenOptions::new().write(true).open("/dev/null").unwrap();
    std::io::stdout().flush().unwrap();
    let saved = unsafe { dup(1) };
    unsafe { dup2(null.as_raw_fd(), 1) };
    struct Restore([u64; 2], i32);
    impl Drop for Restore {
        fn drop(&mut self) {
            unsafe {
                setrlimit(RLIMIT_FSIZE, &self.0);
                dup2(self.1, 1);
                close(self.1);
            }
        }
    }
    let _restore = Restore(old, saved);
    direct(&[toks[0], toks[1], toks[3]])
}

fn direct(toks: &[&str]) -> String {
    let small: usize = toks[0].parse().unwrap();
    let tmp = temp_dir::TempDir::new().unwrap();
    let cache = cache_dir(toks[1], &tmp);
    let script = expand_bytes(toks[2]);   // anything after the script (e.g. "@c09 ..") is for the driver
    let listener = std::net::TcpListener::bind("127.0.0.1:0").unwrap();
    let addr = listener.local_addr().unwrap();
    let mut client = std::net::TcpStream::connect(addr).unwrap();
    let (server_std, peer) = listener.accept().unwrap();
    let writer = {
        let mut c = client.try_clone().unwrap();
        std::thread::spawn(move || {
            if c.write_all(&script).is_err() {
                RESET_SEEN.store(true, std::sync::atomic::Ordering::SeqCst);
            }
            let _ = c.shutdown(std::net::Shutdown::Write);
        })
    };
    let stream = async_net::TcpStream::try_from(server_std).unwrap();
    let conn = HttpConn::new(peer, stream);
    let log = Arc::new(Mutex::new(Vec::new()));
    let log2 = log.clone();
    let handler = move |req: Request| {
        let log = log2.clone();
        async move { scripted(req, &log) }
    };
    // wait until the client has delivered everything, so that reads never see a partial stream
    writer.join().unwrap();
    // the client reads while the server works (as a real client does): when the server closes with unread
    // request bytes in its receive queue the kernel sends RST, and a client that has not yet read what it
    // was sent can lose it
    let reader = {
        let mut c = client.try_clone().unwrap();
        std::thread::spawn(move || read_all(&mut c))
    };
    let permit = Permit::new();
    futures_lite::future::block_on(handle_http_conn(permit.new_sub(), Token::new(), conn, cache, small, handler));
    let wire = reader.join().unwrap();
    let files = std::fs::read_dir(tmp.path()).unwrap().count();
    let log = log.lock().unwrap().join(",");
    format!("log=[{log}] wire={} files={files}{}", digest_wire(&wire), reset_mark())
}

/// The transcript is compared in full when small, else by length + digest.
fn digest_wire(w: &[u8]) -> String {
    if w.len() <= 131072 {
        tok_of_bytes(w)
    } else {
        format!("{}:h{:016x}", w.len(), fnv64(w))
    }
}

/// Mode S: a full server; the client writes the script in the pieces given by the schedule
/// (piece lengths separated by ','; 0 = one write of everything), pausing `pause_ms` between
/// pieces, then half-closes and reads to EOF.
fn server(toks: &[&str], idle: bool, revoke_mid: bool, second_server: bool, check_at_eof: bool) -> String {
    let small: usize = toks[0].parse().unwrap();
    let tmp = temp_dir::TempDir::new().unwrap();
    let cache = cache_dir(toks[1], &tmp);
    let sched: Vec<usize> = toks[2].split(',').map(|s| s.parse().unwrap()).collect();
    let pause_ms: u64 = toks[3].parse().unwrap();
    let script = expand_bytes(toks[4]);
    {
        // slow handlers (/w<ms>) named in the script: the client waits that much longer for their answers
        let text = String::from_utf8_lossy(&script).to_string();
        let mut worst = 0u64;
        for part in text.split("/w").skip(1) {
            let digits: String = part.chars().take_while(char::is_ascii_digit).collect();
            worst = worst.max(digits.parse::<u64>().unwrap_or(0));
        }
        if worst >= 4000 {
            EXTRA_WAIT_MS.fetch_max(worst, std::sync::atomic::Ordering::SeqCst);
        }
    }
    let log = Arc::new(Mutex::new(Vec::new()));
    let log2 = log.clone();
    let permit = Permit::new();
    let executor = safina::executor::Executor::new(2, 2).unwrap();
    // the builder's setters are independent of each other: the two orders of small_body_len and
    // receive_large_bodies are used alternately (odd thresholds: cache dir first)
    let mut builder = HttpServerBuilder::new().max_conns(4).permit(permit.new_sub());
    if small % 2 == 1 {
        if let Some(dir) = &cache {
            builder = builder.receive_large_bodies(dir);
        }
        builder = builder.small_body_len(small);
    } else {
        builder = builder.small_body_len(small);
        if let Some(dir) = &cache {
            builder = builder.receive_large_bodies(dir);
        }
    }
    // mode T: while a handler of this server holds an upload that was received into a file, ANOTHER server is started on
    // the same cache directory (a restart that overlaps the old instance, two instances sharing a directory): the
    // handler must still find its body, byte for byte
    let file_seen = Arc::new(std::sync::atomic::AtomicBool::new(false));
    let other_started = Arc::new(std::sync::atomic::AtomicBool::new(false));
    let (fs2, os2) = (file_seen.clone(), other_started.clone());
    let (addr, stopped) = executor
        .block_on(builder.spawn(move |req: Request| {
            if second_server && matches!(req.body, RequestBody::TempFile(..) | RequestBody::File(..)) {
                fs2.store(true, std::sync::atomic::Ordering::SeqCst);
                let t0 = std::time::Instant::now();
                while !os2.load(std::sync::atomic::Ordering::SeqCst) && t0.elapsed() < std::time::Duration::from_secs(3) {
                    std::thread::sleep(std::time::Duration::from_millis(2));
                }
            }
            scripted(req, &log2)
        }))
        .unwrap();
    let other = if second_server {
        let cache2 = cache.clone();
        let (fs3, os3) = (file_seen.clone(), other_started.clone());
        Some(std::thread::spawn(move || {
            let t0 = std::time::Instant::now();
            while !fs3.load(std::sync::atomic::Ordering::SeqCst) && t0.elapsed() < std::time::Duration::from_secs(3) {
                std::thread::sleep(std::time::Duration::from_millis(2));
            }
            let p2 = Permit::new();
            let ex2 = safina::executor::Executor::new(1, 1).unwrap();
            let mut b2 = HttpServerBuilder::new().max_conns(1).permit(p2.new_sub());
            if let Some(dir) = &cache2 {
                b2 = b2.receive_large_bodies(dir);
            }
            let r = ex2.block_on(b2.spawn(|_req: Request| Response::text(200, "other")));
            os3.store(true, std::sync::atomic::Ordering::SeqCst);
            std::thread::sleep(std::time::Duration::from_millis(300));
            drop(r);
            drop(p2);
        }))
    } else {
        None
    };
    let mut client = std::net::TcpStream::connect(addr).unwrap();
    let mut pos = 0;
    let mut k = 0;
    while pos < script.len() {
        let n = if sched[k % sched.len()] == 0 { script.len() - pos } else { sched[k % sched.len()].min(script.len() - pos) };
        if client.write_all(&script[pos..pos + n]).is_err() {
            // the server has closed and reset the connection while the client was still sending: the error of the
            // socket is consumed by this write, the read that follows sees a plain end of stream -- and the client
            // may have lost response bytes it had not read yet
            RESET_SEEN.store(true, std::sync::atomic::Ordering::SeqCst);
            break;
        }
        pos += n;
        k += 1;
        if pause_ms > 0 && pos < script.len() {
            std::thread::sleep(std::time::Duration::from_millis(pause_ms));
        }
    }
    if revoke_mid {
        // mode R: the server's permit is revoked while the handler of the (only) request is running: the exchange that
        // is in flight is completed all the same
        std::thread::sleep(std::time::Duration::from_millis(120));
        permit.revoke();
    }
    // mode I: the client keeps the connection open and idles after it has received the answers;
    // an upload's temp file must be gone by the time its request has been answered, not only
    // when the connection ends or the next request arrives
    let mut wire = Vec::new();
    let mut idle_files = 0;
    if idle {
        client.set_read_timeout(Some(std::time::Duration::from_millis(400))).unwrap();
        let mut buf = [0u8; 65536];
        loop {
            match client.read(&mut buf) {
                Ok(0) => break,
                Ok(n) => wire.extend_from_slice(&buf[..n]),
                Err(_) => break, // quiet for 400 ms: every answer has arrived
            }
        }
        for _ in 0..150 {
            idle_files = std::fs::read_dir(tmp.path()).unwrap().count();
            if idle_files == 0 {
                break;
            }
            std::thread::sleep(std::time::Duration::from_millis(10));
        }
    }
    let _ = client.shutdown(std::net::Shutdown::Write);
    wire.extend_from_slice(&read_all(&mut client));
    // modes V and R: the connection has ended (the client has read to the end of the stream): an upload's temp file is
    // gone NOW, not when some abandoned piece of work gets round to dropping it
    let mut at_eof = 0;
    if check_at_eof {
        for _ in 0..30 {
            at_eof = std::fs::read_dir(tmp.path()).unwrap().count();
            if at_eof == 0 {
                break;
            }
            std::thread::sleep(std::time::Duration::from_millis(10));
        }
    }
    drop(permit);
    let _ = stopped.recv_timeout(std::time::Duration::from_secs(5));
    // give dropped requests a moment to delete their temp files
    let mut files = usize::MAX;
    for _ in 0..200 {
        files = std::fs::read_dir(tmp.path()).unwrap().count();
        if files == 0 {
            break;
        }
        std::thread::sleep(std::time::Duration::from_millis(10));
    }
    if let Some(t) = other {
        let _ = t.join();
    }
    let log = log.lock().unwrap().join(",");
    if idle {
        format!("log=[{log}] wire={} files={files} idle={idle_files}{}", digest_wire(&wire), reset_mark())
    } else if check_at_eof {
        format!("log=[{log}] wire={} files={files} busy={at_eof}{}", digest_wire(&wire), reset_mark())
    } else {
        format!("log=[{log}] wire={} files={files}{}", digest_wire(&wire), reset_mark())
    }
}

/// mode B: `B <small> <cache> <slow_ms> <script>` -- a full server whose blocking pool has ONE thread.  Client A sends
/// the script (an upload cut short) and stays connected; once the server is receiving the body into a file, client B
/// sends a request whose handler sleeps <slow_ms> and so occupies the whole blocking pool; then A goes away.  The temp
/// file of the abandoned upload must be gone by the time A's connection has ended -- observed while B's handler is
/// still running (busy=<files in the cache directory then>), not only after the server stopped.
fn server_busy(toks: &[&str], stalled_logger: bool, complete_later: bool) -> String {
    let small: usize = toks[0].parse().unwrap();
    let tmp = temp_dir::TempDir::new().unwrap();
    let cache = cache_dir(toks[1], &tmp);
    let slow_ms: u64 = toks[2].parse().unwrap();
    let script = expand_bytes(toks[3]);
    let log = Arc::new(Mutex::new(Vec::new()));
    let log2 = log.clone();
    let slow_started = Arc::new(std::sync::atomic::AtomicBool::new(false));
    let ss2 = slow_started.clone();
    let permit = Permit::new();
    // mode E: ONE async thread, and instead of a slow handler a global logger whose queue is full and undrained plus a
    // client that sends garbage: whatever the connection task reports about that client, the other connection's
    // abandoned upload is still cleaned up
    let executor = safina::executor::Executor::new(if stalled_logger { 1 } else { 2 }, 1).unwrap();
    let mut builder = HttpServerBuilder::new().max_conns(4).small_body_len(small).permit(permit.new_sub());
    if let Some(dir) = &cache {
        builder = builder.receive_large_bodies(dir);
    }
    let (addr, stopped) = executor
        .block_on(builder.spawn(move |req: Request| {
            if req.url.path() == "/z" {
                ss2.store(true, std::sync::atomic::Ordering::SeqCst);
                std::thread::sleep(std::time::Duration::from_millis(slow_ms));
                return Response::text(200, "slow");
            }
            scripted(req, &log2)
        }))
        .unwrap();
    let count = || std::fs::read_dir(tmp.path()).unwrap().count();
    let wait = |f: &dyn Fn() -> bool, ms: u64| {
        let t0 = std::time::Instant::now();
        while !f() && t0.elapsed() < std::time::Duration::from_millis(ms) {
            std::thread::sleep(std::time::Duration::from_millis(2));
        }
    };
    let mut a = std::net::TcpStream::connect(addr).unwrap();
    // mode K: the upload is COMPLETED, but only after the other request has taken the blocking pool: the last kilobyte is
    // held back until then, so the upload's second handler run has to wait for a pool thread for <slow_ms>
    let held = if complete_later && script.len() > 2000 { 1000 } else { 0 };
    if held > 0 {
        EXTRA_WAIT_MS.fetch_max(slow_ms, std::sync::atomic::Ordering::SeqCst);
    }
    let _ = a.write_all(&script[..script.len() - held]);
    // the upload's handler has run and the body is being received into a file (or the scenario has none)
    wait(&|| count() > 0, 1500);
    let had_file = count() > 0;
    let mut b = std::net::TcpStream::connect(addr).unwrap();
    let mut stalled = None;
    if stalled_logger {
        let (tx, rx) = std::sync::mpsc::sync_channel(1);
        let _ = tx.send(servlin::log::internal::LogEvent::new(servlin::log::Level::Info, ()));
        stalled = servlin::log::set_global_logger(tx).ok().map(|g| (g, rx));
        let _ = b.write_all(b"bogus\r\n\r\n");
        std::thread::sleep(std::time::Duration::from_millis(150));
        slow_started.store(true, std::sync::atomic::Ordering::SeqCst);
    } else {
        let _ = b.write_all(b"GET /z HTTP/1.1\r\n\r\n");
        wait(&|| slow_started.load(std::sync::atomic::Ordering::SeqCst), 1500);
    }
    if held > 0 {
        let _ = a.write_all(&script[script.len() - held..]);
    }
    let _ = a.shutdown(std::net::Shutdown::Write);
    let wire = if stalled_logger {
        // (the server may be unable to answer A at all: do not wait for it longer than a second)
        let _ = a.set_read_timeout(Some(std::time::Duration::from_millis(1000)));
        let mut v = Vec::new();
        let mut buf = [0u8; 4096];
        loop {
            match a.read(&mut buf) {
                Ok(0) | Err(_) => break,
                Ok(n) => v.extend_from_slice(&buf[..n]),
            }
        }
        v
    } else {
        read_all(&mut a)
    };
    // A's connection has ended; B's handler still sleeps / the logger is still stalled
    wait(&|| count() == 0, if stalled_logger { 1000 } else { 300 });
    let busy = count();
    if let Some((g, rx)) = stalled.take() {
        drop(rx); // blocked senders fail now
        drop(g);
    }
    let still_slow = slow_started.load(std::sync::atomic::Ordering::SeqCst);
    let _ = read_all(&mut b);
    drop(permit);
    let _ = stopped.recv_timeout(std::time::Duration::from_secs(5));
    let mut files = usize::MAX;
    for _ in 0..200 {
        files = count();
        if files == 0 {
            break;
        }
        std::thread::sleep(std::time::Duration::from_millis(10));
    }
    let log = log.lock().unwrap().join(",");
    format!(
        "log=[{log}] wire={} files={files} busy={busy} hadfile={} slow={}{}",
        digest_wire(&wire),
        u8::from(had_file),
        u8::from(still_slow),
        reset_mark()
    )
}

/// mode N: `N <small> <cache> <nclients> <script>` -- several concurrent uploads: a full server on ONE async thread
/// (two blocking threads); <nclients> clients send the same script 20 ms apart (an upload cut short: they stall), stay
/// connected until every one of them has got as far as it can, then all go away.  No temp file may be left once the
/// connections have ended (busy=<files then>), nor after the server has stopped (files=).  The log shows each entry
/// once per <nclients> occurrences (the clients are served alike); the wire is the first client's.
fn server_many(toks: &[&str]) -> String {
    let small: usize = toks[0].parse().unwrap();
    let tmp = temp_dir::TempDir::new().unwrap();
    let cache = cache_dir(toks[1], &tmp);
    let nclients: usize = toks[2].parse().unwrap();
    let script = expand_bytes(toks[3]);
    let log = Arc::new(Mutex::new(Vec::new()));
    let log2 = log.clone();
    let permit = Permit::new();
    let executor = safina::executor::Executor::new(1, 2).unwrap();
    let mut builder = HttpServerBuilder::new().max_conns(32).small_body_len(small).permit(permit.new_sub());
    if let Some(dir) = &cache {
        builder = builder.receive_large_bodies(dir);
    }
    let (addr, stopped) = executor.block_on(builder.spawn(move |req: Request| scripted(req, &log2))).unwrap();
    let count = || std::fs::read_dir(tmp.path()).unwrap().count();
    let mut clients = Vec::new();
    for _ in 0..nclients {
        let mut c = std::net::TcpStream::connect(addr).unwrap();
        let _ = c.write_all(&script);
        clients.push(c);
        std::thread::sleep(std::time::Duration::from_millis(20));
    }
    // every upload that gets a file has one by now (or the scenario has none)
    let t0 = std::time::Instant::now();
    while count() < nclients && t0.elapsed() < std::time::Duration::from_millis(600) {
        std::thread::sleep(std::time::Duration::from_millis(5));
    }
    let most = count();
    let readers: Vec<_> = clients
        .into_iter()
        .map(|mut c| {
            let _ = c.shutdown(std::net::Shutdown::Write);
            std::thread::spawn(move || read_all(&mut c))
        })
        .collect();
    let wires: Vec<Vec<u8>> = readers.into_iter().map(|r| r.join().unwrap()).collect();
    // every connection has ended (or the server is beyond answering): no file may be alive now
    let t0 = std::time::Instant::now();
    while count() > 0 && t0.elapsed() < std::time::Duration::from_millis(1500) {
        std::thread::sleep(std::time::Duration::from_millis(5));
    }
    let busy = count();
    drop(permit);
    let _ = stopped.recv_timeout(std::time::Duration::from_secs(5));
    let mut files = usize::MAX;
    for _ in 0..200 {
        files = count();
        if files == 0 {
            break;
        }
        std::thread::sleep(std::time::Duration::from_millis(10));
    }
    let entries = log.lock().unwrap().clone();
    let mut distinct: Vec<(String, usize)> = Vec::new();
    for e in &entries {
        match distinct.iter_mut().find(|d| &d.0 == e) {
            Some(d) => d.1 += 1,
            None => distinct.push((e.clone(), 1)),
        }
    }
    let mut shown = Vec::new();
    let mut even = true;
    for (e, k) in &distinct {
        even &= k % nclients == 0;
        for _ in 0..(k / nclients) {
            shown.push(e.clone());
        }
    }
    let same = wires.iter().all(|w| w == &wires[0]);
    format!(
        "log=[{}] wire={} files={files} busy={busy} most={most} alike={}{}",
        shown.join(","),
        digest_wire(&wires[0]),
        u8::from(even && same),
        reset_mark()
    )
}

fn tables() -> String {
    let mut out = format!("tables plain={}", tok_of_bytes(servlin::ContentType::PlainText.as_str().as_bytes()));
    for code in 0..1000u16 {
        out.push_str(&format!(" r{code}={}", tok_of_bytes(servlin::internal::reason_phrase(code).as_bytes())));
    }
    out
}

fn main() {
    safina::timer::start_timer_thread();
    run_lines_marked(|toks| match toks[0] {
        "tables" => tables(),
        "D" => direct(&toks[1..]),
        "S" => server(&toks[1..], false, false, false, false),
        "I" => server(&toks[1..], true, false, false, false),
        "R" => server(&toks[1..], false, true, false, true),
        "T" => server(&toks[1..], false, false, true, false),
        "V" => server(&toks[1..], false, false, false, true),
        "X" => direct_fsize(&toks[1..]),
        "B" => server_busy(&toks[1..], false, false),
        "E" => server_busy(&toks[1..], true, false),
        "K" => server_busy(&toks[1..], false, true),
        "N" => server_many(&toks[1..]),
        _ => "?".to_string(),
    });
}
