//! C18 harness: runs generated multi-thread logging programs against the real global logger.
//!
//! case:  prog|child|free <T> { ; <thread> <action> }*
//!   prog  = in this process (the program never logs while no logger is installed)
//!   child = in a fresh child process, because the program logs to the stdout default logger; the
//!           child's stdout (what the default logger printed) is captured by the parent
//!   free  = threads run freely (no turn-taking) with channel 0 installed for the whole run; only
//!           the per-thread event subsequences (keyed by the `tid` tag) are observed
//! case:  race <iters>   see run_race
//! In prog/child mode the steps are executed one at a time in the given global order (the conductor
//! hands the turn to the step's thread and waits for it), so the linearisation is the case's order.
//! actions:
//!   add <name> <value> | clear | log <level> <msg> <k> tags | raw <level> <k> tags | lr <handler result>
//!   wb <method x-tok> <path x-tok> <id> <blen|-> | we <handler result> | wr <request> <handler result>
//!   inst <id> | drop | gone <id>
//! observation per step:  <result> { E <logger id> <x-token of the write_jsonl line> | E def <x-token> }  ;
//!   result = U | K | S | R code len id | I1 | I0 | D | N | panic
//!   `"duration_ms":<n>` (elapsed wall time) is canonicalised to 0 in event texts.
use servlin::internal::{ContentType, RequestBody};
use servlin::log::internal::{lock_global_logger, ClearGlobalLoggerOnDrop, LogEvent};
use servlin::log::{
    add_thread_local_log_tag, clear_thread_local_log_tags, log_request_and_response, log_response, set_global_logger,
};
use servlin::{Error, HeaderList, Request, Response};
use std::collections::{BTreeMap, HashMap};
use std::io::{BufRead, BufReader, Read, Write};
use std::panic::{catch_unwind, AssertUnwindSafe};
use std::sync::mpsc::{channel, sync_channel, Receiver, Sender, SyncSender};
use std::sync::{Arc, Barrier, Mutex};
use std::time::{Duration, SystemTime};
use svharness::*;
#[path = "../logshared.rs"]
mod logshared;
use logshared::{handler_result, level, show_response, static_name, tags, value};

struct Chan {
    tx: SyncSender<LogEvent>,
    rx: Option<Receiver<LogEvent>>,
}
struct Shared {
    chans: Mutex<BTreeMap<u64, Chan>>,
    guards: Mutex<Vec<ClearGlobalLoggerOnDrop>>,
    child: bool,
}
fn lock<T>(m: &Mutex<T>) -> std::sync::MutexGuard<'_, T> {
    m.lock().unwrap_or_else(std::sync::PoisonError::into_inner)
}
fn chan_tx(sh: &Shared, id: u64) -> SyncSender<LogEvent> {
    let mut g = lock(&sh.chans);
    g.entry(id)
        .or_insert_with(|| {
            let (tx, rx) = sync_channel(4096);
            Chan { tx, rx: Some(rx) }
        })
        .tx
        .clone()
}

fn canon_duration(mut s: Vec<u8>) -> Vec<u8> {
    let pat = b"\"duration_ms\":";
    let mut i = 0;
    while i + pat.len() <= s.len() {
        if &s[i..i + pat.len()] == pat {
            let start = i + pat.len();
            let mut end = start;
            while end < s.len() && s[end].is_ascii_digit() {
                end += 1;
            }
            if end > start {
                s.splice(start..end, [b'0']);
            }
            i = start;
        } else {
            i += 1;
        }
    }
    s
}
fn render(e: &LogEvent) -> String {
    let mut out = Vec::new();
    e.write_jsonl(&mut out).unwrap();
    tok_of_bytes(&canon_duration(out))
}
/// All events waiting in the channel loggers, in channel-id order.
fn drain(sh: &Shared) -> String {
    let g = lock(&sh.chans);
    let mut s = String::new();
    for (id, c) in g.iter() {
        if let Some(rx) = &c.rx {
            while let Ok(e) = rx.try_recv() {
                s.push_str(&format!(" E {id} {}", render(&e)));
            }
        }
    }
    s
}

fn request(toks: &[String], i: &mut usize) -> Request {
    let method = ascii_of_tok(&toks[*i]);
    let path = ascii_of_tok(&toks[*i + 1]);
    let id: u64 = toks[*i + 2].parse().unwrap();
    let blen = toks[*i + 3].clone();
    *i += 4;
    Request {
        id,
        remote_addr: "127.0.0.1:1".parse().unwrap(),
        method,
        url: url::Url::parse(&format!("http://h{path}")).unwrap(),
        headers: HeaderList::new(),
        cookies: HashMap::new(),
        content_type: ContentType::None,
        expect_continue: false,
        chunked: false,
        gzip: false,
        content_length: None,
        body: if blen == "-" { RequestBody::PendingUnknown } else { RequestBody::PendingKnown(blen.parse().unwrap()) },
    }
}

fn show_ret(r: &Result<Response, servlin::log::LoggerStoppedError>) -> String {
    match r {
        Ok(resp) => show_response(resp),
        Err(_) => "S".to_string(),
    }
}
fn show_unit(r: &Result<(), servlin::log::LoggerStoppedError>) -> String {
    match r {
        Ok(()) => "K".to_string(),
        Err(_) => "S".to_string(),
    }
}

/// Is this step a logging call?  (prog mode refuses to log without an installed logger: the default
/// stdout logger would write into the observation stream.)
fn is_log(op: &str) -> bool {
    matches!(op, "log" | "raw" | "lr" | "we" | "wr")
}

/// Executes one action on the current thread.  `None` = the reply was already sent (wb).
fn exec_inner(sh: &Shared, toks: &[String], go: Option<&Receiver<Vec<String>>>, done: Option<&Sender<String>>) -> Option<String> {
    let strs: Vec<&str> = toks.iter().map(String::as_str).collect();
    let op = strs[0];
    let mut fl = Vec::new();
    let to_default = !lock_global_logger().is_some();
    if is_log(op) && to_default && !sh.child {
        return Some("needchild".to_string());
    }
    let mark = if is_log(op) && to_default { " E def @" } else { "" };
    let mut i = 1;
    let out = match op {
        "add" => {
            add_thread_local_log_tag(static_name(&string_of_scalars_tok(strs[1])), value(strs[2], &mut fl));
            "U".to_string()
        }
        "clear" => {
            clear_thread_local_log_tags();
            "U".to_string()
        }
        "log" => {
            let lvl = strs[1];
            let msg = string_of_scalars_tok(strs[2]);
            i = 3;
            let tg = tags(&strs, &mut i, &mut fl);
            // by turns (length of the message) the call is made directly, or from inside a closure that is looking at
            // the thread's tags (with_thread_local_log_tags): the event is the same
            let call = move || match lvl {
                "error" => servlin::log::error(msg, tg),
                "info" => servlin::log::info(msg, tg),
                _ => servlin::log::debug(msg, tg),
            };
            let r = if strs[2].len() % 2 == 0 {
                call()
            } else {
                servlin::log::internal::with_thread_local_log_tags(|_seen| call())
            };
            show_unit(&r)
        }
        "raw" => {
            let lvl = level(strs[1]);
            i = 2;
            let tg = tags(&strs, &mut i, &mut fl);
            show_unit(&servlin::log::internal::log(SystemTime::now(), lvl, tg))
        }
        "lr" => show_ret(&log_response(handler_result(&strs, &mut i, &mut fl))),
        "wr" => {
            let req = request(toks, &mut i);
            let hr = handler_result(&strs, &mut i, &mut fl);
            show_ret(&log_request_and_response(req, move |_req| hr))
        }
        "wb" => {
            let req = request(toks, &mut i);
            let (go, done) = (go.unwrap(), done.unwrap());
            let mut end_mark = "";
            let r = log_request_and_response(req, |_req| {
                done.send("U".to_string()).unwrap();
                loop {
                    match go.recv() {
                        Ok(t) if t[0] == "we" => {
                            let s2: Vec<&str> = t.iter().map(String::as_str).collect();
                            let mut j = 1;
                            let mut fl2 = Vec::new();
                            if !lock_global_logger().is_some() {
                                end_mark = " E def @";
                            }
                            if !lock_global_logger().is_some() && !sh.child {
                                end_mark = " needchild";
                            }
                            return handler_result(&s2, &mut j, &mut fl2);
                        }
                        Ok(t) => exec(sh, &t, Some(go), Some(done)),
                        Err(_) => return Err(Error::new()),
                    }
                }
            });
            return Some(format!("{}{end_mark}", show_ret(&r)));
        }
        "inst" => {
            let id: u64 = strs[1].parse().unwrap();
            match set_global_logger(chan_tx(sh, id)) {
                Ok(g) => {
                    lock(&sh.guards).push(g);
                    "I1".to_string()
                }
                Err(_) => "I0".to_string(),
            }
        }
        "drop" => {
            let g = lock(&sh.guards).pop();
            match g {
                Some(g) => {
                    drop(g);
                    "D".to_string()
                }
                None => "N".to_string(),
            }
        }
        "gone" => {
            let id: u64 = strs[1].parse().unwrap();
            let _ = chan_tx(sh, id);
            let mut g = lock(&sh.chans);
            g.get_mut(&id).unwrap().rx = None;
            "U".to_string()
        }
        _ => panic!("bad action {op}"),
    };
    Some(format!("{out}{mark}"))
}
fn exec(sh: &Shared, toks: &[String], go: Option<&Receiver<Vec<String>>>, done: Option<&Sender<String>>) {
    let r = catch_unwind(AssertUnwindSafe(|| exec_inner(sh, toks, go, done)));
    let reply = match r {
        Ok(Some(s)) => s,
        Ok(None) => return,
        Err(_) => "panic".to_string(),
    };
    if let Some(d) = done {
        d.send(reply).unwrap();
    }
}

fn parse_steps(toks: &[&str]) -> (usize, Vec<(usize, Vec<String>)>) {
    let nthreads: usize = toks[0].parse().unwrap();
    let mut steps = Vec::new();
    for seg in toks[1..].split(|t| *t == ";") {
        if seg.is_empty() {
            continue;
        }
        let t: usize = seg[0].parse().unwrap();
        steps.push((t, seg[1..].iter().map(|s| (*s).to_string()).collect()));
    }
    (nthreads, steps)
}

extern "C" {
    fn pipe(fds: *mut i32) -> i32;
    fn dup2(a: i32, b: i32) -> i32;
}
/// Lines the stdout default logger(s) of the code under test have printed so far (child mode: fd 1 of the child
/// is a pipe read by a helper thread).  Several default loggers can exist one after the other (every time the
/// installed logger is dropped the next logging call starts a new one) and their threads print concurrently, so
/// the conductor waits for the line of a step before it lets the next step run.
static CAPTURED: Mutex<Vec<String>> = Mutex::new(Vec::new());
fn capture_stdout() {
    let mut fds = [0i32; 2];
    unsafe {
        assert_eq!(pipe(fds.as_mut_ptr()), 0);
        assert!(dup2(fds[1], 1) >= 0);
    }
    use std::os::fd::FromRawFd;
    let rd = unsafe { std::fs::File::from_raw_fd(fds[0]) };
    std::thread::spawn(move || {
        for l in BufReader::new(rd).lines() {
            match l {
                Ok(l) => CAPTURED.lock().unwrap().push(l),
                Err(_) => break,
            }
        }
    });
}
/// Waits for the n-th captured line: up to 2 s the first time; once a line has failed to arrive in this process
/// (the event went somewhere else: the case fails anyway) later waits are short, so that a failing case costs
/// seconds and not a minute.
static WAIT_TIMED_OUT: std::sync::atomic::AtomicBool = std::sync::atomic::AtomicBool::new(false);
fn wait_captured(n: usize) {
    use std::sync::atomic::Ordering::SeqCst;
    let limit = if WAIT_TIMED_OUT.load(SeqCst) { Duration::from_millis(100) } else { Duration::from_secs(2) };
    let t0 = std::time::Instant::now();
    while CAPTURED.lock().unwrap().len() < n {
        if t0.elapsed() >= limit {
            WAIT_TIMED_OUT.store(true, SeqCst);
            return;
        }
        std::thread::sleep(Duration::from_micros(200));
    }
}
/// "<time> <level> <tags>": drop the time, canonicalise the duration; fill the `@` placeholders in order
fn splice(obs: &str, lines: &[String]) -> String {
    let expected = obs.matches('@').count();
    let texts: Vec<String> = lines
        .iter()
        .map(|l| {
            let body = l.split_once(' ').map_or("", |x| x.1);
            tok_of_bytes(&canon_duration(body.as_bytes().to_vec()))
        })
        .collect();
    let mut out = String::new();
    let mut k = 0;
    for part in obs.split('@') {
        out.push_str(part);
        if k < expected {
            out.push_str(texts.get(k).map_or("missing", String::as_str));
            k += 1;
        }
    }
    for extra in texts.iter().skip(expected) {
        out.push_str(&format!(" EXTRA-DEFAULT-LINE {extra}"));
    }
    out
}

/// Turn-taking run.  Returns the observation line.
fn run_turns(toks: &[&str], child: bool) -> String {
    let (nthreads, steps) = parse_steps(toks);
    let sh = Arc::new(Shared { chans: Mutex::new(BTreeMap::new()), guards: Mutex::new(Vec::new()), child });
    let (done_tx, done_rx) = channel::<String>();
    let mut gos = Vec::new();
    let mut handles = Vec::new();
    for _ in 0..nthreads {
        let (go_tx, go_rx) = channel::<Vec<String>>();
        gos.push(go_tx);
        let sh2 = sh.clone();
        let d2 = done_tx.clone();
        handles.push(std::thread::spawn(move || {
            while let Ok(t) = go_rx.recv() {
                exec(&sh2, &t, Some(&go_rx), Some(&d2));
            }
        }));
    }
    let mut out = String::new();
    for (t, action) in steps {
        gos[t].send(action).unwrap();
        let reply = done_rx.recv_timeout(Duration::from_secs(20)).unwrap_or_else(|_| "timeout".to_string());
        out.push_str(&reply);
        if child {
            // the default logger's line for this step must have been printed before the next step runs
            wait_captured(out.matches('@').count());
        }
        out.push_str(&drain(&sh));
        out.push_str(" ; ");
    }
    drop(gos);
    for h in handles {
        let _ = h.join();
    }
    // leave the process-global logger cleared for the next case
    loop {
        let g = lock(&sh.guards).pop();
        match g {
            Some(g) => {
                let _ = catch_unwind(AssertUnwindSafe(|| drop(g)));
            }
            None => break,
        }
    }
    out
}

/// Free-running run: channel 0 is installed for the whole run, every thread executes its own
/// steps without waiting for anybody.  Observation: per thread, its results in program order and
/// the events whose `tid` tag is that thread, in the order the logger received them.
fn run_free(toks: &[&str]) -> String {
    let (nthreads, steps) = parse_steps(toks);
    let sh = Arc::new(Shared { chans: Mutex::new(BTreeMap::new()), guards: Mutex::new(Vec::new()), child: false });
    let guard = set_global_logger(chan_tx(&sh, 0));
    if guard.is_err() {
        return "logger-already-set".to_string();
    }
    let barrier = Arc::new(Barrier::new(nthreads));
    let mut handles = Vec::new();
    for t in 0..nthreads {
        let mine: Vec<Vec<String>> = steps.iter().filter(|(x, _)| *x == t).map(|(_, a)| a.clone()).collect();
        let sh2 = sh.clone();
        let b2 = barrier.clone();
        handles.push(std::thread::spawn(move || {
            // the steps of one thread are fed through a private queue so that wb ... we nesting works
            let (go_tx, go_rx) = channel::<Vec<String>>();
            let (done_tx, done_rx) = channel::<String>();
            for a in mine {
                go_tx.send(a).unwrap();
            }
            drop(go_tx);
            b2.wait();
            while let Ok(a) = go_rx.recv() {
                exec(&sh2, &a, Some(&go_rx), Some(&done_tx));
            }
            drop(done_tx);
            let rs: Vec<String> = done_rx.iter().collect();
            rs.join(" ")
        }));
    }
    let results: Vec<String> = handles.into_iter().map(|h| h.join().unwrap_or_else(|_| "panic".to_string())).collect();
    drop(guard);
    let mut per_thread: Vec<Vec<String>> = vec![Vec::new(); nthreads + 1];
    {
        let g = lock(&sh.chans);
        if let Some(rx) = &g.get(&0).unwrap().rx {
            while let Ok(e) = rx.try_recv() {
                let mut line = Vec::new();
                e.write_jsonl(&mut line).unwrap();
                let line = canon_duration(line);
                let text = String::from_utf8_lossy(&line).to_string();
                let mut who = nthreads;
                if let Some(p) = text.find("\"tid\":") {
                    let digits: String = text[p + 6..].chars().take_while(char::is_ascii_digit).collect();
                    if let Ok(n) = digits.parse::<usize>() {
                        if n < nthreads {
                            who = n;
                        }
                    }
                }
                per_thread[who].push(tok_of_bytes(&line));
            }
        }
    }
    let mut out = String::new();
    for t in 0..nthreads {
        let mut toks: Vec<String> = vec![format!("T{t}")];
        toks.extend(results[t].split_ascii_whitespace().map(str::to_string));
        toks.push("EV".to_string());
        toks.extend(per_thread[t].iter().cloned());
        out.push_str(&toks.join(" "));
        out.push_str(" ; ");
    }
    if !per_thread[nthreads].is_empty() {
        out.push_str(&format!("T? EV {} ; ", per_thread[nthreads].join(" ")));
    }
    out
}

/// race <iters>: in a fresh process, `iters` times from the state "no logger": one thread makes a logging call
/// (which starts the stdout default) while the main thread installs a channel logger, the two released together
/// with swept offsets of a few microseconds.  Whatever the interleaving: the install succeeds (a default is
/// replaced), the event of the racing call is delivered exactly once (to the default or to the channel), the
/// logging call made AFTER both finished is delivered to the installed channel, and dropping the guard works.
/// observation: race <iters> bad=<number of iterations that broke one of these> first=<what broke first>
fn run_race(iters: usize) -> String {
    fn spin(us: u64) {
        let t0 = std::time::Instant::now();
        while t0.elapsed() < Duration::from_micros(us) {
            std::hint::spin_loop();
        }
    }
    let msg_of = |e: &LogEvent| -> String {
        let mut out = Vec::new();
        e.write_jsonl(&mut out).unwrap();
        String::from_utf8_lossy(&out).to_string()
    };
    let mut bad = 0usize;
    let mut first = "-".to_string();
    for it in 0..iters {
        let (tx, rx) = sync_channel::<LogEvent>(16);
        let barrier = Arc::new(Barrier::new(2));
        let b2 = barrier.clone();
        let a_msg = format!("racing-a{it}");
        let z_msg = format!("after-z{it}");
        let a_msg2 = a_msg.clone();
        let a = std::thread::spawn(move || {
            b2.wait();
            spin((it as u64 % 8) * 4);
            catch_unwind(AssertUnwindSafe(|| servlin::log::info(a_msg2, ()))).is_ok()
        });
        barrier.wait();
        spin(((it as u64 / 8) % 24) * 4);
        let g = set_global_logger(tx.clone());
        let a_ok = a.join().unwrap_or(false);
        let mut why: Vec<&str> = Vec::new();
        if !a_ok {
            why.push("racing-call-panicked");
        }
        if g.is_err() {
            why.push("install-refused");
        }
        let z_ok = catch_unwind(AssertUnwindSafe(|| servlin::log::info(z_msg.clone(), ()))).is_ok();
        if !z_ok {
            why.push("later-call-panicked");
        }
        let mut a_chan = 0;
        let mut z_chan = 0;
        while z_chan == 0 {
            match rx.recv_timeout(Duration::from_millis(300)) {
                Ok(e) => {
                    let m = msg_of(&e);
                    if m.contains(&format!("\"msg\":\"{a_msg}\"")) {
                        a_chan += 1;
                    } else if m.contains(&format!("\"msg\":\"{z_msg}\"")) {
                        z_chan += 1;
                    } else {
                        why.push("foreign-event-on-channel");
                    }
                }
                Err(_) => break,
            }
        }
        if g.is_ok() && z_chan != 1 {
            why.push("later-event-not-delivered-to-the-installed-logger");
        }
        let count_def = |m: &str| CAPTURED.lock().unwrap().iter().filter(|l| l.contains(&format!("\"msg\":\"{m}\""))).count();
        if a_chan == 0 {
            let t0 = std::time::Instant::now();
            while count_def(&a_msg) == 0 && t0.elapsed() < Duration::from_millis(500) {
                std::thread::sleep(Duration::from_micros(200));
            }
        }
        if a_chan + count_def(&a_msg) != 1 {
            why.push("racing-event-not-delivered-exactly-once");
        }
        if catch_unwind(AssertUnwindSafe(|| drop(g))).is_err() {
            why.push("guard-drop-panicked");
        }
        if !why.is_empty() {
            bad += 1;
            if first == "-" {
                first = why.join("+");
            }
            // back to the state "no logger" for the next round
            *lock_global_logger() = servlin::log::internal::GlobalLoggerState::None;
        }
    }
    format!("race {iters} bad={bad} first={first}")
}

/// Runs a `child` case in a fresh process and splices what the default stdout logger printed.
fn run_in_child(toks: &[&str]) -> String {
    let exe = std::env::current_exe().unwrap();
    let mut ch = std::process::Command::new(exe)
        .arg("--child")
        .stdin(std::process::Stdio::piped())
        .stdout(std::process::Stdio::piped())
        .stderr(std::process::Stdio::piped())
        .spawn()
        .unwrap();
    let mut stdin = ch.stdin.take().unwrap();
    writeln!(stdin, "{}", toks.join(" ")).unwrap();
    stdin.flush().unwrap();
    let mut err = BufReader::new(ch.stderr.take().unwrap());
    let mut obs = String::new();
    err.read_line(&mut obs).unwrap();
    let obs = obs.trim_end().to_string();
    let expected = obs.matches('@').count();
    // read the default logger's lines on a helper thread so that a missing line cannot block us
    let stdout = ch.stdout.take().unwrap();
    let (ltx, lrx) = channel::<String>();
    let reader = std::thread::spawn(move || {
        for l in BufReader::new(stdout).lines() {
            match l {
                Ok(l) => {
                    if ltx.send(l).is_err() {
                        break;
                    }
                }
                Err(_) => break,
            }
        }
    });
    let mut lines = Vec::new();
    while lines.len() < expected {
        match lrx.recv_timeout(Duration::from_secs(2)) {
            Ok(l) => lines.push(l),
            Err(_) => break,
        }
    }
    drop(stdin); // the child exits now
    let _ = ch.wait();
    let _ = reader.join();
    while let Ok(l) = lrx.try_recv() {
        lines.push(l);
    }
    let mut rest = String::new();
    let _ = err.read_to_string(&mut rest);
    splice(&obs, &lines)
}

fn main() {
    std::env::remove_var("RUST_BACKTRACE");
    std::env::remove_var("RUST_LIB_BACKTRACE");
    if std::env::args().nth(1).as_deref() == Some("--child") {
        std::panic::set_hook(Box::new(|_| {}));
        let stdin = std::io::stdin();
        let mut line = String::new();
        stdin.lock().read_line(&mut line).unwrap();
        let toks: Vec<&str> = line.split_ascii_whitespace().collect();
        capture_stdout();
        if toks[0] == "race" {
            eprintln!("{}", run_race(toks[1].parse().unwrap()));
            let mut sink = String::new();
            let _ = stdin.lock().read_to_string(&mut sink);
            return;
        }
        let obs = run_turns(&toks[1..], true);
        std::thread::sleep(Duration::from_millis(20)); // lines nobody waited for (there should be none)
        let lines = CAPTURED.lock().unwrap().clone();
        eprintln!("{}", splice(&obs, &lines));
        // wait until the parent has read what the default logger printed
        let mut sink = String::new();
        let _ = stdin.lock().read_to_string(&mut sink);
        return;
    }
    run_lines_marked(|toks| match toks[0] {
        "prog" => run_turns(&toks[1..], false),
        "child" | "race" => run_in_child(toks),
        "free" => run_free(&toks[1..]),
        _ => "?".to_string(),
    });
}
