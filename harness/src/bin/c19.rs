//! C19 harness: drives servlin::log::internal::PrefixFileSet directly (`set` cases) and
//! servlin::log::LogFileWriter::start_writer_thread (`writer` cases) in a fresh temp dir.
//!
//! set case:     set <prefix> { F <name> <f|d> <size> <mtime> | N | P <name> <mtime> <len> | D
//!                              | A <now> <dur> | W <max> }*
//!               names/prefix are x-hex tokens (file names inside the temp dir); times are
//!               milliseconds after a fixed base instant.
//!               observation: after every op except F:  <ok|err|panic> L<k> <name>:<size|d>... ;
//! writer case:  writer { E <kind><idx> <size> <age_ms> | S <mw> <mk> <keep_age_s|0> <write_age_s|0>
//!                        | e<size> | snap | X <gap_ms> | Z <ms> | H <ms> }*
//!               H <ms>: the next event is built now and handed to the writer only <ms> later (an event that
//!               waited in a queue): what counts for rotation and deletion is when the writer gets it
//!               observation: ovh=<n> s0=<n> then per snap/X:  | <kindidx>=<size|d>... [<id>:<size> ...] ...
use servlin::log::internal::{LogEvent, PrefixFile, PrefixFileSet};
use servlin::log::{tag, Level, LogFileWriter};
use std::fs::{File, OpenOptions};
use std::io::Write;
use std::panic::{catch_unwind, AssertUnwindSafe};
use std::path::{Path, PathBuf};
use std::sync::atomic::{AtomicBool, Ordering};
use std::sync::mpsc::SyncSender;
use std::time::{Duration, Instant, SystemTime, UNIX_EPOCH};
use svharness::*;

static THREAD_PANICKED: AtomicBool = AtomicBool::new(false);

fn base() -> SystemTime {
    UNIX_EPOCH + Duration::from_secs(1_000_000_000)
}
fn at(ms: u64) -> SystemTime {
    base() + Duration::from_millis(ms)
}

fn listing(dir: &Path) -> String {
    let mut v: Vec<(Vec<u8>, String)> = Vec::new();
    for e in std::fs::read_dir(dir).unwrap() {
        let e = e.unwrap();
        let md = e.metadata().unwrap();
        let name = e.file_name().to_string_lossy().as_bytes().to_vec();
        let sz = if md.is_file() { md.len().to_string() } else { "d".to_string() };
        v.push((name, sz));
    }
    v.sort();
    let mut s = format!("L{}", v.len());
    for (n, z) in v {
        s.push_str(&format!(" {}:{}", tok_of_bytes(&n), z));
    }
    s
}

fn set_case(toks: &[&str]) -> String {
    let td = temp_dir::TempDir::new().unwrap();
    let dir: PathBuf = td.path().canonicalize().unwrap();
    let prefix = dir.join(ascii_of_tok(toks[0]));
    let mut set: Option<PrefixFileSet> = None;
    let mut out = String::new();
    let mut i = 1;
    while i < toks.len() {
        let op = toks[i];
        let status: Result<Result<(), String>, ()>;
        match op {
            "F" => {
                let p = dir.join(ascii_of_tok(toks[i + 1]));
                let size: u64 = toks[i + 3].parse().unwrap();
                let mtime: u64 = toks[i + 4].parse().unwrap();
                if toks[i + 2] == "d" {
                    std::fs::create_dir(&p).unwrap();
                } else {
                    let f = File::create(&p).unwrap();
                    f.set_len(size).unwrap();
                    f.set_modified(at(mtime)).unwrap();
                }
                i += 5;
                continue;
            }
            "N" => {
                i += 1;
                status = catch_unwind(AssertUnwindSafe(|| {
                    set = Some(PrefixFileSet::new(&prefix)?);
                    Ok(())
                }))
                .map_err(|_| ());
            }
            "P" => {
                let p = dir.join(ascii_of_tok(toks[i + 1]));
                let mtime: u64 = toks[i + 2].parse().unwrap();
                let len: u64 = toks[i + 3].parse().unwrap();
                i += 4;
                let s = set.as_mut().unwrap();
                status = catch_unwind(AssertUnwindSafe(|| {
                    s.push(PrefixFile { path: p, mtime: at(mtime), len });
                    Ok(())
                }))
                .map_err(|_| ());
            }
            "D" => {
                i += 1;
                let s = set.as_mut().unwrap();
                status = catch_unwind(AssertUnwindSafe(|| s.delete_oldest())).map_err(|_| ());
            }
            "A" => {
                let now: u64 = toks[i + 1].parse().unwrap();
                let dur: u64 = toks[i + 2].parse().unwrap();
                i += 3;
                let s = set.as_mut().unwrap();
                status = catch_unwind(AssertUnwindSafe(|| s.delete_older_than(at(now), Duration::from_millis(dur))))
                    .map_err(|_| ());
            }
            "W" => {
                let mx: u64 = toks[i + 1].parse().unwrap();
                i += 2;
                let s = set.as_mut().unwrap();
                status = catch_unwind(AssertUnwindSafe(|| s.delete_oldest_while_over_max_len(mx))).map_err(|_| ());
            }
            _ => panic!("bad set op {op}"),
        }
        match status {
            Ok(Ok(())) => out.push_str(&format!("ok {} ; ", listing(&dir))),
            Ok(Err(_)) => out.push_str(&format!("err {} ; ", listing(&dir))),
            Err(()) => {
                out.push_str("panic");
                break;
            }
        }
    }
    out
}

// ------------------------------------------------------------------------------------------ writer

const PREFIX: &str = "server.log";

fn entry_name(kind: char, idx: u32) -> String {
    match kind {
        // a name LogFile::create could have produced in an earlier run
        'g' => format!("{PREFIX}.20200101T0000{idx:02}Z-0"),
        // shares the byte prefix but is not of the generated form
        'p' => format!("{PREFIX}x{idx}"),
        // the prefix is a proper prefix of the first dot-separated part of this name (D14b)
        'q' => format!("{PREFIX}2.{idx}"),
        // merely shares the directory
        'o' => format!("other{idx}.txt"),
        // a proper prefix of the prefix
        'r' => format!("server.lo{idx}"),
        // a directory with the prefix
        'd' => format!("{PREFIX}.dir{idx}"),
        _ => panic!("bad kind"),
    }
}

fn event_of(id: u64, size: usize, ovh: usize) -> LogEvent {
    let mut msg = format!("e{id:09}");
    assert!(size >= ovh + msg.len(), "event size {size} too small");
    // every fifth event ends with a non-ASCII character directly in front of a character that needs an escape
    // (2 + 2 bytes on the line): text as real messages have it (`error reading "/srv/caf\u{e9}"`)
    let special = id % 5 == 3 && size - ovh >= msg.len() + 4;
    let fill_to = if special { size - ovh - 4 } else { size - ovh };
    while msg.len() < fill_to {
        msg.push('x');
    }
    let mut text = msg;
    if special {
        text.push('\u{e9}');
        text.push('"');
    }
    LogEvent::new(Level::Info, tag("msg", text))
}

/// (time_ns of first line, lines as (id,size)) of a generated log file; None if not parsable
fn parse_log(content: &[u8]) -> Option<(u128, Vec<(u64, usize)>)> {
    let mut lines = Vec::new();
    let mut first_ns: Option<u128> = None;
    let mut rest = content;
    while !rest.is_empty() {
        let pos = rest.iter().position(|b| *b == b'\n')?;
        let line = std::str::from_utf8(&rest[..pos]).ok()?;
        let size = pos + 1;
        rest = &rest[pos + 1..];
        let m0 = line.find("\"msg\":\"")? + 7;
        let m1 = m0 + line[m0..].find('"')?;
        let msg = &line[m0..m1];
        let id = if msg == "Starting log writer" {
            1_000_000_000
        } else if msg.starts_with('e') && msg.len() >= 10 {
            msg[1..10].parse::<u64>().ok()?
        } else {
            return None;
        };
        let t0 = line.find("\"time_ns\":")? + 10;
        let ns: u128 = line[t0..].trim_end_matches('}').parse().ok()?;
        if first_ns.is_none() {
            first_ns = Some(ns);
        }
        lines.push((id, size));
    }
    Some((first_ns.unwrap_or(u128::MAX), lines))
}

struct Snap {
    text: String,
    last_id: Option<u64>,
    gen_paths: Vec<PathBuf>,
}

fn snapshot(dir: &Path, entries: &[(String, String)]) -> Snap {
    let mut text = String::new();
    for (label, name) in entries {
        let p = dir.join(name);
        if let Ok(md) = std::fs::symlink_metadata(&p) {
            if md.is_dir() {
                text.push_str(&format!(" {label}=d"));
            } else {
                text.push_str(&format!(" {label}={}", md.len()));
            }
        }
    }
    let known: Vec<&String> = entries.iter().map(|(_, n)| n).collect();
    let mut gens: Vec<(u128, String, PathBuf, Vec<(u64, usize)>)> = Vec::new();
    for e in std::fs::read_dir(dir).unwrap() {
        let e = match e {
            Ok(e) => e,
            Err(_) => continue,
        };
        let name = e.file_name().to_string_lossy().to_string();
        if known.iter().any(|k| **k == name) {
            continue;
        }
        let content = match std::fs::read(e.path()) {
            Ok(c) => c,
            Err(_) => continue, // deleted while we were listing
        };
        match parse_log(&content) {
            Some((ns, lines)) => gens.push((ns, name, e.path(), lines)),
            None => text.push_str(&format!(" unparsable:{name}")),
        }
    }
    gens.sort_by(|a, b| (a.0, &a.1).cmp(&(b.0, &b.1)));
    let mut last_id = None;
    let mut gen_paths = Vec::new();
    for (_, _, p, lines) in &gens {
        text.push_str(" [");
        for (k, (id, size)) in lines.iter().enumerate() {
            if k > 0 {
                text.push(' ');
            }
            text.push_str(&format!("{id}:{size}"));
        }
        text.push(']');
        last_id = lines.last().map(|x| x.0);
        gen_paths.push(p.clone());
    }
    Snap { text, last_id, gen_paths }
}

fn settle(dir: &Path, entries: &[(String, String)], want: u64) -> Result<Snap, String> {
    let deadline = Instant::now() + Duration::from_secs(6);
    loop {
        if THREAD_PANICKED.load(Ordering::SeqCst) {
            return Err("panic".to_string());
        }
        let s = snapshot(dir, entries);
        if s.last_id == Some(want) {
            // The append is the last action of a loop iteration and the thread now blocks in
            // recv(): the directory is quiescent.  The snapshot above may have straddled the
            // iteration, so take it again.
            let s2 = snapshot(dir, entries);
            if s2.last_id == Some(want) && s2.text == snapshot(dir, entries).text {
                return Ok(s2);
            }
        }
        if Instant::now() > deadline {
            return Err(format!("timeout{}", s.text));
        }
        std::thread::sleep(Duration::from_micros(300));
    }
}

fn writer_case(toks: &[&str]) -> String {
    THREAD_PANICKED.store(false, Ordering::SeqCst);
    let prev = std::panic::take_hook();
    std::panic::set_hook(Box::new(|_| {
        THREAD_PANICKED.store(true, Ordering::SeqCst);
    }));
    let r = writer_case_inner(toks);
    std::panic::set_hook(prev);
    r
}

fn writer_case_inner(toks: &[&str]) -> String {
    let td = temp_dir::TempDir::new().unwrap();
    let dir: PathBuf = td.path().canonicalize().unwrap();
    // the path prefix is spelled in one of three equivalent ways (by the number of tokens of the case): plain, with a
    // doubled separator, with a "." component -- the files of earlier runs belong to the same log whatever the spelling
    let prefix = match toks.len() % 3 {
        0 => dir.join(PREFIX),
        1 => PathBuf::from(format!("{}//{}", dir.display(), PREFIX)),
        _ => PathBuf::from(format!("{}/./{}", dir.display(), PREFIX)),
    };
    // the sizes the library's own serialiser produces
    let mut probe: Vec<u8> = Vec::new();
    LogEvent::new(Level::Info, tag("msg", "")).write_jsonl(&mut probe).unwrap();
    let ovh = probe.len();
    let s0 = ovh + "Starting log writer".len();
    let mut out = format!("ovh={ovh} s0={s0}");
    let t_case = SystemTime::now(); // ages of pre-existing entries count back from here (equal ages = equal mtimes)
    let mut entries: Vec<(String, String)> = Vec::new(); // (label, file name)
    let mut sender: Option<SyncSender<LogEvent>> = None;
    let mut next_id: u64 = 0;
    let mut last_written: u64 = 1_000_000_000;
    let mut hold_ms: u64 = 0;
    let mut i = 0;
    while i < toks.len() {
        let t = toks[i];
        if t == "E" {
            let label = toks[i + 1];
            let kind = label.chars().next().unwrap();
            let idx: u32 = label[1..].parse().unwrap();
            let size: usize = toks[i + 2].parse().unwrap();
            let age_ms: u64 = toks[i + 3].parse().unwrap();
            let name = entry_name(kind, idx);
            let p = dir.join(&name);
            if kind == 'd' {
                std::fs::create_dir(&p).unwrap();
            } else {
                let mut f = File::create(&p).unwrap();
                let mut content = vec![b'#'; size];
                if size > 0 {
                    content[size - 1] = b'\n';
                }
                f.write_all(&content).unwrap();
                f.set_modified(t_case - Duration::from_millis(age_ms)).unwrap();
            }
            entries.push((label.to_string(), name));
            i += 4;
        } else if t == "S" {
            let mw: u64 = toks[i + 1].parse().unwrap();
            let mk: u64 = toks[i + 2].parse().unwrap();
            let ka: u64 = toks[i + 3].parse().unwrap();
            let wa: u64 = toks[i + 4].parse().unwrap();
            i += 5;
            let mut b = LogFileWriter::new_builder(prefix.clone(), mk).with_max_write_bytes(mw);
            if ka > 0 {
                b = b.with_max_keep_age(Duration::from_secs(ka));
            }
            if wa > 0 {
                b = b.with_max_write_age(Duration::from_secs(wa));
            }
            match catch_unwind(AssertUnwindSafe(|| b.start_writer_thread())) {
                Ok(Ok(s)) => sender = Some(s),
                Ok(Err(_)) => {
                    out.push_str(" | starterr");
                    return out;
                }
                Err(_) => {
                    out.push_str(" | panic");
                    return out;
                }
            }
            last_written = 1_000_000_000;
        } else if let Some(sz) = t.strip_prefix('e') {
            let size: usize = sz.parse().unwrap();
            i += 1;
            let ev = event_of(next_id, size, ovh);
            if hold_ms > 0 {
                std::thread::sleep(Duration::from_millis(hold_ms));
                hold_ms = 0;
            }
            if sender.as_ref().unwrap().send(ev).is_err() {
                out.push_str(" | panic");
                return out;
            }
            last_written = next_id;
            next_id += 1;
        } else if t == "snap" {
            i += 1;
            match settle(&dir, &entries, last_written) {
                Ok(s) => out.push_str(&format!(" |{}", s.text)),
                Err(e) => {
                    out.push_str(&format!(" | {e}"));
                    return out;
                }
            }
        } else if t == "X" {
            let gap_ms: u64 = toks[i + 1].parse().unwrap();
            i += 2;
            match settle(&dir, &entries, last_written) {
                Ok(s) => {
                    out.push_str(&format!(" |{}", s.text));
                    sender = None; // the thread drains (nothing left), syncs and ends
                    // give the generated files distinct, increasing mtimes: newest is gap_ms old
                    let now = SystemTime::now();
                    let k = s.gen_paths.len() as u64;
                    for (j, p) in s.gen_paths.iter().enumerate() {
                        let age = gap_ms + (k - 1 - j as u64);
                        // the writer may still hold the last file open; setting mtime by path is fine
                        let f = OpenOptions::new().write(true).open(p).unwrap();
                        f.set_modified(now - Duration::from_millis(age)).unwrap();
                    }
                }
                Err(e) => {
                    out.push_str(&format!(" | {e}"));
                    return out;
                }
            }
        } else if t == "H" {
            hold_ms = toks[i + 1].parse().unwrap();
            i += 2;
        } else if t == "Z" {
            let ms: u64 = toks[i + 1].parse().unwrap();
            i += 2;
            std::thread::sleep(Duration::from_millis(ms));
        } else {
            panic!("bad writer token {t}");
        }
    }
    drop(sender);
    out
}

fn main() {
    run_lines(|toks| match toks[0] {
        "set" => set_case(&toks[1..]),
        "writer" => writer_case(&toks[1..]),
        _ => "?".to_string(),
    });
}
