//! C06 harness: drives the real `servlin::internal::write_http_response` into a scripted writer,
//! and dumps the real reason-phrase / content-type tables.
//! cases:
//!   resp <close 0|1> <response tokens, see respcase.rs> w:<wops> <pend>
//!        -> <ok|ErrorVariant> <wire (run-length token)> rp=<hex token> ct=<hex token>
//!   rp <code>   -> x<hex of reason_phrase(code)>
//!   ct <idx>    -> x<hex of ContentType::as_str()>
#[path = "../respcase.rs"]
mod respcase;
#[path = "../sio.rs"]
mod sio;
use servlin::internal::{reason_phrase, write_http_response};
use sio::*;
use svharness::*;

fn resp(toks: &[&str]) -> String {
    let close = toks[0] == "1";
    let (built, used) = respcase::build(&toks[1..]);
    let rest = &toks[1 + used..];
    let pend: u32 = rest[1].parse().unwrap();
    let mut writer = ScriptWriter::new(parse_wsched(rest[0]), None, true, pend & 2 != 0);
    // through the byte counter HttpConn::write_response puts in front of the socket (it must be transparent)
    let (res, counted) = {
        let mut counter = servlin::internal::AsyncWriteCounter::new(&mut writer);
        let res = futures_lite::future::block_on(write_http_response(&mut counter, &built.response, close));
        (res, counter.num_bytes_written())
    };
    if counted != writer.out.len() as u64 {
        return format!("counter-says-{counted}-sink-took-{}", writer.out.len());
    }
    let r = match &res {
        Ok(()) => "ok".to_string(),
        Err(e) => respcase::err_name(e),
    };
    format!(
        "{r} {} rp={} ct={}",
        rle(&writer.out),
        tok_of_bytes(reason_phrase(built.response.code).as_bytes()),
        tok_of_bytes(built.response.content_type.as_str().as_bytes())
    )
}

fn main() {
    run_lines(|toks| match toks[0] {
        "resp" => resp(&toks[1..]),
        "rp" => tok_of_bytes(reason_phrase(toks[1].parse().unwrap()).as_bytes()),
        "ct" => tok_of_bytes(respcase::variant(toks[1].parse().unwrap()).as_str().as_bytes()),
        _ => "?".to_string(),
    });
}
