//! C06 harness: drives the real `servlin::internal::write_http_response` into a scripted writer,
//! and dumps the real reason-phrase / content-type tables.
//! cases:
//!   resp <close 0|1> <response tokens, see respcase.rs> w:<wops> <pend>
//!        -> <ok|ErrorVariant> <wire (run-length token)> rp=<hex token> ct=<hex token>
//!   rp <code>   -> x<hex of reason_phrase(code)>
//!   ct <idx>    -> x<hex of ContentType::as_str()>
#[path = "../respcase.rs"]
mod respcase;
#[path = "../sio.rs"]
mod sio;
use servlin::internal::{reason_phrase, write_http_response};
use sio::*;
use svharness::*;

fn resp(toks: &[&str]) -> String {
    let close = toks[0] == "1";
    let (built, used) = respcase::build(&toks[1..]);
    let rest = &toks[1 + used..];
    let pend: u32 = rest[1].parse().unwrap();
    let mut writer = ScriptWriter::new(parse_wsched(rest[0]), None, true, pend & 2 != 0);
    // through the byte counter HttpConn::write_response puts in front of the socket (it must be transparent)
    let (res, counted) = {
        let mut counter = servlin::internal::AsyncWriteCounter::new(&mut writer);
        let res = futures_lite::future::block_on(write_http_response(&mut counter, &built.response, close));
        (res, counter.num_bytes_written())
    };
    if counted != writer.out.len() as u64 {
        return format!("counter-says-{counted}-sink-took-{}", writer.out.len());
    }
    let r = match &res {
        Ok(()) => "ok".to_string(),
        Err(e) => respcase::err_name(e),
    };
    format!(
        "{r} {} rp={} ct={}",
        rle(&writer.out),
        tok_of_bytes(reason_phrase(built.response.code).as_bytes()),
        tok_of_bytes(built.response.content_type.as_str().as_bytes())
    )
}

/// `dual <size> <stall_at>`: two responses with the SAME file as body, overlapping: the first is hand-polled until its
/// writer has taken <stall_at> bytes and stalls (Pending), then the second is written completely, then the first is
/// let go.  Each must carry the whole file: responses do not share read positions.
fn dual(toks: &[&str]) -> String {
    use std::future::Future;
    use std::sync::atomic::{AtomicBool, Ordering::SeqCst};
    use std::sync::Arc;
    use std::task::{Context, Poll};
    struct GateWriter {
        out: Vec<u8>,
        limit: usize,
        open: Arc<AtomicBool>,
    }
    impl futures_io::AsyncWrite for GateWriter {
        fn poll_write(mut self: std::pin::Pin<&mut Self>, _cx: &mut Context<'_>, buf: &[u8]) -> Poll<std::io::Result<usize>> {
            if self.open.load(SeqCst) {
                self.out.extend_from_slice(buf);
                return Poll::Ready(Ok(buf.len()));
            }
            let room = self.limit.saturating_sub(self.out.len());
            if room == 0 {
                return Poll::Pending; // hand-polled: no waker needed
            }
            let n = room.min(buf.len());
            self.out.extend_from_slice(&buf[..n]);
            Poll::Ready(Ok(n))
        }
        fn poll_flush(self: std::pin::Pin<&mut Self>, _cx: &mut Context<'_>) -> Poll<std::io::Result<()>> {
            Poll::Ready(Ok(()))
        }
        fn poll_close(self: std::pin::Pin<&mut Self>, _cx: &mut Context<'_>) -> Poll<std::io::Result<()>> {
            Poll::Ready(Ok(()))
        }
    }
    let size: usize = toks[0].parse().unwrap();
    let stall_at: usize = toks[1].parse().unwrap();
    let data: Vec<u8> = (0..size).map(|i| ((i * 7 + 3) % 251) as u8).collect();
    let dir = temp_dir::TempDir::new().unwrap();
    let path = dir.path().join("body.bin");
    std::fs::write(&path, &data).unwrap();
    let r1 = servlin::Response::new(200).with_body(servlin::ResponseBody::File(path.clone(), size as u64));
    let r2 = servlin::Response::new(200).with_body(servlin::ResponseBody::File(path.clone(), size as u64));
    let open = Arc::new(AtomicBool::new(false));
    let mut w1 = GateWriter { out: Vec::new(), limit: stall_at, open: open.clone() };
    let mut w2: Vec<u8> = Vec::new();
    let res1;
    let res2;
    {
        let mut fut1 = Box::pin(write_http_response(&mut w1, &r1, false));
        let waker = futures_lite::future::block_on(async { std::task::Waker::noop().clone() });
        let mut cx = Context::from_waker(&waker);
        let mut early = None;
        // until the first response stalls (its reader works on a blocking pool: give it time)
        for _ in 0..400 {
            if let Poll::Ready(r) = fut1.as_mut().poll(&mut cx) {
                early = Some(r);
                break;
            }
            std::thread::sleep(std::time::Duration::from_millis(1));
        }
        res2 = futures_lite::future::block_on(write_http_response(&mut w2, &r2, false));
        open.store(true, SeqCst);
        let t0 = std::time::Instant::now();
        res1 = loop {
            if let Some(r) = early.take() {
                break Some(r);
            }
            match fut1.as_mut().poll(&mut cx) {
                Poll::Ready(r) => break Some(r),
                Poll::Pending if t0.elapsed() > std::time::Duration::from_secs(20) => break None,
                Poll::Pending => std::thread::sleep(std::time::Duration::from_millis(1)),
            }
        };
    }
    let show = |res: &Option<Result<(), servlin::internal::HttpError>>, out: &[u8]| {
        let r = match res {
            None => "hang".to_string(),
            Some(Ok(())) => "ok".to_string(),
            Some(Err(e)) => respcase::err_name(e),
        };
        let body_ok = out.len() >= size && out[out.len() - size..] == data[..] && out.starts_with(b"HTTP/1.1 200 ");
        format!("{r} whole={}", u8::from(body_ok))
    };
    format!("first: {} second: {}", show(&res1, &w1.out), show(&Some(res2), &w2))
}

fn main() {
    run_lines(|toks| match toks[0] {
        "resp" => resp(&toks[1..]),
        "dual" => dual(&toks[1..]),
        "rp" => tok_of_bytes(reason_phrase(toks[1].parse().unwrap()).as_bytes()),
        "ct" => tok_of_bytes(respcase::variant(toks[1].parse().unwrap()).as_str().as_bytes()),
        _ => "?".to_string(),
    });
}
