//! C12 harness: token pool API sequences, accept_loop driven directly, full-server scenarios.
//! The scenario code is shared: src/srv_common.rs (public API only) and src/acc_common.rs
//! (servlin::internal::{TokenSet, Token, accept_loop}).
#[path = "../srv_common.rs"]
mod srv_common;
#[path = "../acc_common.rs"]
mod acc_common;
fn main() {
    acc_common::main_common();
}
