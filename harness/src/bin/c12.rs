//! C12 harness: token pool API sequences, accept_loop driven directly, full-server scenarios.
//! The scenario driver is shared with C13 (src/acc_common.rs).
#[path = "../acc_common.rs"]
mod acc_common;
fn main() {
    acc_common::main_common();
}
