//! C05 harness: drives a real servlin::HttpConn over a loop-back TCP pair.  The client has written
//! its whole script and half-closed before the first operation, so every server-side call
//! completes deterministically.
use servlin::internal::{HttpConn, HttpError, ReadState, WriteState};
use servlin::{AsciiString, RequestBody, Response};
use std::io::{Read, Write};
use svharness::*;

fn err_name(e: &HttpError) -> String {
    let s = format!("{e:?}");
    s.split('(').next().unwrap().to_string()
}

fn rs_str(rs: &ReadState) -> String {
    match rs {
        ReadState::Head => "Head".to_string(),
        ReadState::Body { len, expect_continue, chunked, gzip } => format!(
            "Body({},{},{},{})",
            len.map_or("-".to_string(), |n| n.to_string()),
            u8::from(*expect_continue),
            u8::from(*chunked),
            u8::from(*gzip)
        ),
        ReadState::Shutdown => "Shutdown".to_string(),
    }
}
fn ws_str(ws: &WriteState) -> &'static str {
    match ws {
        WriteState::None => "None",
        WriteState::Response => "Response",
        WriteState::Shutdown => "Shutdown",
    }
}

pub fn make_response(code: u16, variant: &str) -> Response {
    match variant {
        "n" => Response::new(code),
        "t" => Response::text(code, "hi"),
        "d" => Response::drop_connection(),
        "g" => Response::get_body_and_reprocess(5),
        "cl" => Response::new(code).with_header("Content-Length", AsciiString::try_from("3").unwrap()),
        "ct" => Response::text(code, "hi").with_header("content-type", AsciiString::try_from("x/y").unwrap()),
        "te" => Response::new(code).with_header("transfer-encoding", AsciiString::try_from("chunked").unwrap()),
        // the conflicting field TWICE (in two spellings): a guard that asks for "the only" such field sees none
        "cl2" => Response::new(code)
            .with_header("Content-Length", AsciiString::try_from("3").unwrap())
            .with_header("content-length", AsciiString::try_from("3").unwrap()),
        "ct2" => Response::text(code, "hi")
            .with_header("content-type", AsciiString::try_from("x/y").unwrap())
            .with_header("Content-Type", AsciiString::try_from("x/y").unwrap()),
        "te2" => Response::new(code)
            .with_header("transfer-encoding", AsciiString::try_from("chunked").unwrap())
            .with_header("Transfer-Encoding", AsciiString::try_from("chunked").unwrap()),
        "h" => Response::new(code).with_header("x-a", AsciiString::try_from("b c").unwrap()),
        // body-source faults after the head is on the wire: a file that cannot be opened, and a
        // file shorter than its declared length
        "fm" => Response::new(code).with_body(servlin::ResponseBody::File(
            std::path::PathBuf::from("/nonexistent-file-servlin-verif"),
            10,
        )),
        "fs" => {
            let p = std::env::temp_dir().join(format!("servlin-verif-short-{}", std::process::id()));
            std::fs::write(&p, b"abc").unwrap();
            Response::new(code).with_body(servlin::ResponseBody::File(p, 10))
        }
        _ => panic!("bad response variant"),
    }
}

fn drain(client: &mut std::net::TcpStream) -> Vec<u8> {
    let mut out = Vec::new();
    let mut buf = [0u8; 65536];
    let mut idle = 0;
    loop {
        match client.read(&mut buf) {
            Ok(0) => break,
            Ok(n) => {
                out.extend_from_slice(&buf[..n]);
                idle = 0;
            }
            Err(_) => {
                idle += 1;
                if idle >= 2 {
                    break;
                }
                std::thread::sleep(std::time::Duration::from_micros(40));
            }
        }
    }
    out
}

fn body_str(r: Result<RequestBody, HttpError>) -> String {
    match r {
        Err(e) => format!("err {}", err_name(&e)),
        Ok(RequestBody::Vec(v)) => format!("vec {}", tok_of_bytes(&v)),
        Ok(RequestBody::TempFile(f, len)) => {
            let data = std::fs::read(f.path()).unwrap();
            assert_eq!(data.len() as u64, len);
            format!("file {}", tok_of_bytes(&data))
        }
        Ok(other) => format!("other {other:?}"),
    }
}

fn case(toks: &[&str]) -> String {
    let script = bytes_of_tok(toks[0]);
    let listener = std::net::TcpListener::bind("127.0.0.1:0").unwrap();
    let addr = listener.local_addr().unwrap();
    let mut client = std::net::TcpStream::connect(addr).unwrap();
    let (server_std, peer) = listener.accept().unwrap();
    client.write_all(&script).unwrap();
    client.shutdown(std::net::Shutdown::Write).unwrap();
    client.set_nonblocking(true).unwrap();
    let stream = async_net::TcpStream::try_from(server_std).unwrap();
    let mut conn = HttpConn::new(peer, stream);
    let tmp = temp_dir::TempDir::new().unwrap();
    let mut out = String::new();
    let mut i = 1;
    while i < toks.len() {
        let res = match toks[i] {
            "RR" => {
                i += 1;
                match futures_lite::future::block_on(conn.read_request()) {
                    Err(e) => format!("err {}", err_name(&e)),
                    Ok(req) => {
                        let bk = match &req.body {
                            RequestBody::PendingKnown(n) => format!("known{n}"),
                            RequestBody::PendingUnknown => "unknown".to_string(),
                            _ => "none".to_string(),
                        };
                        format!(
                            "req {bk} {} {}",
                            tok_of_bytes(req.method.as_bytes()),
                            tok_of_bytes(req.url.path().as_bytes())
                        )
                    }
                }
            }
            "BV" => {
                i += 1;
                body_str(futures_lite::future::block_on(conn.read_body_to_vec()))
            }
            "BF" => {
                let dir_ok = toks[i + 1] == "1";
                let max: u64 = toks[i + 2].parse().unwrap();
                i += 3;
                let dir = if dir_ok { tmp.path().to_path_buf() } else { std::path::PathBuf::from("/nonexistent-dir-servlin-verif") };
                body_str(futures_lite::future::block_on(conn.read_body_to_file(&dir, max)))
            }
            "CO" => {
                i += 1;
                match futures_lite::future::block_on(conn.write_http_continue()) {
                    Ok(()) => "ok".to_string(),
                    Err(e) => format!("err {}", err_name(&e)),
                }
            }
            "WR" => {
                let code: u16 = toks[i + 1].parse().unwrap();
                let resp = make_response(code, toks[i + 2]);
                i += 3;
                match futures_lite::future::block_on(conn.write_response(&resp)) {
                    Ok(()) => "ok".to_string(),
                    Err(e) => format!("err {}", err_name(&e)),
                }
            }
            "SH" => {
                i += 1;
                conn.shutdown_write();
                "ok".to_string()
            }
            t => panic!("bad op {t}"),
        };
        let delta = drain(&mut client);
        out.push_str(&format!(
            "{res} rs={} ws={} rdy={} w={} ; ",
            rs_str(&conn.read_state),
            ws_str(&conn.write_state),
            u8::from(conn.is_ready()),
            tok_of_bytes(&delta)
        ));
    }
    // no temp file may outlive the bodies handed out (they were dropped above)
    let left = std::fs::read_dir(tmp.path()).unwrap().count();
    out.push_str(&format!("files={left}"));
    out
}

fn tables() -> String {
    let mut out = format!("tables plain={}", tok_of_bytes(servlin::ContentType::PlainText.as_str().as_bytes()));
    for code in 0..1000u16 {
        out.push_str(&format!(" r{code}={}", tok_of_bytes(servlin::internal::reason_phrase(code).as_bytes())));
    }
    out
}

fn main() {
    run_lines(|toks| if toks[0] == "tables" { tables() } else { case(toks) });
}
