//! C07 harness: drives the real `servlin::internal::copy_chunked_async` with a scripted reader and
//! a scripted, recording writer.
//! case: cc <data> r:<rops> w:<wops> <budget|-> <pend>     (pend: bit 0 reader, bit 1 writer)
//! obs:  ok <n> <out> | rerr 0 <out> | werr 0 <out>
#[path = "../sio.rs"]
mod sio;
use servlin::internal::{copy_chunked_async, CopyResult};
use sio::*;
use svharness::*;

fn cc(toks: &[&str]) -> String {
    let data = data_of_tok(toks[0]);
    let pend: u32 = toks[4].parse().unwrap();
    let mut reader = ScriptReader::new(data, parse_rsched(toks[1]), pend & 1 != 0);
    let mut writer = ScriptWriter::new(parse_wsched(toks[2]), parse_budget(toks[3]), true, pend & 2 != 0);
    let res = futures_lite::future::block_on(copy_chunked_async(&mut reader, &mut writer));
    match res {
        CopyResult::Ok(n) => format!("ok {n} {}", rle(&writer.out)),
        CopyResult::ReaderErr(_) => format!("rerr 0 {}", rle(&writer.out)),
        CopyResult::WriterErr(_) => format!("werr 0 {}", rle(&writer.out)),
    }
}

fn main() {
    run_lines(|toks| match toks[0] {
        "cc" => cc(&toks[1..]),
        _ => "?".to_string(),
    });
}
