//! C07 harness: drives the real `servlin::internal::copy_chunked_async` with a scripted reader and
//! a scripted, recording writer.
//! case: cc <data> r:<rops> w:<wops> <budget|-> <pend>     (pend: bit 0 reader, bit 1 writer)
//! obs:  ok <n> <out> | rerr 0 <out> | werr 0 <out>
#[path = "../sio.rs"]
mod sio;
use servlin::internal::{copy_chunked_async, AsyncWriteCounter, CopyResult};
use sio::*;
use svharness::*;

fn cc(toks: &[&str]) -> String {
    let data = data_of_tok(toks[0]);
    let pend: u32 = toks[4].parse().unwrap();
    let mut reader = ScriptReader::new(data, parse_rsched(toks[1]), pend & 1 != 0);
    let mut writer = ScriptWriter::new(parse_wsched(toks[2]), parse_budget(toks[3]), true, pend & 2 != 0);
    // through the byte counter HttpConn::write_response puts in front of the socket (it must be transparent: same
    // bytes, same short writes, same Pending, and its count is what the sink accepted)
    let (res, counted) = {
        let mut counter = AsyncWriteCounter::new(&mut writer);
        let res = futures_lite::future::block_on(copy_chunked_async(&mut reader, &mut counter));
        (res, counter.num_bytes_written())
    };
    if counted != writer.out.len() as u64 {
        return format!("counter-says-{counted}-sink-took-{}", writer.out.len());
    }
    match res {
        CopyResult::Ok(n) => format!("ok {n} {}", rle(&writer.out)),
        CopyResult::ReaderErr(_) => format!("rerr 0 {}", rle(&writer.out)),
        CopyResult::WriterErr(_) => format!("werr 0 {}", rle(&writer.out)),
    }
}

fn main() {
    run_lines(|toks| match toks[0] {
        "cc" => cc(&toks[1..]),
        _ => "?".to_string(),
    });
}
