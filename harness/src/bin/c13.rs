//! C13 harness: graceful-shutdown scenarios (accept_loop driven directly and the full server).
//! The scenario driver is shared with C12 (src/acc_common.rs).
#[path = "../acc_common.rs"]
mod acc_common;
fn main() {
    acc_common::main_common();
}
