//! C17 harness: renders log events with the real `LogEvent::write_jsonl` and prints the bytes.
//!
//! case syntax (one per line):
//!   ev <level> <k> { <name:u-token> <value> }*k     one event built with LogEvent::new
//!   chars <lo> <n>                                  n events, each with the single tag c = the
//!                                                   one-character string U+lo+i (non-scalars skipped)
//!   file <level> <k> { <name> <value> }*k          the same event through LogFileWriter, read back from the directory
//!   resp <handler result>                           the log_response path, see `resp()`
//! value / handler-result syntax: see ../logshared.rs
//! observation:  F<m> <x-token of each float's Display text>*m L <x-token of the line bytes>
//!   (chars: C<n> followed by n line tokens).  The time and time_ns members vary per call; the
//!   driver reads them from this line and instantiates the model with them.
use servlin::log::internal::{LogEvent, Tag};
use servlin::log::Level;
use std::sync::mpsc::{sync_channel, Receiver};
use std::sync::Mutex;
use svharness::*;
#[path = "../logshared.rs"]
mod logshared;
use logshared::{handler_result, level, static_name, value};

/// Receiver of the logger installed for the `resp` cases.
static RX: Mutex<Option<Receiver<LogEvent>>> = Mutex::new(None);

/// A sink that fails once `limit` bytes have been accepted (a full disk, a closed pipe).
struct FailAfter {
    limit: usize,
    taken: usize,
}
impl std::io::Write for FailAfter {
    fn write(&mut self, buf: &[u8]) -> std::io::Result<usize> {
        if self.taken >= self.limit {
            return Err(std::io::Error::new(std::io::ErrorKind::Other, "scripted sink failure"));
        }
        let n = buf.len().min(self.limit - self.taken);
        self.taken += n;
        Ok(n)
    }
    fn flush(&mut self) -> std::io::Result<()> {
        Ok(())
    }
}

/// The line of an event must not depend on what was written before on the same thread -- in particular not on an
/// earlier write that FAILED part-way: before every rendering the same event is first written into a sink that
/// fails after a case-dependent number of bytes (0, 1, ... up to the line length), and the error is ignored.
fn render(ev: &LogEvent) -> String {
    let mut probe: Vec<u8> = Vec::new();
    ev.write_jsonl(&mut probe).unwrap();
    static ROUND: std::sync::atomic::AtomicUsize = std::sync::atomic::AtomicUsize::new(0);
    let r = ROUND.fetch_add(1, std::sync::atomic::Ordering::SeqCst);
    let limit = (r.wrapping_mul(7919) + r / 3) % (probe.len() + 1);
    let _ = ev.write_jsonl(&mut FailAfter { limit, taken: 0 });
    let mut out = Units { buf: Vec::new(), units: 0 };
    ev.write_jsonl(&mut out).unwrap();
    tok_of_bytes(&out.buf)
}

/// The sink the line is observed through.  A shared sink such as `std::io::Stdout` (the stdout JSONL logger writes to
/// it unlocked) is locked per top-level call -- one `write_fmt`, one `write_all`, one `write` -- and other writers of
/// the process get in between two calls.  This sink plays that other writer at its worst: it puts a line feed
/// between any two top-level calls, so an event handed over in several calls is observed as several lines.
struct Units {
    buf: Vec<u8>,
    units: usize,
}
impl Units {
    fn unit(&mut self) {
        if self.units > 0 {
            self.buf.push(b'\n');
        }
        self.units += 1;
    }
}
impl std::io::Write for Units {
    /// `write` may accept fewer bytes than offered (a pipe that is nearly full, a socket): this sink takes at most
    /// 11 per call.  Whoever calls it directly has to look at the count; `write_all` and `write_fmt` do.
    fn write(&mut self, b: &[u8]) -> std::io::Result<usize> {
        self.unit();
        let n = b.len().min(11);
        self.buf.extend_from_slice(&b[..n]);
        Ok(n)
    }
    fn write_all(&mut self, b: &[u8]) -> std::io::Result<()> {
        self.unit();
        self.buf.extend_from_slice(b);
        Ok(())
    }
    fn write_fmt(&mut self, args: std::fmt::Arguments<'_>) -> std::io::Result<()> {
        self.unit();
        self.buf.write_fmt(args)
    }
    fn flush(&mut self) -> std::io::Result<()> {
        Ok(())
    }
}

fn ev(toks: &[&str]) -> String {
    let lvl = level(toks[0]);
    let k: usize = toks[1].parse().unwrap();
    let mut floats = Vec::new();
    let mut tags: Vec<Tag> = Vec::new();
    for i in 0..k {
        let name = static_name(&string_of_scalars_tok(toks[2 + 2 * i]));
        let v = value(toks[3 + 2 * i], &mut floats);
        tags.push(Tag::new(name, v));
    }
    let e = LogEvent::new(lvl, tags);
    let mut s = format!("F{}", floats.len());
    for f in &floats {
        s.push(' ');
        s.push_str(&tok_of_bytes(f.as_bytes()));
    }
    s.push_str(" L ");
    s.push_str(&render(&e));
    s
}

/// file <level> <k> tags..: the event goes through the library's file log writer (LogFileWriter, max_write_bytes at
/// its minimum of 64 KiB, so that long events exceed it) and is read back from the directory: everything the writer
/// put behind its own "Starting log writer" line.  observation as for `ev`.
fn file_case(toks: &[&str]) -> String {
    let lvl = level(toks[0]);
    let k: usize = toks[1].parse().unwrap();
    let mut floats = Vec::new();
    let mut tags: Vec<Tag> = Vec::new();
    for i in 0..k {
        let name = static_name(&string_of_scalars_tok(toks[2 + 2 * i]));
        let v = value(toks[3 + 2 * i], &mut floats);
        tags.push(Tag::new(name, v));
    }
    let e = LogEvent::new(lvl, tags);
    let td = temp_dir::TempDir::new().unwrap();
    let prefix = td.path().join("log");
    // a file an earlier run left behind: small, recent, and ending in the middle of a line (the run was killed, or the
    // disk was full).  Every event of THIS run, the writer's own start event included, still gets a line of its own.
    std::fs::write(td.path().join("log.20200101T000000Z-0"), b"{\"time\":\"2020-01-01T00:00:00Z\",\"level\":\"info\",\"msg\":\"cut he").unwrap();
    let sender = match servlin::log::LogFileWriter::new_builder(prefix, 50 * 1024 * 1024)
        .with_max_write_bytes(64 * 1024)
        .start_writer_thread()
    {
        Ok(s) => s,
        Err(_) => return "starterr".to_string(),
    };
    if sender.send(e).is_err() {
        return "panic".to_string();
    }
    let read_all = || -> Vec<u8> {
        let mut names: Vec<_> = std::fs::read_dir(td.path()).unwrap().filter_map(|d| d.ok()).map(|d| d.path()).collect();
        names.sort();
        let mut all = Vec::new();
        for p in names {
            all.extend(std::fs::read(p).unwrap_or_default());
        }
        all
    };
    // the writer's thread is done with the event when the directory holds at least two lines and is quiet
    let t0 = std::time::Instant::now();
    let mut last = read_all();
    loop {
        std::thread::sleep(std::time::Duration::from_millis(20));
        let now = read_all();
        let lines = now.iter().filter(|b| **b == b'\n').count();
        if (now == last && lines >= 2) || t0.elapsed() > std::time::Duration::from_secs(4) {
            last = now;
            break;
        }
        last = now;
    }
    drop(sender);
    // the leftover's unterminated tail is not a line of this run: take it off the front (file names sort it first)
    let leftover_len = b"{\"time\":\"2020-01-01T00:00:00Z\",\"level\":\"info\",\"msg\":\"cut he".len();
    // the file that ends in the middle of a line must not have been continued: whatever is appended to it shares a
    // physical line with the cut one
    let glued = std::fs::read(td.path().join("log.20200101T000000Z-0")).map(|c| c.len() != leftover_len).unwrap_or(true);
    let last: Vec<u8> = last[leftover_len.min(last.len())..].to_vec();
    let start_end = last.iter().position(|b| *b == b'\n').map_or(0, |p| p + 1);
    let start_line = &last[..start_end];
    let start_ok = !glued
        && start_line.starts_with(b"{\"time\":\"")
        && {
            let pat: &[u8] = b"\"msg\":\"Starting log writer\"";
            start_line.windows(pat.len()).any(|w| w == pat)
        }
        && start_line.ends_with(b"}\n");
    let mut s = format!("F{}", floats.len());
    for f in &floats {
        s.push(' ');
        s.push_str(&tok_of_bytes(f.as_bytes()));
    }
    s.push_str(" L ");
    s.push_str(&tok_of_bytes(&last[start_end..]));
    if !start_ok {
        // reported by making the observation unparsable for the driver: the start event has no line of its own
        return format!("start-event-has-no-line-of-its-own {}", tok_of_bytes(&start_line[..start_line.len().min(120)]));
    }
    s
}

/// evt <secs> <nanos> <level> <k> tags..: like `ev`, but the event carries the given time (UNIX_EPOCH + secs + nanos):
/// it is logged with servlin::log::internal::log(time, ..) to the channel logger and rendered from there.  The time
/// and time_ns members must come out right for every instant, the first second after the epoch included.
fn evt(toks: &[&str]) -> String {
    let secs: u64 = toks[0].parse().unwrap();
    let nanos: u32 = toks[1].parse().unwrap();
    let lvl = level(toks[2]);
    let k: usize = toks[3].parse().unwrap();
    let mut floats = Vec::new();
    let mut tags: Vec<Tag> = Vec::new();
    for i in 0..k {
        let name = static_name(&string_of_scalars_tok(toks[4 + 2 * i]));
        let v = value(toks[5 + 2 * i], &mut floats);
        tags.push(Tag::new(name, v));
    }
    let time = std::time::UNIX_EPOCH + std::time::Duration::new(secs, nanos);
    if servlin::log::internal::log(time, lvl, tags).is_err() {
        return "panic".to_string();
    }
    let g = RX.lock().unwrap_or_else(std::sync::PoisonError::into_inner);
    let rx = g.as_ref().unwrap();
    let Ok(e) = rx.try_recv() else { return "panic".to_string() };
    let mut s = format!("F{}", floats.len());
    for f in &floats {
        s.push(' ');
        s.push_str(&tok_of_bytes(f.as_bytes()));
    }
    s.push_str(" L ");
    s.push_str(&render(&e));
    // the time_ns member is the instant in nanoseconds, as a JSON number
    let line = String::from_utf8_lossy(&bytes_of_tok(&render(&e))).to_string();
    let want = format!("\"time_ns\":{}}}", u128::from(secs) * 1_000_000_000 + u128::from(nanos));
    if !line.trim_end().ends_with(&want) {
        return format!("time_ns-member-is-not-{}", u128::from(secs) * 1_000_000_000 + u128::from(nanos));
    }
    s
}

fn chars(toks: &[&str]) -> String {
    let lo: u32 = toks[0].parse().unwrap();
    let n: u32 = toks[1].parse().unwrap();
    let mut lines = Vec::new();
    for c in lo..lo + n {
        if let Some(ch) = char::from_u32(c) {
            let e = LogEvent::new(Level::Info, vec![Tag::new("c", ch.to_string())]);
            lines.push(render(&e));
        }
    }
    format!("C{} {}", lines.len(), lines.join(" "))
}

/// resp <handler result>: servlin::log::log_response(result) with a channel logger installed; the
/// event is taken from the channel and rendered with write_jsonl.
/// observation: <R code len id | S> F<m> <float texts> L <line bytes>
fn resp(toks: &[&str]) -> String {
    let mut floats = Vec::new();
    let mut i = 0;
    let result = handler_result(toks, &mut i, &mut floats);
    let ret = servlin::log::log_response(result);
    let g = RX.lock().unwrap_or_else(std::sync::PoisonError::into_inner);
    let rx = g.as_ref().unwrap();
    let mut lines = Vec::new();
    while let Ok(e) = rx.try_recv() {
        lines.push(render(&e));
    }
    let mut s = match &ret {
        Ok(r) => logshared::show_response(r),
        Err(_) => "S".to_string(),
    };
    s.push_str(&format!(" F{}", floats.len()));
    for f in &floats {
        s.push(' ');
        s.push_str(&tok_of_bytes(f.as_bytes()));
    }
    for l in lines {
        s.push_str(" L ");
        s.push_str(&l);
    }
    s
}

fn main() {
    std::env::remove_var("RUST_BACKTRACE");
    std::env::remove_var("RUST_LIB_BACKTRACE");
    let (tx, rx) = sync_channel(64);
    let _guard = servlin::log::set_global_logger(tx).unwrap();
    *RX.lock().unwrap() = Some(rx);
    run_lines(|toks| match toks[0] {
        "ev" => ev(&toks[1..]),
        "chars" => chars(&toks[1..]),
        "file" => file_case(&toks[1..]),
        "evt" => evt(&toks[1..]),
        "resp" => resp(&toks[1..]),
        _ => "?".to_string(),
    });
}
