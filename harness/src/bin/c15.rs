//! C15 harness.
//! `req` cases: builds an in-memory HTTP/1.1 request whose Cookie fields are the concatenation of
//! the case's pieces, runs the real `servlin::internal::read_http_request` on it and prints the
//! cookie map (sorted by name) or the error.
//! `sc` cases: builds cookies through `Cookie::new(..).with_*`, converts them to `AsciiString`
//! and adds them to a `Response` with `with_set_cookie`; prints the strings and the response's
//! set-cookie fields.
use fixed_buffer::FixedBuf;
use servlin::internal::{read_http_request, Cookie, SameSite};
use servlin::{AsciiString, Response};
use std::net::{Ipv4Addr, SocketAddr, SocketAddrV4};
use std::time::{Duration, SystemTime};
use svharness::*;

fn addr() -> SocketAddr {
    SocketAddr::V4(SocketAddrV4::new(Ipv4Addr::LOCALHOST, 1))
}

/// req F  { f <hdrname> N  { p lead name value trail | e lead trail | n lead text trail } }
fn req(toks: &[&str]) -> String {
    let mut i = 0;
    let nfields: usize = toks[i].parse().unwrap();
    i += 1;
    let mut bytes: Vec<u8> = b"GET / HTTP/1.1\r\n".to_vec();
    for _ in 0..nfields {
        assert_eq!(toks[i], "f");
        let hdr = bytes_of_tok(toks[i + 1]);
        let nsegs: usize = toks[i + 2].parse().unwrap();
        i += 3;
        bytes.extend_from_slice(&hdr);
        bytes.extend_from_slice(b": ");
        for k in 0..nsegs {
            if k > 0 {
                bytes.push(b';');
            }
            match toks[i] {
                "p" => {
                    bytes.extend(bytes_of_tok(toks[i + 1]));
                    bytes.extend(bytes_of_tok(toks[i + 2]));
                    bytes.push(b'=');
                    bytes.extend(bytes_of_tok(toks[i + 3]));
                    bytes.extend(bytes_of_tok(toks[i + 4]));
                    i += 5;
                }
                "e" => {
                    bytes.extend(bytes_of_tok(toks[i + 1]));
                    bytes.extend(bytes_of_tok(toks[i + 2]));
                    i += 3;
                }
                "n" => {
                    bytes.extend(bytes_of_tok(toks[i + 1]));
                    bytes.extend(bytes_of_tok(toks[i + 2]));
                    bytes.extend(bytes_of_tok(toks[i + 3]));
                    i += 4;
                }
                _ => panic!("bad seg kind"),
            }
        }
        bytes.extend_from_slice(b"\r\n");
    }
    bytes.extend_from_slice(b"\r\n");
    let mut buf: FixedBuf<8192> = FixedBuf::new();
    let reader = futures_lite::io::Cursor::new(bytes);
    let res = futures_lite::future::block_on(read_http_request(addr(), &mut buf, reader));
    match res {
        Ok(r) => {
            let mut v: Vec<(&String, &String)> = r.cookies.iter().collect();
            v.sort_by(|a, b| a.0.as_bytes().cmp(b.0.as_bytes()));
            let mut s = format!("ok {}", v.len());
            for (k, val) in v {
                s.push_str(&format!(" {} {}", tok_of_bytes(k.as_bytes()), tok_of_bytes(val.as_bytes())));
            }
            s
        }
        Err(e) => {
            let d = e.description();
            let code = Response::from(e).code;
            format!("err {d} {code}")
        }
    }
}

/// sc K { c name value domain expires|- http_only path secs subsec S|L|N secure }
///
/// The builder calls are applied in a pseudo-random order derived from the case text and `salt`
/// (the setters must commute: each attribute is what was set last for it), after a first round of
/// "noise" calls with other values that the final calls must override.
fn build_cookie(t: &[&str], salt: u64) -> Cookie {
    let name = ascii_of_tok(t[1]);
    let value: AsciiString = ascii_of_tok(t[2]).try_into().unwrap();
    let mut seed: u64 = 0xcbf2_9ce4_8422_2325 ^ salt;
    for tok in t {
        for b in tok.bytes() {
            seed = (seed ^ u64::from(b)).wrapping_mul(0x0100_0000_01b3);
        }
    }
    let mut next = move || {
        seed = seed.wrapping_mul(6_364_136_223_846_793_005).wrapping_add(1_442_695_040_888_963_407);
        (seed >> 33) as usize
    };
    type Step = Box<dyn FnOnce(Cookie) -> Cookie>;
    let shuffle = |v: &mut Vec<Step>, next: &mut dyn FnMut() -> usize| {
        for i in (1..v.len()).rev() {
            let j = next() % (i + 1);
            v.swap(i, j);
        }
    };
    let same_site = match t[9] {
        "S" => SameSite::Strict,
        "L" => SameSite::Lax,
        "N" => SameSite::None,
        _ => panic!("bad samesite"),
    };
    let noise_same_site = if t[9] == "N" { SameSite::Lax } else { SameSite::None };
    let domain = ascii_of_tok(t[3]);
    let path = ascii_of_tok(t[6]);
    let secs: u64 = t[7].parse().unwrap();
    let nanos: u32 = if t[8] == "1" { 500_000_000 } else { 0 };
    let http_only = t[5] == "1";
    let secure = t[10] == "1";
    // round 1: noise (values the final calls must replace); with_expires cannot be unset, so no noise for it
    let mut noise: Vec<Step> = vec![
        Box::new(|c: Cookie| c.with_domain("noise.example")),
        Box::new(move |c: Cookie| c.with_http_only(!http_only)),
        Box::new(|c: Cookie| c.with_path("/noise")),
        Box::new(|c: Cookie| c.with_max_age(Duration::new(77, 0))),
        Box::new(move |c: Cookie| c.with_same_site(noise_same_site)),
        Box::new(move |c: Cookie| c.with_secure(!secure)),
    ];
    shuffle(&mut noise, &mut next);
    let keep = next() % (noise.len() + 1);
    noise.truncate(keep);
    // round 2: every builder is exercised with the final value, also with the "unset" values
    let mut fin: Vec<Step> = vec![
        Box::new(move |c: Cookie| c.with_domain(domain)),
        Box::new(move |c: Cookie| c.with_http_only(http_only)),
        Box::new(move |c: Cookie| c.with_path(path)),
        Box::new(move |c: Cookie| c.with_max_age(Duration::new(secs, nanos))),
        Box::new(move |c: Cookie| c.with_same_site(same_site)),
        Box::new(move |c: Cookie| c.with_secure(secure)),
    ];
    if t[4] != "-" {
        let secs: u64 = t[4].parse().unwrap();
        // "0" stands for an instant that is not the epoch but has zero whole seconds
        let when = if secs == 0 {
            SystemTime::UNIX_EPOCH + Duration::from_nanos(1)
        } else {
            SystemTime::UNIX_EPOCH + Duration::from_secs(secs)
        };
        fin.push(Box::new(move |c: Cookie| c.with_expires(when)));
    }
    shuffle(&mut fin, &mut next);
    let mut c = Cookie::new(name, value);
    for f in noise {
        c = f(c);
    }
    for f in fin {
        c = f(c);
    }
    c
}

fn sc(toks: &[&str]) -> String {
    let k: usize = toks[0].parse().unwrap();
    let r = std::panic::catch_unwind(|| {
        let mut out = String::new();
        let mut resp = Response::new(200);
        for j in 0..k {
            let t = &toks[1 + 11 * j..1 + 11 * (j + 1)];
            assert_eq!(t[0], "c");
            let s: AsciiString = build_cookie(t, 0).into();
            out.push_str(&format!("str {} ; ", tok_of_bytes(s.as_bytes())));
            resp = resp.with_set_cookie(build_cookie(t, 1));
        }
        let vs = resp.headers.get_all("set-cookie");
        out.push_str(&format!("hdr {}", vs.len()));
        for v in vs {
            out.push_str(&format!(" {}", tok_of_bytes(v.as_bytes())));
        }
        // nothing else was added to the response
        out.push_str(&format!(" total {}", resp.headers.len()));
        // ... and every one of these fields goes out on the wire, whatever the status of the response that carries the
        // cookies (by the case: 200, 201, 204, 303, 304, 404 or 500): "one Set-Cookie field per cookie"
        let codes = [200u16, 201, 204, 303, 304, 404, 500];
        let code = codes[toks.iter().map(|t| t.len()).sum::<usize>() % codes.len()];
        let mut resp = resp;
        resp.code = code;
        let mut wire: Vec<u8> = Vec::new();
        let res = futures_lite::future::block_on(servlin::internal::write_http_response(&mut futures_lite::io::Cursor::new(&mut wire), &resp, false));
        let head_end = wire.windows(4).position(|w| w == b"\r\n\r\n").unwrap_or(wire.len());
        let mut on_wire: Vec<Vec<u8>> = Vec::new();
        for line in wire[..head_end].split(|b| *b == b'\n') {
            let line = if line.last() == Some(&b'\r') { &line[..line.len() - 1] } else { line };
            if line.len() >= 11 && line[..11].eq_ignore_ascii_case(b"set-cookie:") {
                let mut v = &line[11..];
                if v.first() == Some(&b' ') {
                    v = &v[1..]; // the serialiser writes "name: value"
                }
                on_wire.push(v.to_vec());
            }
        }
        out.push_str(&format!(" wire {} {}", if res.is_ok() { "ok" } else { "err" }, on_wire.len()));
        for v in on_wire {
            out.push_str(&format!(" {}", tok_of_bytes(&v)));
        }
        out
    });
    match r {
        Ok(s) => s,
        Err(_) => "panic".to_string(),
    }
}

fn main() {
    run_lines(|toks| match toks[0] {
        "req" => req(&toks[1..]),
        "sc" => sc(&toks[1..]),
        _ => "?".to_string(),
    });
}
