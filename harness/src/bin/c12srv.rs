//! C12 fallback harness: only the full-server scenarios (`srv ...`), which use nothing but
//! servlin's public API (HttpServerBuilder, Request, Response) and the permit crate.  Built when
//! the primary bin no longer compiles because an internal signature (accept_loop, TokenSet) changed.
#[path = "../srv_common.rs"]
mod srv_common;
fn main() {
    srv_common::main_with(srv_common::srv_lookup);
}
