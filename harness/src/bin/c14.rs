//! C14 harness: drives servlin::HeaderList and the AsciiString constructors.
use servlin::{AsciiString, HeaderList};
use std::borrow::Cow;
use svharness::*;

fn pr_state(hs: &HeaderList) -> String {
    let mut s = format!("S{}", hs.len());
    for h in hs.iter() {
        s.push_str(&format!(" {} {}", tok_of_bytes(h.name.as_bytes()), tok_of_bytes(h.value.as_bytes())));
    }
    s
}

fn ops(toks: &[&str]) -> String {
    let mut hs = HeaderList::new();
    let mut out = String::new();
    let mut i = 0;
    while i < toks.len() {
        let op = toks[i];
        let name = ascii_of_tok(toks[i + 1]);
        i += 2;
        let res = match op {
            "A" => {
                let v: AsciiString = ascii_of_tok(toks[i]).try_into().unwrap();
                i += 1;
                hs.add(&name, v);
                "U".to_string()
            }
            "G" => match hs.get_only(&name) {
                None => "N".to_string(),
                Some(v) => format!("O {}", tok_of_bytes(v.as_bytes())),
            },
            "L" => {
                let vs = hs.get_all(&name);
                let mut s = format!("L{}", vs.len());
                for v in vs {
                    s.push_str(&format!(" {}", tok_of_bytes(v.as_bytes())));
                }
                s
            }
            "R" => match hs.remove_only(&name) {
                None => "N".to_string(),
                Some(v) => format!("O {}", tok_of_bytes(v.as_bytes())),
            },
            "X" => {
                let vs = hs.remove_all(&name);
                let mut s = format!("L{}", vs.len());
                for v in vs {
                    s.push_str(&format!(" {}", tok_of_bytes(v.as_bytes())));
                }
                s
            }
            _ => panic!("bad op"),
        };
        out.push_str(&format!("{res} {} ; ", pr_state(&hs)));
    }
    out
}

fn ascii(ctor: &str, text: String) -> String {
    let r: Result<AsciiString, String> = match ctor {
        "string" => AsciiString::try_from(text),
        "refstring" => AsciiString::try_from(&text),
        "str" => AsciiString::try_from(text.as_str()),
        "mutstr" => {
            let mut t = text;
            AsciiString::try_from(t.as_mut_str())
        }
        "boxstr" => AsciiString::try_from(text.into_boxed_str()),
        "cowb" => AsciiString::try_from(Cow::Borrowed(text.as_str())),
        "cowo" => AsciiString::try_from(Cow::<str>::Owned(text)),
        "char" => {
            let mut it = text.chars();
            let c = it.next().unwrap();
            AsciiString::try_from(c)
        }
        _ => panic!("bad ctor"),
    };
    match r {
        Ok(s) => format!("K {}", tok_of_bytes(s.as_bytes())),
        Err(_) => "E".to_string(),
    }
}

/// req <method> <name> <value> ... : the field list as sent by a client, through read_http_request;
/// prints the header list the handler would see (in iteration order), or the error name
fn req(toks: &[&str]) -> String {
    use fixed_buffer::FixedBuf;
    use servlin::internal::read_http_request;
    let mut bytes = bytes_of_tok(toks[0]);
    bytes.extend_from_slice(b" / HTTP/1.1\r\n");
    for nv in toks[1..].chunks(2) {
        bytes.extend_from_slice(&bytes_of_tok(nv[0]));
        bytes.extend_from_slice(b": ");
        bytes.extend_from_slice(&bytes_of_tok(nv[1]));
        bytes.extend_from_slice(b"\r\n");
    }
    bytes.extend_from_slice(b"\r\n");
    let mut buf: FixedBuf<8192> = FixedBuf::new();
    let reader = futures_lite::io::Cursor::new(bytes);
    let addr = std::net::SocketAddr::from(([127, 0, 0, 1], 1));
    match futures_lite::future::block_on(read_http_request(addr, &mut buf, reader)) {
        Ok(r) => format!("ok {}", pr_state(&r.headers)),
        Err(e) => format!("err {}", format!("{e:?}").split(['(', ' ']).next().unwrap()),
    }
}

fn main() {
    run_lines(|toks| match toks[0] {
        "ops" => ops(&toks[1..]),
        "req" => req(&toks[1..]),
        "ascii" => ascii(toks[1], string_of_scalars_tok(toks[2])),
        _ => "?".to_string(),
    });
}
