// C01 / C02 harness: drives the real `Head::try_read`, `read_http_head`, `read_http_request`
// and the two error conversions of servlin.
// 
// Case lines (tokens: `x<hex>` bytes, decimal integers, keywords):
//   try  N rd <buf>                               Head::try_read on a FixedBuf<N>
//   head N rd <buf> <stream> s<k1,k2,..> eof|err P   read_http_head, scripted reader
//   req  N rd <buf> <stream> s<..> eof|err P        read_http_request (observes the head phase)
//   pipe N k  <stream> s<..> eof|err P              k x read_http_request on one buffer + reader
//   mk   N <method> <target> <k> (<name> <ows1> <value> <ows2>)*k <rest>   (C02) rendered by the harness
//   status <HttpErrorName>      conv <HeadErrorName>
// N in {32, 200, 8192}; rd = bytes already consumed from the buffer (read index); P = 1 makes the
// reader answer Pending (with an immediate wake) before every piece.
// 
// Observation line:  `U <k> (<target> <path|E> <query|->)*k ;; <obs>` where the U part logs what the
// real `url` crate answers for every candidate target of the case (the model's `url_parse`).
//   try : ok <method> <path> <query|-> H<k> (<name> <value>)*k | err <HeadError> ; left <bytes> w<writable>
//   head: ok ... | err <HttpError>                               ; left <bytes> w<writable> unread <bytes>
//   req : pass | err <HttpError>                                 ; left .. w.. unread ..
//   pipe: the req observations of the successive calls joined by ` / `
use fixed_buffer::FixedBuf;
use futures_io::AsyncRead;
use servlin::internal::{read_http_head, read_http_request, Head, HeadError, HttpError, ResponseKind};
use servlin::Response;
use std::panic::{catch_unwind, AssertUnwindSafe};
use std::pin::Pin;
use std::task::{Context, Poll};
use svharness::*;
use url::Url;

// ------------------------------------------------------------------ url table
fn is_blank(b: u8) -> bool {
    b == b' ' || b == b'\t' || b == b'\r' || b == b'\n'
}
/// Every maximal run of non-blank bytes that starts with '/': a superset of the request targets
/// the parser can hand to the url crate for these bytes.
fn url_table(all: &[u8]) -> String {
    let mut seen: Vec<&[u8]> = Vec::new();
    for run in all.split(|b| is_blank(*b)) {
        if run.first() == Some(&b'/') && !seen.contains(&run) {
            seen.push(run);
        }
    }
    let mut s = format!("U {}", seen.len());
    for t in seen {
        let res = std::str::from_utf8(t).ok().and_then(|st| {
            Url::options().base_url(Some(&Url::parse("http://unknown/").unwrap())).parse(st).ok()
        });
        match res {
            None => s.push_str(&format!(" {} E -", tok_of_bytes(t))),
            Some(u) => s.push_str(&format!(
                " {} {} {}",
                tok_of_bytes(t),
                tok_of_bytes(u.path().as_bytes()),
                u.query().map_or("-".to_string(), |q| tok_of_bytes(q.as_bytes()))
            )),
        }
    }
    s
}

// ------------------------------------------------------------------ scripted reader
struct Script {
    data: Vec<u8>,
    pos: usize,
    sched: Vec<usize>,
    idx: usize,
    end_err: bool,
    pend: bool,
    armed: bool,
}
impl Script {
    fn new(data: Vec<u8>, sched: Vec<usize>, end_err: bool, pend: bool) -> Self {
        Self { data, pos: 0, sched, idx: 0, end_err, pend, armed: false }
    }
    fn unread(&self) -> &[u8] {
        &self.data[self.pos..]
    }
}
impl AsyncRead for Script {
    fn poll_read(mut self: Pin<&mut Self>, cx: &mut Context<'_>, buf: &mut [u8]) -> Poll<std::io::Result<usize>> {
        if self.pend && !self.armed {
            self.armed = true;
            cx.waker().wake_by_ref();
            return Poll::Pending;
        }
        self.armed = false;
        let remaining = self.data.len() - self.pos;
        if remaining == 0 {
            self.idx += 1;
            return if self.end_err {
                Poll::Ready(Err(std::io::Error::new(std::io::ErrorKind::ConnectionReset, "scripted")))
            } else {
                Poll::Ready(Ok(0))
            };
        }
        let k = self.sched.get(self.idx).copied().unwrap_or(1).max(1);
        self.idx += 1;
        let n = k.min(buf.len()).min(remaining);
        let pos = self.pos;
        buf[..n].copy_from_slice(&self.data[pos..pos + n]);
        self.pos += n;
        Poll::Ready(Ok(n))
    }
}

fn parse_sched(t: &str) -> Vec<usize> {
    assert!(t.starts_with('s'));
    let body = &t[1..];
    if body.is_empty() {
        return Vec::new();
    }
    body.split(',').map(|x| x.parse().unwrap()).collect()
}

// ------------------------------------------------------------------ observations
fn pr_head(h: &Head) -> String {
    let mut s = format!(
        "ok {} {} {} H{}",
        tok_of_bytes(h.method.as_bytes()),
        tok_of_bytes(h.url.path().as_bytes()),
        h.url.query().map_or("-".to_string(), |q| tok_of_bytes(q.as_bytes())),
        h.headers.len()
    );
    for hd in h.headers.iter() {
        s.push_str(&format!(" {} {}", tok_of_bytes(hd.name.as_bytes()), tok_of_bytes(hd.value.as_bytes())));
    }
    s
}
fn pr_buf<const N: usize>(buf: &mut FixedBuf<N>) -> String {
    let w = buf.writable().len();
    format!("left {} w{}", tok_of_bytes(buf.readable()), w)
}
fn is_head_phase_error(e: &HttpError) -> bool {
    matches!(
        e,
        HttpError::Disconnected
            | HttpError::HeadTooLong
            | HttpError::MalformedHeaderLine
            | HttpError::MalformedPath
            | HttpError::MalformedRequestLine
            | HttpError::MissingRequestLine
            | HttpError::Truncated
            | HttpError::UnsupportedProtocol
    )
}

fn setup<const N: usize>(rd: usize, data: &[u8]) -> Option<FixedBuf<N>> {
    let mut buf: FixedBuf<N> = FixedBuf::new();
    if rd + data.len() > N || (rd > 0 && data.is_empty()) {
        return None;
    }
    let mut init = vec![b'#'; rd];
    init.extend_from_slice(data);
    buf.write_bytes(&init).ok()?;
    if rd > 0 {
        buf.try_read_exact(rd)?;
    }
    Some(buf)
}

fn guarded(f: impl FnOnce() -> String) -> String {
    match catch_unwind(AssertUnwindSafe(f)) {
        Ok(s) => s,
        Err(e) => {
            let msg = if let Some(s) = e.downcast_ref::<String>() {
                s.clone()
            } else if let Some(s) = e.downcast_ref::<&str>() {
                (*s).to_string()
            } else {
                "?".to_string()
            };
            let msg: String = msg.chars().map(|c| if c.is_ascii_graphic() { c } else { '_' }).take(60).collect();
            format!("panic {msg}")
        }
    }
}

fn do_try<const N: usize>(rd: usize, data: &[u8]) -> String {
    let Some(mut buf) = setup::<N>(rd, data) else { return "badcase".to_string() };
    guarded(move || {
        let r = Head::try_read(&mut buf);
        let o = match r {
            Ok(h) => pr_head(&h),
            Err(e) => format!("err {e:?}"),
        };
        format!("{o} ; {}", pr_buf(&mut buf))
    })
}

fn do_head<const N: usize>(rd: usize, data: &[u8], stream: Vec<u8>, sched: Vec<usize>, end_err: bool, pend: bool) -> String {
    let Some(mut buf) = setup::<N>(rd, data) else { return "badcase".to_string() };
    let mut rdr = Script::new(stream, sched, end_err, pend);
    guarded(move || {
        let r = futures_lite::future::block_on(read_http_head(&mut buf, &mut rdr));
        let o = match r {
            Ok(h) => pr_head(&h),
            Err(e) => format!("err {e:?}"),
        };
        format!("{o} ; {} unread {}", pr_buf(&mut buf), tok_of_bytes(rdr.unread()))
    })
}

fn req_once<const N: usize>(buf: &mut FixedBuf<N>, rdr: &mut Script) -> (bool, String) {
    let addr = "127.0.0.1:1".parse().unwrap();
    let r = futures_lite::future::block_on(read_http_request(addr, buf, &mut *rdr));
    let (pass, o) = match r {
        Ok(_) => (true, "pass".to_string()),
        Err(e) if is_head_phase_error(&e) => (false, format!("err {e:?}")),
        Err(_) => (true, "pass".to_string()),
    };
    (pass, format!("{o} ; {} unread {}", pr_buf(buf), tok_of_bytes(rdr.unread())))
}

fn do_req<const N: usize>(rd: usize, data: &[u8], stream: Vec<u8>, sched: Vec<usize>, end_err: bool, pend: bool) -> String {
    let Some(mut buf) = setup::<N>(rd, data) else { return "badcase".to_string() };
    let mut rdr = Script::new(stream, sched, end_err, pend);
    guarded(move || req_once(&mut buf, &mut rdr).1)
}

fn do_pipe<const N: usize>(k: usize, stream: Vec<u8>, sched: Vec<usize>, end_err: bool, pend: bool) -> String {
    let mut buf: FixedBuf<N> = FixedBuf::new();
    let mut rdr = Script::new(stream, sched, end_err, pend);
    guarded(move || {
        let mut outs = Vec::new();
        for _ in 0..k {
            let (pass, o) = req_once(&mut buf, &mut rdr);
            outs.push(o);
            if !pass {
                break;
            }
        }
        outs.join(" / ")
    })
}

fn http_error_of_name(n: &str) -> Option<HttpError> {
    Some(match n {
        "Disconnected" => HttpError::Disconnected,
        "HeadTooLong" => HttpError::HeadTooLong,
        "MalformedHeaderLine" => HttpError::MalformedHeaderLine,
        "MalformedPath" => HttpError::MalformedPath,
        "MalformedRequestLine" => HttpError::MalformedRequestLine,
        "MissingRequestLine" => HttpError::MissingRequestLine,
        "Truncated" => HttpError::Truncated,
        "UnsupportedProtocol" => HttpError::UnsupportedProtocol,
        "InvalidContentLength" => HttpError::InvalidContentLength,
        "MalformedCookieHeader" => HttpError::MalformedCookieHeader,
        "UnsupportedTransferEncoding" => HttpError::UnsupportedTransferEncoding,
        _ => return None,
    })
}
fn head_error_of_name(n: &str) -> Option<HeadError> {
    Some(match n {
        "Truncated" => HeadError::Truncated,
        "MissingRequestLine" => HeadError::MissingRequestLine,
        "MalformedRequestLine" => HeadError::MalformedRequestLine,
        "MalformedPath" => HeadError::MalformedPath,
        "UnsupportedProtocol" => HeadError::UnsupportedProtocol,
        "MalformedHeader" => HeadError::MalformedHeader,
        _ => return None,
    })
}

macro_rules! by_cap {
    ($n:expr, $f:ident ( $($a:expr),* )) => {
        match $n {
            32 => $f::<32>($($a),*),
            200 => $f::<200>($($a),*),
            8192 => $f::<8192>($($a),*),
            _ => "badcase".to_string(),
        }
    };
}

/// reference renderer of the `mk` cases (C02): the strict RFC 7230 serialisation
fn render(toks: &[&str]) -> Vec<u8> {
    let mut out = bytes_of_tok(toks[0]);
    out.push(b' ');
    out.extend(bytes_of_tok(toks[1]));
    out.extend(b" HTTP/1.1");
    let k: usize = toks[2].parse().unwrap();
    for i in 0..k {
        out.extend(b"\r\n");
        out.extend(bytes_of_tok(toks[3 + 4 * i]));
        out.push(b':');
        out.extend(bytes_of_tok(toks[4 + 4 * i]));
        out.extend(bytes_of_tok(toks[5 + 4 * i]));
        out.extend(bytes_of_tok(toks[6 + 4 * i]));
    }
    out.extend(b"\r\n\r\n");
    out.extend(bytes_of_tok(toks[3 + 4 * k]));
    out
}

/// task <n|s> <stream>: the connection task itself (servlin::internal::handle_http_conn) over loop-back, with a handler
/// that answers 200; the client sends <stream>, closes its sending side and reads to the end.  `s`: a global logger is
/// installed whose receiver is gone (a stopped logger) -- whatever the task wants to report about the request, it must
/// still classify it and answer.  observation: task <status code of the first response | none>
fn task(toks: &[&str]) -> String {
    use std::io::{Read, Write};
    let stopped_logger = toks[0] == "s";
    let data = bytes_of_tok(toks[1]);
    let table = url_table(&data);
    let guard = if stopped_logger {
        let (tx, rx) = std::sync::mpsc::sync_channel(1);
        drop(rx);
        servlin::log::set_global_logger(tx).ok()
    } else {
        None
    };
    let d2 = data.clone();
    let out = guarded(move || {
        let listener = std::net::TcpListener::bind("127.0.0.1:0").unwrap();
        let addr = listener.local_addr().unwrap();
        let mut client = std::net::TcpStream::connect(addr).unwrap();
        let (server_std, peer) = listener.accept().unwrap();
        let _ = client.write_all(&d2);
        let _ = client.shutdown(std::net::Shutdown::Write);
        let reader = std::thread::spawn(move || {
            let mut v = Vec::new();
            let _ = client.read_to_end(&mut v);
            v
        });
        let stream = async_net::TcpStream::try_from(server_std).unwrap();
        let conn = servlin::internal::HttpConn::new(peer, stream);
        // the handler reports the method it was given in a response header (a body would not do: some methods'
        // answers may legitimately go without one)
        let handler = |req: servlin::Request| async move {
            let m: String = req.method().chars().map(|c| if c.is_ascii_graphic() { c } else { '?' }).collect();
            match servlin::AsciiString::try_from(m) {
                Ok(v) => Response::text(200, "ok").with_header("x-method", v),
                Err(_) => Response::text(200, "ok"),
            }
        };
        let permit = permit::Permit::new();
        let r = catch_unwind(AssertUnwindSafe(|| {
            futures_lite::future::block_on(servlin::internal::handle_http_conn(
                permit.new_sub(),
                servlin::internal::Token::new(),
                conn,
                None,
                64 * 1024,
                handler,
            ));
        }));
        let wire = reader.join().unwrap_or_default();
        let code = if wire.len() >= 12 && wire.starts_with(b"HTTP/1.1 ") {
            String::from_utf8_lossy(&wire[9..12]).to_string()
        } else {
            "none".to_string()
        };
        let head_end = wire.windows(4).position(|w| w == b"\r\n\r\n").unwrap_or(wire.len());
        let mut method = String::new();
        for line in wire[..head_end].split(|b| *b == b'\n') {
            let line = if line.last() == Some(&b'\r') { &line[..line.len() - 1] } else { line };
            if line.len() > 10 && line[..9].eq_ignore_ascii_case(b"x-method:") {
                method = format!(" m={}", tok_of_bytes(&line[10..]));
            }
        }
        format!("task {code}{method}{}", if r.is_err() { " task-panicked" } else { "" })
    });
    drop(guard);
    format!("{table} ;; {out}")
}

fn main() {
    run_lines(|toks| {
        let flag = |t: &str| t == "1";
        match toks[0] {
            "try" => {
                let n: usize = toks[1].parse().unwrap();
                let rd: usize = toks[2].parse().unwrap();
                let data = bytes_of_tok(toks[3]);
                format!("{} ;; {}", url_table(&data), by_cap!(n, do_try(rd, &data)))
            }
            "mk" => {
                let n: usize = toks[1].parse().unwrap();
                let data = render(&toks[2..]);
                // request level (C02: "the parsed request exposes ... every header field in the order sent"): the same
                // bytes through read_http_request; the header list the handler would see, or `-` when it is refused
                let rq = if n == 8192 {
                    let d2 = data.clone();
                    guarded(move || {
                        let mut buf: FixedBuf<8192> = FixedBuf::new();
                        let addr = "127.0.0.1:1".parse().unwrap();
                        // delivered in two reads, the first ending inside the blank line that ends the head (after
                        // its 1st, 2nd or 3rd byte, by a hash of the bytes): the request exposed must not depend on it
                        let idx = d2.windows(4).position(|w| w == b"\r\n\r\n").unwrap_or(0);
                        let h: usize = d2.iter().map(|b| *b as usize).sum();
                        let cut = idx + 1 + h % 3;
                        // "bytes after the head stay available for the next message": when nothing follows the head in
                        // the case, a second message follows it here -- a head sized so that it fits the 8 KiB buffer
                        // only if the buffer is compacted (len(A) + len(B) > 8192), whose first 500 bytes arrive in the
                        // same read as the end of the first head.  It must be readable from the same buffer.
                        let alen = d2.len();
                        let with_second = d2.ends_with(b"\r\n\r\n") && idx + 4 == alen && alen < 3500;
                        let lb = (8192 - alen + 50).min(8000);
                        let fill = lb - b"GET /second HTTP/1.1\r\nx-fill: \r\n\r\n".len();
                        let mut stream = d2;
                        let mut sched = vec![cut, usize::MAX / 2];
                        if with_second {
                            stream.extend_from_slice(b"GET /second HTTP/1.1\r\nx-fill: ");
                            stream.extend(std::iter::repeat(b'p').take(fill));
                            stream.extend_from_slice(b"\r\n\r\n");
                            sched = vec![cut, alen - cut + 500, usize::MAX / 2];
                        }
                        let mut rdr = Script::new(stream, sched, false, false);
                        match futures_lite::future::block_on(read_http_request(addr, &mut buf, &mut rdr)) {
                            Ok(r) => {
                                let mut s = format!(
                                    "{} {} {} H{}",
                                    tok_of_bytes(r.method.as_bytes()),
                                    tok_of_bytes(r.url.path().as_bytes()),
                                    r.url.query().map_or("-".to_string(), |q| tok_of_bytes(q.as_bytes())),
                                    r.headers.len()
                                );
                                for hd in r.headers.iter() {
                                    s.push_str(&format!(" {} {}", tok_of_bytes(hd.name.as_bytes()), tok_of_bytes(hd.value.as_bytes())));
                                }
                                if with_second && !r.body.is_pending() && r.body.len() == Some(0) {
                                    let n2 = match futures_lite::future::block_on(read_http_request(addr, &mut buf, &mut rdr)) {
                                        Ok(r2) if r2.url.path() == "/second"
                                            && r2.headers.get_only("x-fill").map(|v| v.as_str().len()) == Some(fill) => "ok".to_string(),
                                        Ok(_) => "err:different-request".to_string(),
                                        Err(e) => format!("err:{}", format!("{e:?}").split(['(', ' ']).next().unwrap_or("?")),
                                    };
                                    s.push_str(&format!(" ; n2 {n2}"));
                                }
                                s
                            }
                            Err(_) => "-".to_string(),
                        }
                    })
                } else {
                    "-".to_string()
                };
                format!("{} ;; {} ; rq {}", url_table(&data), by_cap!(n, do_try(0, &data)), rq)
            }
            "task" => task(&toks[1..]),
            "head" | "req" => {
                let n: usize = toks[1].parse().unwrap();
                let rd: usize = toks[2].parse().unwrap();
                let data = bytes_of_tok(toks[3]);
                let stream = bytes_of_tok(toks[4]);
                let sched = parse_sched(toks[5]);
                let end_err = toks[6] == "err";
                let pend = flag(toks[7]);
                let mut all = data.clone();
                all.extend_from_slice(&stream);
                let o = if toks[0] == "head" {
                    by_cap!(n, do_head(rd, &data, stream, sched, end_err, pend))
                } else {
                    by_cap!(n, do_req(rd, &data, stream, sched, end_err, pend))
                };
                format!("{} ;; {}", url_table(&all), o)
            }
            "pipe" => {
                let n: usize = toks[1].parse().unwrap();
                let k: usize = toks[2].parse().unwrap();
                let stream = bytes_of_tok(toks[3]);
                let sched = parse_sched(toks[4]);
                let end_err = toks[5] == "err";
                let pend = flag(toks[6]);
                let tab = url_table(&stream);
                format!("{} ;; {}", tab, by_cap!(n, do_pipe(k, stream, sched, end_err, pend)))
            }
            "status" => match http_error_of_name(toks[1]) {
                None => "U 0 ;; badcase".to_string(),
                Some(e) => {
                    let r = Response::from(e);
                    match r.kind {
                        ResponseKind::DropConnection => "U 0 ;; drop".to_string(),
                        ResponseKind::Normal => format!("U 0 ;; status {}", r.code),
                        ResponseKind::GetBodyAndReprocess(..) => "U 0 ;; getbody".to_string(),
                    }
                }
            },
            "conv" => match head_error_of_name(toks[1]) {
                None => "U 0 ;; badcase".to_string(),
                Some(e) => format!("U 0 ;; {:?}", HttpError::from(e)),
            },
            _ => "U 0 ;; badcase".to_string(),
        }
    });
}
