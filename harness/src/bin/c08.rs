//! C08 harness.
//!   ser <close 0|1> <response tokens (respcase.rs)> w:<wops> <budget|-> <flush_ok 0|1> <pend>
//!        the real `write_http_response` into a fault-injecting scripted writer
//!        -> <ok|ErrorVariant> <accepted bytes (run-length token)> rp=<hex> ct=<hex>
//!   conn <response tokens>
//!        the real `HttpConn::write_response` over a loop-back TCP pair, write_state = Response, followed by
//!        the error path of handle_http_conn (Err(Disconnected) => stop; Err(e) => write_response(&e.into());
//!        shutdown_write()); the client reads until EOF
//!        -> <res1> <state1> <res2|-> <state2> <client transcript> rp= ct= c5=<code> rp5= ct5= b5=
//!   sess <k> <response tokens> x k <response tokens>
//!        the same on a connection that has already carried k successful responses (each written after setting
//!        write_state = Response the way read_request does when the state is None; a 1xx leaves it Response);
//!        the harness reports the reason phrase / content-type text of every earlier response as pr<i>= / pc<i>=
#[path = "../respcase.rs"]
mod respcase;
#[path = "../sio.rs"]
mod sio;
use servlin::internal::{reason_phrase, write_http_response, HttpConn, HttpError, ResponseBody, WriteState};
use servlin::Response;
use sio::*;
use std::io::Read;
use svharness::*;

fn ser(toks: &[&str]) -> String {
    let close = toks[0] == "1";
    let (built, used) = respcase::build(&toks[1..]);
    let rest = &toks[1 + used..];
    let pend: u32 = rest[3].parse().unwrap();
    let mut writer = ScriptWriter::new(parse_wsched(rest[0]), parse_budget(rest[1]), rest[2] == "1", pend & 2 != 0);
    if let Some((path, keep)) = built.shrink.clone() {
        writer.on_first_write = Some(Box::new(move || {
            let f = std::fs::OpenOptions::new().write(true).open(&path).unwrap();
            f.set_len(keep).unwrap();
        }));
    }
    // through the byte counter HttpConn::write_response puts in front of the socket (it must be transparent)
    let (res, counted) = {
        let mut counter = servlin::internal::AsyncWriteCounter::new(&mut writer);
        let res = futures_lite::future::block_on(write_http_response(&mut counter, &built.response, close));
        (res, counter.num_bytes_written())
    };
    if counted != writer.out.len() as u64 {
        return format!("counter-says-{counted}-sink-took-{}", writer.out.len());
    }
    let r = match &res {
        Ok(()) => "ok".to_string(),
        Err(e) => respcase::err_name(e),
    };
    format!(
        "{r} {} rp={} ct={}",
        rle(&writer.out),
        tok_of_bytes(reason_phrase(built.response.code).as_bytes()),
        tok_of_bytes(built.response.content_type.as_str().as_bytes())
    )
}

fn state_name(s: &WriteState) -> &'static str {
    match s {
        WriteState::None => "None",
        WriteState::Response => "Response",
        WriteState::Shutdown => "Shutdown",
    }
}

fn conn(toks: &[&str]) -> String {
    session(0, toks, 'H')
}

fn sess(toks: &[&str]) -> String {
    session(toks[0].parse().unwrap(), &toks[1..], 'H')
}

/// `rs`: the read side of the connection when the response under test is written -- H: the request was read to
/// its end (ReadState::Head), B: its body is unread, S: shut down (an unknown-length body was read to the end of
/// the stream).  What a failed write does to the WRITE side must not depend on it.
fn session(k: usize, toks: &[&str], rs: char) -> String {
    let mut pre = Vec::new();
    let mut at = 0;
    for _ in 0..k {
        let (b, used) = respcase::build(&toks[at..]);
        at += used;
        pre.push(b);
    }
    let (built, _used) = respcase::build(&toks[at..]);
    let listener = std::net::TcpListener::bind("127.0.0.1:0").unwrap();
    let addr = listener.local_addr().unwrap();
    let mut client = std::net::TcpStream::connect(addr).unwrap();
    let (server_std, peer) = listener.accept().unwrap();
    let reader = std::thread::spawn(move || {
        let mut v = Vec::new();
        let _ = client.read_to_end(&mut v);
        v
    });
    let stream = async_net::TcpStream::try_from(server_std).unwrap();
    let mut hc = HttpConn::new(peer, stream);
    let mut pre_params = String::new();
    for (i, p) in pre.iter().enumerate() {
        // read_request: WriteState::None => Response (after a 1xx answer it is still Response)
        if hc.write_state == WriteState::None {
            hc.write_state = WriteState::Response;
        }
        let r = futures_lite::future::block_on(hc.write_response(&p.response));
        pre_params.push_str(&format!(
            " pr{i}={} pc{i}={} pres{i}={}",
            tok_of_bytes(reason_phrase(p.response.code).as_bytes()),
            tok_of_bytes(p.response.content_type.as_str().as_bytes()),
            if r.is_ok() { "ok" } else { "err" }
        ));
    }
    if hc.write_state == WriteState::None || k == 0 {
        hc.write_state = WriteState::Response;
    }
    match rs {
        'B' => {
            hc.read_state = servlin::internal::ReadState::Body { len: Some(5), expect_continue: false, chunked: false, gzip: false };
        }
        'S' => hc.read_state = servlin::internal::ReadState::Shutdown,
        _ => {}
    }
    let res1 = futures_lite::future::block_on(hc.write_response(&built.response));
    let st1 = state_name(&hc.write_state);
    // the match of handle_http_conn on the result
    let res2: Option<Result<(), HttpError>> = match &res1 {
        Ok(()) => None,
        Err(HttpError::Disconnected) => None,
        Err(e) => {
            let r5: Response = e.clone().into();
            let r = futures_lite::future::block_on(hc.write_response(&r5));
            hc.shutdown_write();
            Some(r)
        }
    };
    let st2 = state_name(&hc.write_state);
    drop(hc);
    let transcript = reader.join().unwrap();
    let name = |r: &Result<(), HttpError>| match r {
        Ok(()) => "ok".to_string(),
        Err(e) => respcase::err_name(e),
    };
    // the 500 answer of the error path (implementation-defined text: dumped, not compared)
    let r5: Response = HttpError::UnwritableResponse.into();
    let b5: Vec<u8> = match &r5.body {
        ResponseBody::StaticStr(s) => s.as_bytes().to_vec(),
        ResponseBody::StaticBytes(b) => b.to_vec(),
        ResponseBody::Vec(v) => v.clone(),
        _ => panic!("unexpected 500 body kind"),
    };
    format!(
        "{} {st1} {} {st2} {} rp={} ct={} c5={} rp5={} ct5={} b5={}{pre_params}",
        name(&res1),
        res2.as_ref().map_or("-".to_string(), name),
        rle(&transcript),
        tok_of_bytes(reason_phrase(built.response.code).as_bytes()),
        tok_of_bytes(built.response.content_type.as_str().as_bytes()),
        r5.code,
        tok_of_bytes(reason_phrase(r5.code).as_bytes()),
        tok_of_bytes(r5.content_type.as_str().as_bytes()),
        tok_of_bytes(&b5),
    )
}

/// stall <mib> <secs> (thorough tier): a response with a body of <mib> MiB to a client that reads the head and the
/// first megabyte, then does not read for <secs> seconds, then reads on.  A slow client is not a failed write: what it
/// receives in the end is exactly the one serialisation -- in particular nothing like a second status line in the
/// middle of the body.  observation: stall ok | stall <what differs>
fn stall(toks: &[&str]) -> String {
    use std::io::{Read, Write};
    let mib: usize = toks[0].parse().unwrap();
    let secs: u64 = toks[1].parse().unwrap();
    let body: Vec<u8> = (0..mib * 1024 * 1024).map(|i| (i % 251) as u8).collect();
    let listener = std::net::TcpListener::bind("127.0.0.1:0").unwrap();
    let addr = listener.local_addr().unwrap();
    let executor = safina::executor::Executor::new(1, 1).unwrap();
    safina::timer::start_timer_thread();
    let body2 = body.clone();
    let permit = permit::Permit::new();
    let sub = permit.new_sub();
    let server = std::thread::spawn(move || {
        let (server_std, peer) = listener.accept().unwrap();
        let stream = async_net::TcpStream::try_from(server_std).unwrap();
        let conn = HttpConn::new(peer, stream);
        let handler = move |_req: servlin::Request| {
            let b = body2.clone();
            async move { Response::new(200).with_body(servlin::ResponseBody::Vec(b)) }
        };
        executor.block_on(servlin::internal::handle_http_conn(sub, servlin::internal::Token::new(), conn, None, 65536, handler));
    });
    let mut client = std::net::TcpStream::connect(addr).unwrap();
    client.write_all(b"GET / HTTP/1.1\r\n\r\n").unwrap();
    let mut got: Vec<u8> = Vec::new();
    let mut buf = vec![0u8; 65536];
    while got.len() < 1024 * 1024 {
        match client.read(&mut buf) {
            Ok(0) | Err(_) => break,
            Ok(n) => got.extend_from_slice(&buf[..n]),
        }
    }
    std::thread::sleep(std::time::Duration::from_secs(secs));
    let _ = client.shutdown(std::net::Shutdown::Write);
    loop {
        match client.read(&mut buf) {
            Ok(0) | Err(_) => break,
            Ok(n) => got.extend_from_slice(&buf[..n]),
        }
    }
    drop(permit);
    let _ = server.join();
    let Some(p) = got.windows(4).position(|w| w == b"\r\n\r\n") else { return "stall no-head".to_string() };
    let head = String::from_utf8_lossy(&got[..p]).to_ascii_lowercase();
    if !head.starts_with("http/1.1 200") || !head.contains(&format!("content-length: {}", body.len())) {
        return "stall head-differs".to_string();
    }
    let recv = &got[p + 4..];
    if recv == body.as_slice() {
        "stall ok".to_string()
    } else if recv.len() <= body.len() && recv == &body[..recv.len()] {
        format!("stall body-cut-at-{}", recv.len())
    } else {
        let k = recv.iter().zip(body.iter()).take_while(|(a, b)| a == b).count();
        format!("stall foreign-bytes-in-the-body-at-{k}")
    }
}

fn main() {
    run_lines(|toks| match toks[0] {
        "stall" => stall(&toks[1..]),
        "ser" => ser(&toks[1..]),
        "conn" => conn(&toks[1..]),
        "connB" => session(0, &toks[1..], 'B'),
        "connS" => session(0, &toks[1..], 'S'),
        "sess" => sess(&toks[1..]),
        _ => "?".to_string(),
    });
}
