//! Scenario machinery that needs only servlin's PUBLIC API (HttpServerBuilder, Request, Response,
//! permit): the forecast used to end waits early, the full-server scenarios (`srv ...`), the
//! three-valued timing policy and the line-oriented main loop.  Included by `#[path]` from the
//! bins c12srv / c13srv (which reference nothing else of servlin) and from c12 / c13 (which add the
//! `pool` and `acc` surfaces of src/acc_common.rs, built on servlin::internal).
//!
//! Case syntax (one case per line):
//!   srv  <n> <cmd>*          HttpServerBuilder::max_conns(n).spawn(gated handler)
//!     cmd = c            a client connects and sends a gated request
//!         | e<k>[:kind]  connection k ends, by `kind`
//!         | r            the permit is revoked
//!         | q<k>         client k sends a (the rest of a) further request
//!         | b<k>:<j>     client k writes j further complete requests in ONE write (pipelined)
//!         | l<k>         the gate of the handler running for client k opens (200)
//!         | p<k> | u<k>  client k sends half a request head / a head and part of the body
//!         | x            a client connects and sends the head of an upload with Expect: 100-continue (gated handler)
//!         | y<k>         the handler of upload k answers "get the body first"; client k then sends the body
//! Observation per command: `a,g,h,t,d,x,s,l` =
//!   admitted so far, tokens held by handlers (acc) / -, handlers entered now, handler entries so
//!   far, complete responses read by clients, connections closed by the server on its own,
//!   stopped signal received, listening.  Fields a harness cannot see are printed as `-`.
#![allow(dead_code)]
use permit::Permit;
use servlin::{HttpServerBuilder, Request, Response};
use std::collections::HashMap;
use std::io::{BufRead, Read, Write};
use std::net::{Shutdown, SocketAddr, TcpStream};
use std::sync::atomic::{AtomicBool, AtomicUsize, Ordering::SeqCst};
use std::sync::{Arc, Condvar, Mutex};
use std::time::{Duration, Instant};

pub const SHORT: Duration = Duration::from_micros(150);
pub const STEP_DEADLINE: Duration = Duration::from_millis(2500);
pub const CASE_DEADLINE: Duration = Duration::from_secs(60);
// once an attempt has deviated from the forecast, later steps of that attempt wait less
pub const AFTER_DEVIATION: Duration = Duration::from_millis(250);

// ------------------------------------------------------------------------------------ prediction
// A deliberately naive forecast of the settled observation, used ONLY to end a wait early (and to
// decide whether a case is re-run); what is printed is always what was actually observed.

#[derive(Clone, PartialEq, Eq, Debug)]
pub struct Obs {
    pub admitted: Option<usize>,
    pub gauge: Option<usize>,
    pub handlers: usize,
    pub entries: usize,
    pub done: usize,
    pub closed: usize,
    pub stopped: bool,
    pub listening: bool,
}
impl Obs {
    pub fn show(&self) -> String {
        let o = |x: Option<usize>| x.map_or("-".to_string(), |v| v.to_string());
        format!(
            "{},{},{},{},{},{},{},{}",
            o(self.admitted),
            o(self.gauge),
            self.handlers,
            self.entries,
            self.done,
            self.closed,
            u8::from(self.stopped),
            u8::from(self.listening)
        )
    }
}

#[derive(Clone, Copy, PartialEq)]
pub enum Ph {
    Head,
    Idle,
    Handler,
    Writing,
}
pub struct Pred {
    pub n: usize,
    pub full: bool,
    pub pending: Vec<usize>,
    pub live: Vec<(usize, Ph)>,
    pub unread: Vec<usize>,
    pub admitted: usize,
    pub entries: usize,
    pub done: usize,
    pub closed: usize,
    pub revoked: bool,
    pub stopped: bool,
    pub nclients: usize,
}
impl Pred {
    pub fn new(n: usize, full: bool) -> Self {
        Pred { n, full, pending: vec![], live: vec![], unread: vec![], admitted: 0, entries: 0, done: 0, closed: 0, revoked: false, stopped: false, nclients: 0 }
    }
    pub fn settle(&mut self) {
        loop {
            let mut progress = false;
            if self.revoked {
                if !self.stopped {
                    self.stopped = true;
                    progress = true;
                }
            } else {
                while self.live.len() < self.n && !self.pending.is_empty() {
                    let id = self.pending.remove(0);
                    self.live.push((id, Ph::Head));
                    self.admitted += 1;
                    progress = true;
                }
            }
            if self.full {
                let mut i = 0;
                while i < self.live.len() {
                    let (id, ph) = self.live[i];
                    match ph {
                        Ph::Head => {
                            if self.revoked {
                                self.live.remove(i);
                                self.closed += 1;
                                progress = true;
                                continue;
                            }
                            self.live[i].1 = Ph::Idle;
                            progress = true;
                        }
                        Ph::Idle => {
                            if let Some(p) = self.unread.iter().position(|x| *x == id) {
                                self.unread.remove(p);
                                self.live[i].1 = Ph::Handler;
                                self.entries += 1;
                                progress = true;
                            }
                        }
                        Ph::Writing => {
                            self.live[i].1 = Ph::Head;
                            self.done += 1;
                            progress = true;
                        }
                        Ph::Handler => {}
                    }
                    i += 1;
                }
            }
            if !progress {
                break;
            }
        }
    }
    pub fn connect(&mut self) {
        let id = self.nclients;
        self.nclients += 1;
        self.pending.push(id);
        if self.full {
            self.unread.push(id);
        }
        self.settle();
    }
    pub fn end(&mut self, k: usize) {
        if let Some(p) = self.live.iter().position(|x| x.0 == k) {
            self.live.remove(p);
        }
        self.settle();
    }
    pub fn revoke(&mut self) {
        self.revoked = true;
        self.settle();
    }
    pub fn request(&mut self, k: usize) {
        self.unread.push(k);
        self.settle();
    }
    pub fn release(&mut self, k: usize) {
        if let Some(p) = self.live.iter().position(|x| x.0 == k && x.1 == Ph::Handler) {
            self.live[p].1 = Ph::Writing;
        }
        self.settle();
    }
    pub fn phase(&self, k: usize) -> Option<Ph> {
        self.live.iter().find(|x| x.0 == k).map(|x| x.1)
    }
    pub fn obs(&self) -> Obs {
        Obs {
            admitted: if self.full { None } else { Some(self.admitted) },
            gauge: if self.full { None } else { Some(self.live.len()) },
            handlers: self.live.iter().filter(|x| x.1 == Ph::Handler).count(),
            entries: self.entries,
            done: self.done,
            closed: if self.full { self.closed + if self.stopped { self.pending.len() } else { 0 } } else { 0 },
            stopped: self.stopped,
            listening: !self.stopped,
        }
    }
}

pub fn wait_for(mut f: impl FnMut() -> bool, deadline: Duration) -> bool {
    let t0 = Instant::now();
    loop {
        if f() {
            return true;
        }
        if t0.elapsed() > deadline {
            return false;
        }
        std::thread::sleep(Duration::from_micros(300));
    }
}

pub fn probe_listening(addr: SocketAddr) -> bool {
    TcpStream::connect_timeout(&addr, Duration::from_millis(500)).is_ok()
}

// ------------------------------------------------------------------------------- full server

#[derive(Clone, Copy, PartialEq, Debug)]
enum GateCmd {
    Ok,
    Err500,
    Panic,
    Drop,
    /// answer "get the body first" (the server then sends 100 Continue, receives the body into a file and runs
    /// the handler again)
    GetBody,
}
struct Gates {
    cmds: Mutex<HashMap<usize, GateCmd>>,
    cv: Condvar,
    entered: Mutex<Vec<usize>>,
    entries: AtomicUsize,
    maxh: AtomicUsize,
    open_all: AtomicBool,
}
struct ClientShared {
    responses: AtomicUsize,
    eof: AtomicBool,
}
struct Client {
    stream: Option<TcpStream>,
    sh: Arc<ClientShared>,
    seq: usize,
    partial: Option<Vec<u8>>, // rest of a request whose first part was sent
    ended: bool,
    frozen: usize,
    refused: bool,
}

fn reader_thread(mut s: TcpStream, sh: Arc<ClientShared>) {
    std::thread::spawn(move || {
        let mut buf: Vec<u8> = Vec::new();
        let mut tmp = [0u8; 4096];
        loop {
            match s.read(&mut tmp) {
                Ok(0) | Err(_) => {
                    sh.eof.store(true, SeqCst);
                    return;
                }
                Ok(k) => buf.extend_from_slice(&tmp[..k]),
            }
            // count complete responses (content-length framing)
            loop {
                let Some(p) = buf.windows(4).position(|w| w == b"\r\n\r\n") else { break };
                let head = String::from_utf8_lossy(&buf[..p]).to_ascii_lowercase();
                let cl: usize = head
                    .split("\r\n")
                    .find_map(|l| l.strip_prefix("content-length:").map(|v| v.trim().parse::<usize>().unwrap_or(0)))
                    .unwrap_or(0);
                if buf.len() < p + 4 + cl {
                    break;
                }
                buf.drain(..p + 4 + cl);
                if !head.starts_with("http/1.1 100") {
                    sh.responses.fetch_add(1, SeqCst); // interim 100 Continue answers are not responses
                }
            }
        }
    });
}

extern "C" {
    fn setsockopt(fd: i32, level: i32, name: i32, val: *const [i32; 2], len: u32) -> i32;
}
/// SO_LINGER {on, 0 s}: close() then sends RST instead of FIN (Linux: SOL_SOCKET = 1, SO_LINGER = 13)
fn set_linger0(s: &TcpStream) {
    use std::os::unix::io::AsRawFd;
    let v = [1i32, 0i32];
    unsafe { setsockopt(s.as_raw_fd(), 1, 13, &v, 8) };
}

fn big_req_bytes(id: usize, seq: usize) -> Vec<u8> {
    format!("POST /g/{id}/{seq} HTTP/1.1\r\ncontent-length: 100000\r\n\r\n").into_bytes()
}
/// an upload that waits for 100 Continue: the head only
fn expect_req_bytes(id: usize, seq: usize) -> Vec<u8> {
    format!("POST /g/{id}/{seq}/upload HTTP/1.1\r\nexpect: 100-continue\r\ncontent-length: 100000\r\n\r\n").into_bytes()
}
fn req_bytes(id: usize, seq: usize) -> Vec<u8> {
    format!("GET /g/{id}/{seq} HTTP/1.1\r\n\r\n").into_bytes()
}

pub fn srv_case(toks: &[String]) -> (String, bool) {
    let n: usize = toks[1].parse().unwrap();
    let executor = safina::executor::Executor::new(2, 12).unwrap();
    let gates = Arc::new(Gates { cmds: Mutex::new(HashMap::new()), cv: Condvar::new(), entered: Mutex::new(Vec::new()), entries: AtomicUsize::new(0), maxh: AtomicUsize::new(0), open_all: AtomicBool::new(false) });
    let g2 = gates.clone();
    let handler = move |req: Request| -> Response {
        let path = req.url().path().to_string();
        let id: usize = path.split('/').nth(2).and_then(|x| x.parse().ok()).unwrap_or(9999);
        if path.ends_with("/upload") && !req.body.is_pending() && req.body.len().unwrap_or(0) > 0 {
            // the second run of an upload's handler, with the body received: the answer (not gated, not counted)
            return Response::text(200, "ok");
        }
        {
            let mut e = g2.entered.lock().unwrap();
            e.push(id);
            let mut distinct = e.clone();
            distinct.sort_unstable();
            distinct.dedup();
            g2.maxh.fetch_max(distinct.len(), SeqCst);
        }
        g2.entries.fetch_add(1, SeqCst);
        let cmd = {
            let mut c = g2.cmds.lock().unwrap();
            loop {
                if let Some(x) = c.remove(&id) {
                    break x;
                }
                if g2.open_all.load(SeqCst) {
                    break GateCmd::Ok;
                }
                c = g2.cv.wait_timeout(c, Duration::from_millis(50)).unwrap().0;
            }
        };
        {
            let mut e = g2.entered.lock().unwrap();
            if let Some(p) = e.iter().position(|x| *x == id) {
                e.remove(p);
            }
        }
        match cmd {
            GateCmd::Ok => Response::text(200, "ok"),
            GateCmd::Err500 => Response::text(500, "err"),
            GateCmd::Panic => panic!("handler panic on command"),
            GateCmd::Drop => Response::drop_connection(),
            GateCmd::GetBody => Response::get_body_and_reprocess(1_000_000),
        }
    };
    let top = Permit::new();
    let sub = top.new_sub();
    let cache = temp_dir::TempDir::new().unwrap();
    let cache_path = cache.path().to_path_buf();
    let (addr, mut stopped_rx) = executor
        .block_on(async move { HttpServerBuilder::new().max_conns(n).receive_large_bodies(&cache_path).permit(sub).spawn(handler).await })
        .unwrap();
    let mut clients: Vec<Client> = Vec::new();
    let mut pred = Pred::new(n, true);
    let mut stopped = false;
    let mut matched = true;
    let mut out: Vec<String> = Vec::new();

    let release = |k: usize, c: GateCmd| {
        gates.cmds.lock().unwrap().insert(k, c);
        gates.cv.notify_all();
    };
    let poll_stop = |stopped: &mut bool, rx: &mut safina::sync::Receiver<()>| {
        if !*stopped && rx.try_recv().is_ok() {
            *stopped = true;
        }
    };
    let snapshot = |clients: &Vec<Client>, stopped: bool, probe: bool| -> Obs {
        let done: usize = clients.iter().map(|c| if c.ended { c.frozen } else { c.sh.responses.load(SeqCst) }).sum();
        let closed = clients.iter().filter(|c| !c.ended && (c.refused || c.sh.eof.load(SeqCst))).count();
        Obs {
            admitted: None,
            gauge: None,
            handlers: {
                let e = gates.entered.lock().unwrap();
                let mut d = e.clone();
                d.sort_unstable();
                d.dedup();
                d.len()
            },
            entries: gates.entries.load(SeqCst),
            done,
            closed,
            stopped,
            listening: if probe { probe_listening(addr) } else { true },
        }
    };
    macro_rules! step {
        () => {{
            let want = pred.obs();
            let ok = wait_for(
                || {
                    if want.stopped {
                        poll_stop(&mut stopped, &mut stopped_rx);
                    }
                    let mut o = snapshot(&clients, stopped, false);
                    o.listening = want.listening;
                    o == want
                },
                if matched { STEP_DEADLINE } else { AFTER_DEVIATION },
            );
            std::thread::sleep(Duration::from_millis(3));
            poll_stop(&mut stopped, &mut stopped_rx);
            let mut o = snapshot(&clients, stopped, false);
            o.listening = if stopped { probe_listening(addr) } else { true };
            if !ok || o != want {
                matched = false;
            }
            o
        }};
    }
    let end_client = |c: &mut Client| {
        c.frozen = c.sh.responses.load(SeqCst);
        c.ended = true;
    };
    for c in &toks[2..] {
        let c = c.as_str();
        if let Some(k) = c.strip_prefix('y') {
            // the gated handler of the Expect upload k answers "get the body first"; the client then sends the body
            let k: usize = k.parse().unwrap();
            release(k, GateCmd::GetBody);
            pred.release(k);
            if let Some(s) = &clients[k].stream {
                if let Ok(mut w) = s.try_clone() {
                    std::thread::spawn(move || {
                        let _ = w.write_all(&vec![b'u'; 100_000]);
                    });
                }
            }
        } else if c == "c" || c == "C" || c == "x" {
            // C: the connection's first request is an upload head (content-length above small_body_len, no body
            // byte follows): the handler sees a pending body and the server ends the connection with it unread
            let big = c == "C";
            let id = clients.len();
            let sh = Arc::new(ClientShared { responses: AtomicUsize::new(0), eof: AtomicBool::new(false) });
            let stream = TcpStream::connect_timeout(&addr, Duration::from_millis(1000)).ok();
            let refused = stream.is_none();
            if let Some(s) = &stream {
                let _ = s.set_nodelay(true);
                let _ = (&*s).write_all(&if c == "x" { expect_req_bytes(id, 0) } else if big { big_req_bytes(id, 0) } else { req_bytes(id, 0) });
                reader_thread(s.try_clone().unwrap(), sh.clone());
            }
            clients.push(Client { stream, sh, seq: 1, partial: None, ended: false, frozen: 0, refused });
            pred.connect();
        } else if let Some(k) = c.strip_prefix('Q') {
            // like q, with an upload head whose body never arrives
            let k: usize = k.parse().unwrap();
            let cl = &mut clients[k];
            let bytes = big_req_bytes(k, cl.seq);
            cl.seq += 1;
            if let Some(s) = &cl.stream {
                let _ = (&*s).write_all(&bytes);
            }
            pred.request(k);
        } else if c == "r" {
            top.revoke();
            pred.revoke();
        } else if let Some(k) = c.strip_prefix('l') {
            let k: usize = k.parse().unwrap();
            release(k, GateCmd::Ok);
            pred.release(k);
        } else if let Some(rest) = c.strip_prefix('b') {
            // j complete requests in ONE write (they arrive in one read of the server)
            let mut it = rest.split(':');
            let k: usize = it.next().unwrap().parse().unwrap();
            let j: usize = it.next().unwrap_or("2").parse().unwrap();
            let cl = &mut clients[k];
            let mut bytes = cl.partial.take().unwrap_or_default();
            let start = usize::from(!bytes.is_empty());
            for _ in start..j {
                bytes.extend_from_slice(&req_bytes(k, cl.seq));
                cl.seq += 1;
            }
            if start == 1 {
                cl.seq += 1;
            }
            if let Some(s) = &cl.stream {
                let _ = (&*s).write_all(&bytes);
            }
            for _ in 0..j {
                pred.request(k);
            }
        } else if let Some(k) = c.strip_prefix('q') {
            let k: usize = k.parse().unwrap();
            let cl = &mut clients[k];
            let bytes = match cl.partial.take() {
                Some(rest) => rest,
                None => {
                    let b = req_bytes(k, cl.seq);
                    b
                }
            };
            cl.seq += 1;
            if let Some(s) = &cl.stream {
                let _ = (&*s).write_all(&bytes);
            }
            pred.request(k);
        } else if let Some(k) = c.strip_prefix('p') {
            let k: usize = k.parse().unwrap();
            let cl = &mut clients[k];
            let b = req_bytes(k, cl.seq);
            let cut = b.len() / 2;
            if let Some(s) = &cl.stream {
                let _ = (&*s).write_all(&b[..cut]);
            }
            cl.partial = Some(b[cut..].to_vec());
        } else if let Some(k) = c.strip_prefix('u') {
            let k: usize = k.parse().unwrap();
            let cl = &mut clients[k];
            let b = format!("POST /g/{k}/{} HTTP/1.1\r\ncontent-length: 10\r\n\r\n0123456789", cl.seq).into_bytes();
            let cut = b.len() - 6;
            if let Some(s) = &cl.stream {
                let _ = (&*s).write_all(&b[..cut]);
            }
            cl.partial = Some(b[cut..].to_vec());
        } else if let Some(rest) = c.strip_prefix('e') {
            let mut it = rest.split(':');
            let k: usize = it.next().unwrap().parse().unwrap();
            let kind = it.next().unwrap_or("close");
            let ph = pred.phase(k);
            let cl = &mut clients[k];
            end_client(cl);
            let send = |cl: &Client, b: &[u8]| {
                if let Some(s) = &cl.stream {
                    let _ = (&*s).write_all(b);
                }
            };
            let shut = |cl: &Client| {
                if let Some(s) = &cl.stream {
                    let _ = s.shutdown(Shutdown::Both);
                }
            };
            match (kind, ph) {
                // while the handler is running
                ("err500", Some(Ph::Handler)) => release(k, GateCmd::Err500),
                ("panic", Some(Ph::Handler)) => release(k, GateCmd::Panic),
                ("drop", Some(Ph::Handler)) => release(k, GateCmd::Drop),
                ("okclose", Some(Ph::Handler)) => {
                    release(k, GateCmd::Ok);
                    let sh = cl.sh.clone();
                    let base = cl.frozen;
                    wait_for(|| sh.responses.load(SeqCst) > base, STEP_DEADLINE);
                    shut(cl);
                }
                ("reset", Some(Ph::Handler)) => {
                    // client aborts mid-request with a RESET and no FIN before it (SO_LINGER 0 close of the only
                    // descriptor); the handler keeps running for a while: the slot stays taken that long
                    if let Some(s) = cl.stream.take() {
                        let _ = s.shutdown(Shutdown::Read); // wakes the reader thread, sends nothing
                        let sh = cl.sh.clone();
                        wait_for(|| sh.eof.load(SeqCst), STEP_DEADLINE);
                        std::thread::sleep(Duration::from_millis(3));
                        set_linger0(&s);
                        drop(s);
                    }
                    std::thread::sleep(Duration::from_millis(150));
                    release(k, GateCmd::Ok);
                }
                (_, Some(Ph::Handler)) => {
                    // client aborts mid-request: goes away, then the handler returns
                    shut(cl);
                    std::thread::sleep(Duration::from_millis(2));
                    release(k, GateCmd::Ok);
                }
                // while idle (waiting for a request head)
                ("malformed", _) => send(cl, b"BAD\x01 REQUEST\r\n\r\n"),
                // three "OPTIONS *" pings in one write: the asterisk form is not a path this server accepts -- the first
                // one ends the connection like any malformed request (and nothing answers the others)
                ("optstar", _) => send(cl, b"OPTIONS * HTTP/1.1\r\n\r\nOPTIONS * HTTP/1.1\r\n\r\nOPTIONS * HTTP/1.1\r\n\r\n"),
                ("aborthead", _) => {
                    send(cl, b"GET /g/0/9 HT");
                    std::thread::sleep(Duration::from_millis(2));
                    shut(cl);
                }
                ("abortbody", _) => {
                    send(cl, b"POST /g/0/9 HTTP/1.1\r\ncontent-length: 1000\r\n\r\nabc");
                    std::thread::sleep(Duration::from_millis(2));
                    shut(cl);
                }
                _ => shut(cl),
            }
            pred.end(k);
        } else {
            panic!("bad srv cmd {c}");
        }
        let o = step!();
        out.push(o.show());
    }
    // recovery: end every live connection, then n+1 fresh clients each with a gated request
    let live: Vec<(usize, Ph)> = pred.live.clone();
    for (k, ph) in live {
        let cl = &mut clients[k];
        end_client(cl);
        if let Some(s) = &cl.stream {
            let _ = s.shutdown(Shutdown::Both);
        }
        if ph == Ph::Handler {
            release(k, GateCmd::Ok);
        }
        pred.end(k);
    }
    for _ in 0..=n {
        let id = clients.len();
        let sh = Arc::new(ClientShared { responses: AtomicUsize::new(0), eof: AtomicBool::new(false) });
        let stream = TcpStream::connect_timeout(&addr, Duration::from_millis(1000)).ok();
        let refused = stream.is_none();
        if let Some(s) = &stream {
            let _ = (&*s).write_all(&req_bytes(id, 0));
            reader_thread(s.try_clone().unwrap(), sh.clone());
        }
        clients.push(Client { stream, sh, seq: 1, partial: None, ended: false, frozen: 0, refused });
        pred.connect();
    }
    let fin = step!();
    let over = u8::from(gates.maxh.load(SeqCst) > n);
    // tidy up
    top.revoke();
    gates.open_all.store(true, SeqCst);
    gates.cv.notify_all();
    for c in &clients {
        if let Some(s) = &c.stream {
            let _ = s.shutdown(Shutdown::Both);
        }
    }
    std::thread::sleep(Duration::from_millis(5));
    (format!("{} ; {} ; over={}", out.join(" "), fin.show(), over), matched)
}

// ------------------------------------------------------------------------------------- driver

fn timing_log(line: &str) {
    if let Ok(p) = std::env::var("SV_TIMING_LOG") {
        if let Ok(mut f) = std::fs::OpenOptions::new().create(true).append(true).open(p) {
            let _ = writeln!(f, "{line}");
        }
    }
}

/// A surface: (runner, timing-sensitive).  Timing-sensitive runners return (observation, matched).
pub type Runner = fn(&[String]) -> (String, bool);
pub type Lookup = fn(&str) -> Option<(Runner, bool)>;

pub fn srv_lookup(kind: &str) -> Option<(Runner, bool)> {
    match kind {
        "srv" => Some((srv_case as Runner, true)),
        _ => None,
    }
}

fn run_one(toks: Vec<String>, lookup: Lookup) -> String {
    // every case runs in its own thread under a watchdog; a panic or a hang becomes an observation
    let (tx, rx) = std::sync::mpsc::channel::<String>();
    let t2 = toks.clone();
    std::thread::spawn(move || {
        let r = std::panic::catch_unwind(move || match lookup(t2[0].as_str()) {
            Some((runner, false)) => runner(&t2).0,
            Some((runner, true)) => {
                // timing verdicts are three-valued: an observation that differs from the naive
                // forecast is re-measured; only a difference seen 3 times in a row is reported.
                let mut first: Option<String> = None;
                let mut last = String::new();
                for attempt in 1..=3 {
                    let (o, matched) = runner(&t2);
                    last = o;
                    if matched {
                        if let Some(f) = &first {
                            timing_log(&format!("inconclusive attempts={attempt} case={} first={f}", t2.join(" ")));
                        }
                        return last;
                    }
                    if first.is_none() {
                        first = Some(last.clone());
                    }
                }
                timing_log(&format!("reproduced-3x case={} obs={last}", t2.join(" ")));
                last
            }
            None => "unsupported".to_string(),
        });
        let _ = tx.send(match r {
            Ok(s) => s,
            Err(e) => {
                let msg = if let Some(s) = e.downcast_ref::<String>() { s.clone() } else if let Some(s) = e.downcast_ref::<&str>() { (*s).to_string() } else { "?".to_string() };
                let msg: String = msg.chars().map(|c| if c.is_ascii_graphic() { c } else { '_' }).take(80).collect();
                format!("panic {msg}")
            }
        });
    });
    match rx.recv_timeout(CASE_DEADLINE) {
        Ok(s) => s,
        Err(_) => "hang".to_string(),
    }
}

extern "C" {
    fn dup(fd: i32) -> i32;
    fn dup2(a: i32, b: i32) -> i32;
}

pub fn main_with(lookup: Lookup) {
    std::panic::set_hook(Box::new(|_| {}));
    // servlin prints diagnostics ("ERROR HttpError::...") with println!; keep the observation
    // channel clean: results go to the original stdout, everything else printed to fd 1 goes to
    // stderr.
    let saved = unsafe {
        let s = dup(1);
        dup2(2, 1);
        s
    };
    use std::os::unix::io::FromRawFd;
    let result_out = unsafe { std::fs::File::from_raw_fd(saved) };
    safina::timer::start_timer_thread();
    let stdin = std::io::stdin();
    let lines: Vec<Vec<String>> = stdin.lock().lines().map(|l| l.unwrap().split_ascii_whitespace().map(str::to_string).collect()).collect();
    let total = lines.len();
    let results: Arc<Mutex<Vec<Option<String>>>> = Arc::new(Mutex::new(vec![None; total]));
    // pool cases are independent and cheap: 8 workers; socket scenarios: 4 workers (own ports,
    // own executors), which keeps timing honest on a loaded machine
    let lines = Arc::new(lines);
    let next = Arc::new(AtomicUsize::new(0));
    let mut workers = Vec::new();
    let nworkers: usize = std::env::var("SV_WORKERS").ok().and_then(|x| x.parse().ok()).unwrap_or(4);
    for _ in 0..nworkers {
        let lines = lines.clone();
        let next = next.clone();
        let results = results.clone();
        workers.push(std::thread::spawn(move || loop {
            let i = next.fetch_add(1, SeqCst);
            if i >= lines.len() {
                break;
            }
            if lines[i].is_empty() {
                results.lock().unwrap()[i] = Some("badcase".to_string());
                continue;
            }
            if lines[i][0] == "acc" && lines[i].iter().any(|t| t.starts_with('f') || t.starts_with('F') || t.starts_with('G') || t == "L") {
                continue; // changes the process-wide descriptor limit: run alone, below
            }
            let r = run_one(lines[i].clone(), lookup);
            results.lock().unwrap()[i] = Some(r);
        }));
    }
    for w in workers {
        let _ = w.join();
    }
    for i in 0..total {
        if results.lock().unwrap()[i].is_none() {
            let r = run_one(lines[i].clone(), lookup);
            results.lock().unwrap()[i] = Some(r);
        }
    }
    let mut out = std::io::BufWriter::new(result_out);
    for r in results.lock().unwrap().iter() {
        writeln!(out, "{}", r.clone().unwrap_or_else(|| "missing".to_string())).unwrap();
    }
}
