//! Helpers shared by the C17 and C18 harness binaries (included with `#[path]`): token syntax of
//! tag values, handler results, requests; canonical printing of tags and responses.
#![allow(dead_code)]
use servlin::log::internal::{Tag, TagValue};
use servlin::log::Level;
use servlin::{Error, Response};
use std::collections::HashMap;
use std::sync::Mutex;
use svharness::*;

static NAMES: Mutex<Option<HashMap<String, &'static str>>> = Mutex::new(None);

/// `Tag.name` is `&'static str`: leak each distinct name once.
pub fn static_name(s: &str) -> &'static str {
    let mut g = NAMES.lock().unwrap_or_else(std::sync::PoisonError::into_inner);
    let m = g.get_or_insert_with(HashMap::new);
    if let Some(x) = m.get(s) {
        return x;
    }
    let leaked: &'static str = Box::leak(s.to_string().into_boxed_str());
    m.insert(s.to_string(), leaked);
    leaked
}

pub fn level(t: &str) -> Level {
    match t {
        "error" => Level::Error,
        "info" => Level::Info,
        "debug" => Level::Debug,
        _ => panic!("bad level"),
    }
}

/// Builds the TagValue through the public `From` impls (the way applications do).
/// value syntax: s:<u-token> (String)  ss:<u-token> (&'static str)  b:0|1  none  null
///   i8:.. i16:.. i32:.. i64:.. i128:.. u8:.. u16:.. u32:.. u64:.. u128:.. usize:..   (decimal)
///   f64:<bits decimal>  f32:<bits decimal>   some:<value>
pub fn value(t: &str, floats: &mut Vec<String>) -> TagValue {
    let (ty, arg) = t.split_once(':').unwrap_or((t, ""));
    let v: TagValue = match ty {
        "s" => TagValue::from(string_of_scalars_tok(arg)),
        "ss" => TagValue::Str(static_name(&string_of_scalars_tok(arg))),
        "b" => TagValue::from(arg == "1"),
        "none" => TagValue::from(Option::<i64>::None),
        "null" => TagValue::Null,
        "i8" => TagValue::from(arg.parse::<i8>().unwrap()),
        "i16" => TagValue::from(arg.parse::<i16>().unwrap()),
        "i32" => TagValue::from(arg.parse::<i32>().unwrap()),
        "i64" => TagValue::from(arg.parse::<i64>().unwrap()),
        "i128" => TagValue::from(arg.parse::<i128>().unwrap()),
        "u8" => TagValue::from(arg.parse::<u8>().unwrap()),
        "u16" => TagValue::from(arg.parse::<u16>().unwrap()),
        "u32" => TagValue::from(arg.parse::<u32>().unwrap()),
        "u64" => TagValue::from(arg.parse::<u64>().unwrap()),
        "u128" => TagValue::from(arg.parse::<u128>().unwrap()),
        "usize" => TagValue::from(arg.parse::<usize>().unwrap()),
        "f64" => TagValue::from(f64::from_bits(arg.parse::<u64>().unwrap())),
        "f32" => TagValue::from(f32::from_bits(arg.parse::<u32>().unwrap())),
        "some" => {
            let inner = value(arg, floats);
            return match inner {
                TagValue::String(s) => TagValue::from(Some(s)),
                TagValue::Bool(b) => TagValue::from(Some(b)),
                TagValue::I64(x) => TagValue::from(Some(x)),
                TagValue::U64(x) => TagValue::from(Some(x)),
                other => other,
            };
        }
        _ => panic!("bad value type {ty}"),
    };
    if let TagValue::Float(text) = &v {
        floats.push(text.clone());
    }
    v
}

/// Reads `k {name value}*k` starting at toks[*i].
pub fn tags(toks: &[&str], i: &mut usize, floats: &mut Vec<String>) -> Vec<Tag> {
    let k: usize = toks[*i].parse().unwrap();
    *i += 1;
    let mut out = Vec::new();
    for _ in 0..k {
        let name = static_name(&string_of_scalars_tok(toks[*i]));
        let v = value(toks[*i + 1], floats);
        *i += 2;
        out.push(Tag::new(name, v));
    }
    out
}

/// Canonical text of a tag value: s:<u-token>  i:<decimal>  b:0|1  n  f:<x-token>.
/// The value of a `duration_ms` tag of type u128 (elapsed wall time) is printed as `D`.
pub fn show_value(name: &str, v: &TagValue) -> String {
    match v {
        TagValue::Str(s) => format!("s:{}", tok_of_scalars(s)),
        TagValue::String(s) => format!("s:{}", tok_of_scalars(s)),
        TagValue::Bool(b) => format!("b:{}", u8::from(*b)),
        TagValue::I8(x) => format!("i:{x}"),
        TagValue::I16(x) => format!("i:{x}"),
        TagValue::I32(x) => format!("i:{x}"),
        TagValue::I64(x) => format!("i:{x}"),
        TagValue::I128(x) => format!("i:{x}"),
        TagValue::U8(x) => format!("i:{x}"),
        TagValue::U16(x) => format!("i:{x}"),
        TagValue::U32(x) => format!("i:{x}"),
        TagValue::U64(x) => format!("i:{x}"),
        TagValue::U128(x) => {
            if name == "duration_ms" {
                "D".to_string()
            } else {
                format!("i:{x}")
            }
        }
        TagValue::Usize(x) => format!("i:{x}"),
        TagValue::Float(t) => format!("f:{}", tok_of_bytes(t.as_bytes())),
        TagValue::Null => "n".to_string(),
    }
}

pub fn show_tags(tags: &[Tag]) -> String {
    let mut s = format!("{}", tags.len());
    for t in tags {
        s.push(' ');
        s.push_str(&tok_of_scalars(t.name));
        s.push(' ');
        s.push_str(&show_value(t.name, &t.value));
    }
    s
}

/// response tokens: <code> <body len | -> <id>     (`-` = a body without a known length)
pub fn response(toks: &[&str], i: &mut usize) -> Response {
    let code: u16 = toks[*i].parse().unwrap();
    let blen = toks[*i + 1];
    let id = toks[*i + 2];
    *i += 3;
    let mut r = if blen == "-" {
        let (_sender, r) = Response::event_stream();
        r.with_status(code)
    } else if let Some(max) = blen.strip_prefix('g') {
        // a handler that asks for the request body first (Response::get_body_and_reprocess / req.recv_body(n)?):
        // the wrappers log such a result like any other (empty body)
        Response::get_body_and_reprocess(max.parse().unwrap()).with_status(code)
    } else {
        let n: usize = blen.parse().unwrap();
        Response::new(code).with_body(vec![b'x'; n])
    };
    r.headers.add("x-id", id.to_string().try_into().unwrap());
    r
}

/// `R <code> <len|-> <id>`; a response without the marker header has id 0.
pub fn show_response(r: &Response) -> String {
    let len = match r.body.len() {
        Some(n) => n.to_string(),
        None => "-".to_string(),
    };
    let id = r.headers.get_only("x-id").map_or("0".to_string(), |v| v.as_str().to_string());
    format!("R {} {} {}", r.code, len, id)
}

/// handler result tokens:
///   ok <response>
///   err <msg u-token | -> <bt 0|1> <k> {name value}*k ( none | some <response> )
pub fn handler_result(toks: &[&str], i: &mut usize, floats: &mut Vec<String>) -> Result<Response, Error> {
    let kind = toks[*i];
    *i += 1;
    match kind {
        "ok" => Ok(response(toks, i)),
        "err" => {
            let msg = toks[*i];
            let bt = toks[*i + 1] == "1";
            *i += 2;
            let mut e = Error::new();
            // Error.tags is public; applications use with_tag
            for t in tags(toks, i, floats) {
                e = e.with_tag(t.name, t.value);
            }
            if msg != "-" {
                e = e.with_msg(string_of_scalars_tok(msg));
            }
            if bt {
                e = e.with_backtrace();
            }
            let r = toks[*i];
            *i += 1;
            if r == "some" {
                e = e.with_response(response(toks, i));
            }
            Err(e)
        }
        _ => panic!("bad handler result"),
    }
}
