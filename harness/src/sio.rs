//! Scripted in-memory AsyncRead / AsyncWrite used by the C06, C07 and C08 harness binaries
//! (included with `#[path = "../sio.rs"] mod sio;`).  They follow the case's schedule exactly:
//! the reader hands out at most k_i bytes per call or fails; the writer accepts at most k_i bytes
//! per call or fails, and fails every call once its byte budget is used up.  With `pend` set they
//! answer `Pending` (with an immediate wake) once before every real answer.
#![allow(dead_code)]
use futures_io::{AsyncRead, AsyncWrite};
use std::collections::VecDeque;
use std::io::{Error, ErrorKind};
use std::pin::Pin;
use std::task::{Context, Poll};

#[derive(Clone, Copy, Debug)]
pub enum Rop {
    Give(usize),
    Fail,
    /// an error of the given kind (the library must treat every kind alike: no retry, no terminator)
    FailKind(ErrorKind),
}
pub struct ScriptReader {
    pub data: Vec<u8>,
    pub pos: usize,
    pub sched: VecDeque<Rop>,
    pub pend: bool,
    pended: bool,
    pub calls: usize,
}
impl ScriptReader {
    pub fn new(data: Vec<u8>, sched: Vec<Rop>, pend: bool) -> Self {
        Self { data, pos: 0, sched: sched.into(), pend, pended: false, calls: 0 }
    }
}
impl AsyncRead for ScriptReader {
    fn poll_read(mut self: Pin<&mut Self>, cx: &mut Context<'_>, buf: &mut [u8]) -> Poll<Result<usize, Error>> {
        if self.pend && !self.pended {
            self.pended = true;
            cx.waker().wake_by_ref();
            return Poll::Pending;
        }
        self.pended = false;
        self.calls += 1;
        let remaining = self.data.len() - self.pos;
        let n = match self.sched.pop_front() {
            None => buf.len().min(remaining),
            Some(Rop::Give(k)) => k.min(buf.len()).min(remaining),
            Some(Rop::Fail) => return Poll::Ready(Err(Error::new(ErrorKind::Other, "scripted read error"))),
            Some(Rop::FailKind(k)) => return Poll::Ready(Err(Error::new(k, "scripted read error"))),
        };
        let pos = self.pos;
        buf[..n].copy_from_slice(&self.data[pos..pos + n]);
        self.pos += n;
        Poll::Ready(Ok(n))
    }
}

#[derive(Clone, Copy, Debug)]
pub enum Wop {
    Accept(usize),
    Fail,
    FailKind(ErrorKind),
}
pub struct ScriptWriter {
    pub out: Vec<u8>,
    pub sched: VecDeque<Wop>,
    pub budget: Option<u64>,
    pub flush_ok: bool,
    pub pend: bool,
    pended: bool,
    pub flushes: usize,
    pub closes: usize,
    /// run once, when the first poll_write call arrives (before it is answered)
    pub on_first_write: Option<Box<dyn FnOnce()>>,
}
impl ScriptWriter {
    pub fn new(sched: Vec<Wop>, budget: Option<u64>, flush_ok: bool, pend: bool) -> Self {
        Self { out: Vec::new(), sched: sched.into(), budget, flush_ok, pend, pended: false, flushes: 0, closes: 0, on_first_write: None }
    }
}
impl AsyncWrite for ScriptWriter {
    fn poll_write(mut self: Pin<&mut Self>, cx: &mut Context<'_>, buf: &[u8]) -> Poll<Result<usize, Error>> {
        if self.pend && !self.pended {
            self.pended = true;
            cx.waker().wake_by_ref();
            return Poll::Pending;
        }
        self.pended = false;
        if let Some(f) = self.on_first_write.take() {
            f();
        }
        if self.budget == Some(0) {
            return Poll::Ready(Err(Error::new(ErrorKind::BrokenPipe, "scripted budget exhausted")));
        }
        let cap = match self.budget {
            Some(b) => usize::try_from(b).unwrap_or(usize::MAX),
            None => usize::MAX,
        };
        let n = match self.sched.pop_front() {
            None => buf.len().min(cap),
            Some(Wop::Accept(k)) => k.min(buf.len()).min(cap),
            Some(Wop::Fail) => return Poll::Ready(Err(Error::new(ErrorKind::BrokenPipe, "scripted write error"))),
            Some(Wop::FailKind(k)) => return Poll::Ready(Err(Error::new(k, "scripted write error"))),
        };
        self.out.extend_from_slice(&buf[..n]);
        if let Some(b) = self.budget.as_mut() {
            *b -= n as u64;
        }
        Poll::Ready(Ok(n))
    }
    fn poll_flush(mut self: Pin<&mut Self>, _cx: &mut Context<'_>) -> Poll<Result<(), Error>> {
        self.flushes += 1;
        if self.flush_ok {
            Poll::Ready(Ok(()))
        } else {
            Poll::Ready(Err(Error::new(ErrorKind::BrokenPipe, "scripted flush error")))
        }
    }
    fn poll_close(mut self: Pin<&mut Self>, _cx: &mut Context<'_>) -> Poll<Result<(), Error>> {
        self.closes += 1;
        Poll::Ready(Ok(()))
    }
}

fn hexval(c: u8) -> u8 {
    match c {
        b'0'..=b'9' => c - b'0',
        b'a'..=b'f' => c - b'a' + 10,
        b'A'..=b'F' => c - b'A' + 10,
        _ => panic!("bad hex"),
    }
}
/// data token: `x<hex>` | `g<seed>_<len>` (LCG bytes) | `z<hexbyte>_<len>` (constant)
pub fn data_of_tok(t: &str) -> Vec<u8> {
    let b = t.as_bytes();
    match b[0] {
        b'x' => b[1..].chunks(2).map(|p| 16 * hexval(p[0]) + hexval(p[1])).collect(),
        b'g' => {
            let (seed, len) = t[1..].split_once('_').unwrap();
            let mut x: u64 = seed.parse::<u64>().unwrap() & 0x7fff_ffff;
            let len: usize = len.parse().unwrap();
            (0..len)
                .map(|_| {
                    x = (x.wrapping_mul(1_103_515_245).wrapping_add(12345)) & 0x7fff_ffff;
                    ((x >> 16) & 255) as u8
                })
                .collect()
        }
        b'z' => {
            let (bb, len) = t[1..].split_once('_').unwrap();
            let bb = bb.as_bytes();
            vec![16 * hexval(bb[0]) + hexval(bb[1]); len.parse().unwrap()]
        }
        _ => panic!("bad data token"),
    }
}
/// run-length token: segments joined by ','; `x<hex>` literal, `z<hexbyte>*<count>` for runs >= 32
pub fn rle(b: &[u8]) -> String {
    if b.is_empty() {
        return "x".to_string();
    }
    const HEX: &[u8; 16] = b"0123456789abcdef";
    let mut out = String::with_capacity(2 * b.len() + 16);
    let mut lit = String::new();
    let mut first = true;
    let mut i = 0;
    while i < b.len() {
        let c = b[i];
        let mut j = i + 1;
        while j < b.len() && b[j] == c {
            j += 1;
        }
        let run = j - i;
        if run >= 32 {
            if !lit.is_empty() {
                if !first {
                    out.push(',');
                }
                first = false;
                out.push('x');
                out.push_str(&lit);
                lit.clear();
            }
            if !first {
                out.push(',');
            }
            first = false;
            out.push_str(&format!("z{c:02x}*{run}"));
        } else {
            for _ in 0..run {
                lit.push(HEX[(c >> 4) as usize] as char);
                lit.push(HEX[(c & 15) as usize] as char);
            }
        }
        i = j;
    }
    if !lit.is_empty() {
        if !first {
            out.push(',');
        }
        out.push('x');
        out.push_str(&lit);
    }
    out
}
/// one-letter tokens for an error of a particular io::ErrorKind (the library must treat every kind alike)
pub fn kind_of_letter(s: &str) -> Option<ErrorKind> {
    Some(match s {
        "i" => ErrorKind::Interrupted,
        "t" => ErrorKind::TimedOut,
        "z" => ErrorKind::WriteZero,
        "u" => ErrorKind::UnexpectedEof,
        "b" => ErrorKind::BrokenPipe,
        "w" => ErrorKind::WouldBlock,
        "o" => ErrorKind::Other,
        "d" => ErrorKind::InvalidData,
        "c" => ErrorKind::ConnectionReset,
        "n" => ErrorKind::NotFound,
        "p" => ErrorKind::PermissionDenied,
        _ => return None,
    })
}
/// "r:5,f,0"
pub fn parse_rsched(t: &str) -> Vec<Rop> {
    t[2..]
        .split(',')
        .filter(|s| !s.is_empty())
        .map(|s| match s {
            "f" => Rop::Fail,
            k if kind_of_letter(k).is_some() => Rop::FailKind(kind_of_letter(k).unwrap()),
            _ => Rop::Give(s.parse().unwrap()),
        })
        .collect()
}
/// "w:5,f,0"
pub fn parse_wsched(t: &str) -> Vec<Wop> {
    t[2..]
        .split(',')
        .filter(|s| !s.is_empty())
        .map(|s| match s {
            "f" => Wop::Fail,
            k if kind_of_letter(k).is_some() => Wop::FailKind(kind_of_letter(k).unwrap()),
            _ => Wop::Accept(s.parse().unwrap()),
        })
        .collect()
}
pub fn parse_budget(t: &str) -> Option<u64> {
    if t == "-" {
        None
    } else {
        Some(t.parse().unwrap())
    }
}
