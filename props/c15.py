"""C15 -- cookies: request Cookie parsing and Set-Cookie formatting.  Case generator and evidence rules.

req F { f <hdrname> N { p <lead> <name> <value> <trail> | e <lead> <trail> | n <lead> <text> <trail> } }
sc  K { c <name> <value> <domain> <expires|-> <http_only> <path> <secs> <subsec> <S|L|N> <secure> }
(x.. tokens are hex bytes).  A Cookie field's value is the concatenation lead+core+trail of its
segments joined with ';' (core = name=value | nothing | text)."""

RULE = ("req: Cookie fields generated from the cookie-string grammar (0..10 pairs over token names and cookie-octet/DQUOTE "
        "values incl. '=' and empty values, duplicate names, stray ';', SP/HTAB blanks, 1..3 fields, four letter-cases of "
        "the field name) + a mutation stream (a pair without '=', raw segments such as 'a = b', '=v', blanks only). "
        "sc: cookies built through Cookie::new(..).with_* over all attribute on/off combinations x domain/path/Max-Age "
        "boundary values (0, 1, 2^40) x 0..3 cookies per response + an invalid-character stream (outside the statement, "
        "correspondence only). Non-trivial = req: the model's map is non-empty or the request is rejected; sc: at least "
        "one cookie and no panic. Distinct by full case text.")
ASSUMPTIONS = [
    "the head parser hands the Cookie field values to the cookie loop unchanged except for outer OWS (the harness drives "
    "the whole read_http_request; C01/C02 own the head parser)",
    "str::trim on ASCII strips U+0009..U+000D and U+0020; str::split / splitn(2) as modelled (split_on, splitn2)",
    "HashMap<String,String> = finite map with replace-on-insert (modelled as an association list with distinct keys)",
    "u64 Display = decimal digits without padding (Base.Bytes.dec)",
    "Expires is emitted but is outside the statement (DESIGN section 7): the reference parser ignores it",
]
LEVEL = "proof"
EXHAUSTIVE = {"quick": False, "thorough": False}

TCHARS = "!#$%&'*+-.^_`|~0123456789abcdefghijklmnopqrstuvwxyzABCDEFGHIJKLMNOPQRSTUVWXYZ"
COOKIE_OCTETS = [chr(c) for c in [0x21] + list(range(0x23, 0x2C)) + list(range(0x2D, 0x3B)) + list(range(0x3C, 0x5C)) + list(range(0x5D, 0x7F))]
BLANKS = ["", "", "", " ", " ", "\t", "  ", " \t", "\t "]
HDRS = ["Cookie", "cookie", "COOKIE", "cOoKiE"]
NAME_POOL = ["a", "b", "A", "sid", "SID", "x-y", "k1", "k2", "!#$%&'*+-.^_`|~", "__Host-sid", "__Secure-id", "__host-x", "__Host", "$Version", "Path", "Secure"]


def tok(s):
    return "x" + s.encode("latin1").hex()


def untok(t):
    return bytes.fromhex(t[1:]).decode("latin1")


def rand_name(rng):
    if rng.random() < 0.6:
        return rng.choice(NAME_POOL)
    return "".join(rng.choice(TCHARS) for _ in range(rng.randint(1, 8)))


def rand_value(rng):
    r = rng.random()
    if r < 0.12:
        return ""
    if r < 0.25:
        return rng.choice(["=", "==", "a=b", "=a", "a=", "x=y=z", "\"\"", "\"a=b\"", "\"", "a\"b"])
    body = "".join(rng.choice(COOKIE_OCTETS) for _ in range(rng.randint(1, 10)))
    if r < 0.4:
        return '"' + body + '"'
    if r < 0.55:
        k = rng.randint(0, len(body))
        return body[:k] + "=" + body[k:]
    return body


# a segment is a tuple: ("p", lead, name, value, trail) | ("e", lead, trail) | ("n", lead, text, trail)
def seg_str(s):
    return " ".join([s[0]] + [tok(x) for x in s[1:]])


def req_case(fields):
    out = ["req", str(len(fields))]
    for hdr, segs in fields:
        out += ["f", tok(hdr), str(len(segs))] + [seg_str(s) for s in segs]
    return " ".join(out)


def parse_req(case):
    t = case.split()
    i = 2
    fields = []
    for _ in range(int(t[1])):
        hdr, n = untok(t[i + 1]), int(t[i + 2])
        i += 3
        segs = []
        for _ in range(n):
            k = {"p": 5, "e": 3, "n": 4}[t[i]]
            segs.append(tuple([t[i]] + [untok(x) for x in t[i + 1:i + k]]))
            i += k
        fields.append((hdr, segs))
    return fields


def gen_valid_fields(rng, rfc_style=False):
    npairs = rng.randint(0, 10)
    nfields = rng.randint(1, 3)
    pairs = [(rand_name(rng), rand_value(rng)) for _ in range(npairs)]
    # distribute over fields
    cuts = sorted(rng.randint(0, npairs) for _ in range(nfields - 1))
    groups, prev = [], 0
    for c in cuts + [npairs]:
        groups.append(pairs[prev:c])
        prev = c
    fields = []
    for g in groups:
        segs = []
        for j, (n, v) in enumerate(g):
            if rfc_style:
                segs.append(("p", " " if j > 0 else "", n, v, ""))
            else:
                while rng.random() < 0.2:
                    segs.append(("e", rng.choice(BLANKS), rng.choice(BLANKS)))   # stray ';'
                segs.append(("p", rng.choice(BLANKS + [" "] * 4), n, v, rng.choice(BLANKS)))
        if not rfc_style:
            while rng.random() < 0.2:
                segs.append(("e", rng.choice(BLANKS), rng.choice(BLANKS)))
        if not segs:
            segs.append(("e", rng.choice(BLANKS), ""))
        fields.append((rng.choice(HDRS) if not rfc_style else "Cookie", segs))
    return fields


def mutate(rng, fields):
    """the malformed stream: drop an '=', or put a raw segment"""
    fields = [(h, list(s)) for h, s in fields]
    h, segs = rng.choice(fields)
    r = rng.random()
    pidx = [i for i, s in enumerate(segs) if s[0] == "p"]
    if r < 0.6 and pidx:
        i = rng.choice(pidx)
        _, lead, n, v, trail = segs[i]
        text = n + "".join(c for c in v if c in TCHARS)
        segs[i] = ("n", lead, text, trail)
    else:
        raw = rng.choice(["a = b", "a =b", "a= b", "=v", "=", "==", "a", "abc", "a b", "a b=c", "\"a\"=b", "a,b", "a\\b=c", "@=1", "a=b c"])
        segs.insert(rng.randint(0, len(segs)), ("n", rng.choice(BLANKS), raw, rng.choice(BLANKS)))
    return fields


def fixed_req_cases():
    P = lambda n, v, lead="", trail="": ("p", lead, n, v, trail)
    E = lambda lead="", trail="": ("e", lead, trail)
    N = lambda t, lead="", trail="": ("n", lead, t, trail)
    cs = [
        [("Cookie", [P("a", "b")])],
        [("Cookie", [P("a", "")])],                                    # empty value
        [("Cookie", [P("a", "b=c")])],                                 # '=' inside a value
        [("Cookie", [P("a", "=")])],
        [("Cookie", [P("a", '"x y"'.replace(" ", "="))])],
        [("Cookie", [P("a", "1"), P("b", "2", " ")])],
        [("Cookie", [P("a", "1"), E(), P("b", "2", " ")])],            # stray ';'
        [("Cookie", [E(), E(), E()])],
        [("Cookie", [E(" ", "\t")])],
        [("Cookie", [P("a", "1", " \t", "\t ")])],                     # blanks around a segment
        [("Cookie", [P("a", "1"), P("a", "2", " ")])],                 # repeated name in one field
        [("Cookie", [P("a", "1")]), ("cookie", [P("a", "2")])],        # repeated name across fields
        [("Cookie", [P("a", "1")]), ("COOKIE", [P("b", "2")]), ("cookie", [P("a", "3"), P("A", "4", " ")])],
        [("Cookie", [P("a", "1"), N("b", " ")])],                      # segment without '='
        [("Cookie", [N("b")])],
        [("Cookie", [P("a", "1")]), ("Cookie", [N("zzz", " ", " ")])],
        [("Cookie", [N("a = b")])],
        [("Cookie", [N("=v")])],
        [("Cookie", [N("=")])],
    ]
    return [req_case(f) for f in cs]


# ---- response side ----
DOMAINS = ["", "example.com", ".example.com", "Example.COM", ".Example.COM", "a.b-c.d", "localhost", "1.2.3.4", "."]
PATHS = ["", "/", "/a", "/a/b", "/a b", "/x=y", "/%20", "/a,b"]
MAXAGES = [0, 1, 2, 59, 2592000, 2 ** 31, 2 ** 32, 2 ** 40 - 1, 2 ** 40]
EXPIRES = ["-", "-", "1", "1700000000", "253402300799", "0"]


def cookie_str(c):
    name, value, domain, expires, ho, path, secs, subsec, ss, secure = c
    return " ".join(["c", tok(name), tok(value), tok(domain), str(expires), str(int(ho)), tok(path), str(secs), str(int(subsec)), ss, str(int(secure))])


def sc_case(cookies):
    return " ".join(["sc", str(len(cookies))] + [cookie_str(c) for c in cookies])


def parse_sc(case):
    t = case.split()
    cs = []
    for j in range(int(t[1])):
        x = t[2 + 11 * j:2 + 11 * (j + 1)]
        cs.append((untok(x[1]), untok(x[2]), untok(x[3]), x[4], x[5] == "1", untok(x[6]), int(x[7]), x[8] == "1", x[9], x[10] == "1"))
    return cs


def rand_cookie(rng, valid=True):
    name = rand_name(rng)
    value = rand_value(rng)
    domain = rng.choice(DOMAINS)
    path = rng.choice(PATHS)
    secs = rng.choice(MAXAGES + [rng.randint(0, 2 ** 40)])
    c = [name, value, domain, rng.choice(EXPIRES), rng.random() < 0.5, path, secs, False, rng.choice("SLN"), rng.random() < 0.5]
    if not valid:
        k = rng.randint(0, 7)
        if k == 0:
            c[0] = rng.choice(["", "a=b", "a;b", "a b", " a", "a\"", "a,b"])
        elif k == 1:
            c[1] = rng.choice(["a;b", "a b", " a", "a ", "a; Secure", "a,b", "a\\b", "\t"])
        elif k == 2:
            c[2] = rng.choice(["a b", "a;b", " example.com", "ex ample", "a=b", "a_b"])
        elif k == 3:
            c[5] = rng.choice(["a", "a/b", "/a;b", "/a ", " /a", "x", "/\t"])
        elif k == 4:
            c[7] = True                                  # sub-second Max-Age
            c[6] = rng.choice([0, 0, 1, 5])
        else:
            c[3] = rng.choice(["0", "1", "86400"])
            c[7] = rng.random() < 0.3
    return tuple(c)


def fixed_sc_cases():
    cs = []
    base = ("sid", "abc", "", "-", True, "", 2592000, False, "S", True)      # Cookie::new defaults
    cs.append(sc_case([base]))
    cs.append(sc_case([]))
    # every attribute on/off x SameSite
    for dom in ["", ".Example.COM"]:
        for ho in [False, True]:
            for ma in [0, 1, 2 ** 40]:
                for path in ["", "/a/b"]:
                    for ss in "SLN":
                        for sec in [False, True]:
                            for ex in ["-", "1700000000"]:
                                cs.append(sc_case([("n", "v=\"w\"", dom, ex, ho, path, ma, False, ss, sec)]))
    cs.append(sc_case([base, ("b", "", "example.com", "-", False, "/", 0, False, "N", False), ("sid", "2", "", "-", True, "", 1, False, "L", True)]))
    # outside the statement, recorded behaviour: sub-second Max-Age prints Max-Age=0
    cs.append(sc_case([("a", "b", "", "-", False, "", 0, True, "S", False)]))
    cs.append(sc_case([("", "b", "", "-", False, "", 0, False, "S", False)]))   # empty name: Cookie::new panics
    return cs


def gen(rng, tier):
    thorough = tier == "thorough"
    cases = fixed_req_cases() + fixed_sc_cases()
    n_req = 400000 if thorough else 12000
    for i in range(n_req):
        f = gen_valid_fields(rng, rfc_style=(i % 10 == 0))
        if i % 4 == 3:
            f = mutate(rng, f)
        cases.append(req_case(f))
    # Cookie fields among other header fields, in particular behind / between the fields read_http_request consumes first
    # (content-type, expect, transfer-encoding): the order in which the Cookie fields are walked must stay the order sent
    others = [("content-type", "text/plain"), ("Expect", "100-continue"), ("transfer-encoding", "gzip"), ("host", "h"),
              ("accept", "*/*"), ("Content-Type", "a/b")]
    for i in range(20000 if thorough else 1500):
        f = gen_valid_fields(rng)
        ck = [x for x in f if x[0].lower() == "cookie"]
        if len(ck) < 2 and i % 2 == 0:
            # two Cookie fields with the same cookie name and different values: the later one wins
            nm = "sid"
            ck = [("Cookie", [("p", "", nm, "old%d" % i, "")]), ("cookie", [("p", "", nm, "new%d" % i, ""), ("p", " ", "t", "1", "")])]
        mixed = list(ck)
        for (h, v) in rng.sample(others[:3], rng.randint(1, 3)) + rng.sample(others[3:], rng.randint(0, 2)):
            mixed.insert(rng.choice([0, 0, rng.randint(0, len(mixed))]), (h, [("n", "", v, "")]))
        cases.append(req_case(mixed))
    n_sc = 500000 if thorough else 8000
    for i in range(n_sc):
        k = rng.choice([1, 1, 1, 2, 3, 0]) if i % 50 else 0
        cases.append(sc_case([rand_cookie(rng, valid=(rng.random() < 0.85)) for _ in range(k)]))
    return cases


def classify(case, model):
    t = case.split()
    if t[0] == "req":
        fields = parse_req(case)
        kinds = set(s[0] for _, segs in fields for s in segs)
        names = [s[2] for _, segs in fields for s in segs if s[0] == "p"]
        return "req:fields=%d:%s:%s:%s" % (len(fields), "".join(sorted(kinds)), "dup" if len(set(names)) < len(names) else "nodup",
                                          "err" if model.startswith("err") else "ok")
    cs = parse_sc(case)
    if model.startswith("panic"):
        return "sc:panic"
    return "sc:k=%d:%s" % (len(cs), "maxage0" if any(c[6] == 0 for c in cs) else "maxage+")


def nontrivial(case, model):
    if case.startswith("req"):
        return model.startswith("err") or not model.startswith("ok 0")
    return not model.startswith("panic") and not case.startswith("sc 0")


def extra_evidence(results):
    b = dict(eq_in_value=0, empty_value=0, stray_semicolon=0, blanks=0, fields_1=0, fields_2=0, fields_3=0,
             repeated_name_across_fields=0, maxage_0=0, maxage_1=0, maxage_2p40=0, no_eq_segment=0)
    for r in results:
        case = r[1]
        if case.startswith("req"):
            fields = parse_req(case)
            b["fields_%d" % min(len(fields), 3)] += 1 if fields else 0
            seen = []
            for _, segs in fields:
                here = set()
                for s in segs:
                    if s[0] == "p":
                        b["eq_in_value"] += "=" in s[3]
                        b["empty_value"] += s[3] == ""
                        b["blanks"] += (s[1] != "" or s[4] != "")
                        here.add(s[2])
                    elif s[0] == "e":
                        b["stray_semicolon"] += 1
                    else:
                        b["no_eq_segment"] += "=" not in s[2]
                b["repeated_name_across_fields"] += any(n in prev for prev in seen for n in here)
                seen.append(here)
        elif case.startswith("sc"):
            for c in parse_sc(case):
                b["maxage_0"] += c[6] == 0
                b["maxage_1"] += c[6] == 1
                b["maxage_2p40"] += c[6] == 2 ** 40
    return dict(boundary_hits=b)


def shrink(case):
    if case.startswith("req"):
        fields = parse_req(case)
        for i in range(len(fields)):
            if len(fields) > 1:
                yield req_case(fields[:i] + fields[i + 1:])
        for i, (h, segs) in enumerate(fields):
            for j in range(len(segs)):
                if len(segs) > 1:
                    yield req_case(fields[:i] + [(h, segs[:j] + segs[j + 1:])] + fields[i + 1:])
            for j, s in enumerate(segs):
                for k in range(1, len(s)):
                    if len(s[k]) > 1:
                        for cut in (s[k][:len(s[k]) // 2], s[k][1:], s[k][:-1]):
                            s2 = s[:k] + (cut,) + s[k + 1:]
                            yield req_case(fields[:i] + [(h, segs[:j] + [s2] + segs[j + 1:])] + fields[i + 1:])
                    elif len(s[k]) == 1 and not (s[0] in "pn" and k == 2):
                        s2 = s[:k] + ("",) + s[k + 1:]
                        yield req_case(fields[:i] + [(h, segs[:j] + [s2] + segs[j + 1:])] + fields[i + 1:])
    elif case.startswith("sc"):
        cs = parse_sc(case)
        for i in range(len(cs)):
            if len(cs) > 1:
                yield sc_case(cs[:i] + cs[i + 1:])
        defaults = ("a", "", "", "-", False, "", 0, False, "S", False)
        for i, c in enumerate(cs):
            for k in range(10):
                if c[k] != defaults[k]:
                    c2 = c[:k] + (defaults[k],) + c[k + 1:]
                    yield sc_case(cs[:i] + [c2] + cs[i + 1:])
            for k in (0, 1, 2, 5):
                if len(c[k]) > 1:
                    for cut in (c[k][:len(c[k]) // 2], c[k][1:], c[k][:-1]):
                        yield sc_case(cs[:i] + [c[:k] + (cut,) + c[k + 1:]] + cs[i + 1:])


def neighbours(case, rng):
    out = []
    if case.startswith("req"):
        fields = parse_req(case)
        for _ in range(100):
            out.append(req_case(mutate(rng, fields)))
        for _ in range(200):
            out.append(req_case(gen_valid_fields(rng)))
    else:
        for _ in range(300):
            out.append(sc_case([rand_cookie(rng) for _ in range(rng.randint(1, 3))]))
    return out
