"""Shared by props/c12.py and props/c13.py: a tiny bookkeeping simulator used ONLY to generate
well-formed scenarios (which connection is admitted / idle / in its handler), never to judge them."""
import hashlib
import os

ROOT = os.path.dirname(os.path.dirname(os.path.abspath(__file__)))


def timing_log_path(pid):
    repo = os.environ.get("VERIF_REPO", "/repo")
    alt = "" if repo == "/repo" else "alt-" + hashlib.sha256(repo.encode()).hexdigest()[:10]
    d = os.path.join(ROOT, "run", alt, pid) if alt else os.path.join(ROOT, "run", pid)
    os.makedirs(d, exist_ok=True)
    return os.path.join(d, "timing.log")


class Book:
    """pending / live bookkeeping.  phase: 'H' handler running, 'I' idle, 'T' token held (acc)."""

    def __init__(self, n, full):
        self.n, self.full = n, full
        self.pending, self.live = [], {}
        self.unread = []          # multiset: client ids with a complete unread request in the socket
        self.partial = set()
        self.nclients = 0
        self.revoked = False
        self.closed = set()

    def settle(self):
        changed = True
        while changed:
            changed = False
            if not self.revoked:
                while len(self.live) < self.n and self.pending:
                    k = self.pending.pop(0)
                    self.live[k] = "I" if self.full else "T"
                    changed = True
            if self.full:
                for k in list(self.live):
                    if self.live[k] == "I":
                        if k in self.unread and self.served_ok(k):
                            self.unread.remove(k)
                            self.live[k] = "H"
                            changed = True

    def served_ok(self, k):
        return True

    def connect(self):
        k = self.nclients
        self.nclients += 1
        if self.revoked:
            self.closed.add(k)   # refused (the listener is gone once the loop has stopped)
            return k
        self.pending.append(k)
        if self.full:
            self.unread.append(k)
        self.settle()
        return k

    def end(self, k):
        self.live.pop(k, None)
        self.closed.add(k)
        self.settle()

    def release(self, k):
        assert self.live.get(k) == "H"
        self.live[k] = "I"
        if self.revoked:
            # the connection task sees the revoked permit at its loop head and closes
            self.live.pop(k)
            self.closed.add(k)
        self.settle()

    def request(self, k, j=1):
        self.partial.discard(k)
        self.unread += [k] * j
        self.settle()

    def revoke(self):
        self.revoked = True
        self.settle()

    def idle(self):
        return [k for k, p in self.live.items() if p == "I" and k not in self.unread and k not in self.partial]

    def handlers(self):
        return [k for k, p in self.live.items() if p == "H"]

    def tokens(self):
        return [k for k, p in self.live.items() if p == "T"]


HANDLER_KINDS = ["err500", "panic", "drop", "okclose", "abort", "reset"]
IDLE_KINDS = ["close", "malformed", "aborthead", "abortbody", "optstar"]


def valid(case):
    """True when every command of an acc/srv case refers to a connection in the right state."""
    t = case.split()
    if t[0] == "pool":
        n = int(t[1]); live = 0
        for op in t[2:]:
            if op in ("T", "Y"):
                if live < n:
                    live += 1
            elif op.startswith("D"):
                if int(op[1:]) >= live:
                    return False
                live -= 1
        return True
    if t[0] not in ("acc", "srv"):
        return False
    full = t[0] == "srv"
    b = Book(int(t[1]), full)
    big = set()      # connections whose current request is an upload head without body (C / Q<k> / x)
    expect = set()   # ... of which with Expect: 100-continue (x): y<k> lets the handler ask for the body
    for c in t[2:]:
        if c == "c":
            b.connect()
        elif c == "C":
            if not full:
                return False
            big.add(b.connect())
        elif c == "x":
            if not full:
                return False
            k = b.connect()
            big.add(k); expect.add(k)
        elif c[0] == "y":
            k = int(c[1:])
            if not full or k not in b.handlers() or k not in expect:
                return False
            b.release(k)
            big.discard(k); expect.discard(k)
        elif c[0] == "Q":
            k = int(c[1:])
            if not full or k not in b.idle() or k not in b.live or k in b.partial:
                return False
            b.request(k)
            big.add(k)
        elif c == "r":
            if b.revoked:
                return False
            b.revoke()
        elif c[0] == "f":
            if full:
                return False
            b.connect()
        elif c[0] == "G":
            if full:
                return False
            b.connect()
        elif c == "L":
            if full:
                return False
        elif c[0] == "F":
            if full or b.revoked:
                return False
            b.revoke()
        elif c[0] == "e":
            k = int(c[1:].split(":")[0]); kind = (c.split(":") + ["close"])[1]
            if full:
                if k in b.handlers():
                    if kind not in HANDLER_KINDS:
                        return False
                    if k in big and kind not in ("err500", "panic", "drop", "okclose", "abort", "reset"):
                        return False   # only endings in which the server closes, with the body unread
                    if k in b.unread and kind not in ("err500", "panic", "drop"):
                        return False   # a buffered follower would be served after a client-side ending
                elif k in b.idle():
                    if kind not in IDLE_KINDS:
                        return False
                else:
                    return False
            elif k not in b.tokens():
                return False
            b.end(k)
        elif c[0] == "l":
            k = int(c[1:])
            if not full or k not in b.handlers() or k in big:
                return False
            b.release(k)
        elif c[0] == "q":
            k = int(c[1:])
            if not full or not (k in b.idle() or k in b.partial):
                return False
            if k not in b.live:
                return False
            b.request(k)
        elif c[0] == "b":
            k = int(c[1:].split(":")[0]); j = int((c.split(":") + ["2"])[1])
            if not full or k not in b.live or j < 1:
                return False
            if not (k in b.idle() or k in b.partial or k in b.handlers()):
                return False
            b.request(k, j)
        elif c[0] in "pu":
            k = int(c[1:])
            if not full or k not in b.idle():
                return False
            b.partial.add(k)
        else:
            return False
    return True


def shrink(case):
    t = case.split()
    head, cmds = t[:2], t[2:]
    seen = set()
    for j in range(len(cmds) - 1, -1, -1):
        cand = " ".join(head + cmds[:j] + cmds[j + 1:])
        if cand not in seen and len(cmds) > 1 and valid(cand):
            seen.add(cand)
            yield cand
    n = int(t[1])
    if n > 1:
        cand = " ".join([t[0], str(n - 1)] + cmds)
        if valid(cand):
            yield cand


def classify(case, model):
    t = case.split()
    if t[0] == "pool":
        return "pool:n=%s:len=%d" % (t[1], len(t) - 2)
    kinds = sorted(set(c.split(":")[1] for c in t[2:] if ":" in c))
    feats = []
    if "r" in t[2:]:
        feats.append("revoke@%d" % t[2:].index("r"))
    if any(c[0] == "f" for c in t[2:]):
        feats.append("accept-error")
    if any(c[0] == "G" for c in t[2:]):
        feats.append("accept-error-with-stalled-logger")
    if "L" in t[2:]:
        feats.append("stalled-logger")
    if any(c[0] == "F" for c in t[2:]):
        feats.append("revoke-during-accept-errors")
    if any(c[0] in "pu" for c in t[2:]):
        feats.append("partial")
    if any(c[0] == "b" for c in t[2:]):
        feats.append("pipelined-burst")
    return "%s:n=%s:%s%s" % (t[0], t[1], ",".join(feats) or "-", (":" + "+".join(kinds)) if kinds else "")


def reaches_limit(case, model):
    t = case.split()
    n = t[1]
    if t[0] == "pool":
        return " T" in " " + model.split(";")[0]
    for o in model.replace(";", " ").split():
        f = o.split(",")
        if len(f) == 8 and (f[1] == n or f[2] == n):
            return True
    return False
