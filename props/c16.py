"""C16 -- calendar conversion and date arithmetic: case generator and evidence rules.

Case syntax (see ocaml/drv_c16.ml):  new S [Y M D] | day K Y M D | walk K Y M D N | secs S N Y M D |
add Y M D h m s SECS.  The Y M D after S/K are *hints* for the extracted model (checked there by the
Coq oracle, theorem c16_new_hinted_eq); they are computed here with the usual days<->civil
arithmetic and are never shown to the implementation side's comparison."""

RULE = ("quick: every Appendix-A boundary date, every 1st of month 1970..9999 x the seven seconds-of-day of the "
        "quantifier ('day' cases, 7 instants each), 50k random instants (300 of them evaluated by the fuelled model "
        "loops without hint), additions from every month start 1970..2405 x {0,1s,1d,365d,366d,367d,1461d,36524d,"
        "146097d,random} plus random valid starts and a malformed stream (invalid fields, durations >= 2^63); 31 Dec / 1 Mar / "
        "leap neighbourhood of every year and short walks around every multiple of the 4-, 100-, 400-year cycle lengths; 'logt' "
        "cases: the `time` member of jsonl log lines for sequences of events (increasing, decreasing, shuffled around midnight, "
        "leap days and year ends) sent through log() and rendered with LogEvent::write_jsonl in order on one thread. "
        "thorough: additionally EVERY day 1970-01-01..9999-12-31 x seven seconds-of-day ('walk' cases, exhaustive), "
        "every second of 22 selected days, 1M random instants, more additions. Non-trivial = the instant is not in "
        "1970-01-01 (new/day/walk/secs) or the duration is non-zero and accepted (add); distinct by full case text.")
ASSUMPTIONS = [
    "i64 arithmetic of the code does not overflow on the tested inputs (model computes in Z; inputs with sec+secs > i64::MAX are excluded)",
    "Rust `{:04}`/`{:02}` of an i64 = sign, then decimal digits zero-padded to the width (modelled by fmt_int)",
    "the jsonl `time` member and the log-file-name stamp use the same DateTime and the same format strings; they are "
    "proved on the model (fmt_iso, fmt_compact) but only iso8601_utc is driven (LogEvent.time is private, LogFile::create uses now())",
]
LEVEL = "proof"
EXHAUSTIVE = {"quick": False, "thorough": True}

SODS = [0, 1, 59, 60, 3599, 3600, 86399]
DAY = 86400
END_9999 = 253402300800
LAST_DAY = 2932896  # 9999-12-31


def days_from_civil(y, m, d):
    y -= m <= 2
    era = y // 400
    yoe = y - era * 400
    doy = (153 * (m + (-3 if m > 2 else 9)) + 2) // 5 + d - 1
    doe = yoe * 365 + yoe // 4 - yoe // 100 + doy
    return era * 146097 + doe - 719468


def civil_from_days(z):
    z += 719468
    era = z // 146097
    doe = z - era * 146097
    yoe = (doe - doe // 1460 + doe // 36524 - doe // 146096) // 365
    y = yoe + era * 400
    doy = doe - (365 * yoe + yoe // 4 - yoe // 100)
    mp = (5 * doy + 2) // 153
    d = doy - (153 * mp + 2) // 5 + 1
    m = mp + (3 if mp < 10 else -9)
    return (y + (m <= 2), m, d)


def is_leap(y):
    return (y % 4 == 0 and y % 100 != 0) or y % 400 == 0


def new_case(s, hint=True):
    if not hint:
        return "new %d" % s
    y, m, d = civil_from_days(s // DAY)
    return "new %d %d %d %d" % (s, y, m, d)


def day_case(k):
    y, m, d = civil_from_days(k)
    return "day %d %d %d %d" % (k, y, m, d)


def walk_case(k, n):
    y, m, d = civil_from_days(k)
    return "walk %d %d %d %d %d" % (k, y, m, d, n)


def secs_case(s, n):
    y, m, d = civil_from_days(s // DAY)
    return "secs %d %d %d %d %d" % (s, n, y, m, d)


def add_case(y, m, d, h, mi, s, secs):
    return "add %d %d %d %d %d %d %d" % (y, m, d, h, mi, s, secs)


DURS = [0, 1, DAY, 365 * DAY, 366 * DAY, 367 * DAY, 1461 * DAY, 36524 * DAY, 146097 * DAY]


def rand_dur(rng):
    r = rng.random()
    if r < 0.3:
        return rng.randint(0, 400 * DAY)
    if r < 0.6:
        return rng.randint(0, 2000) * DAY + rng.choice([0, 1, 59, 60, 3599, 3600, 86399, rng.randint(0, 86399)])
    if r < 0.9:
        return rng.randint(0, 150000 * DAY)
    return rng.randint(0, 600000 * DAY)


def rand_valid_start(rng):
    y = rng.choice([rng.randint(1970, 2405), rng.randint(1970, 9999), rng.randint(1, 1969), rng.choice([1972, 2000, 2100, 2400, 9996, 1900, 1600])])
    m = rng.randint(1, 12)
    ml = [31, 29 if is_leap(y) else 28, 31, 30, 31, 30, 31, 31, 30, 31, 30, 31][m - 1]
    d = rng.choice([1, ml, rng.randint(1, ml)])
    return (y, m, d, rng.choice([0, 23, rng.randint(0, 23)]), rng.choice([0, 59, rng.randint(0, 59)]), rng.choice([0, 59, rng.randint(0, 59)]))


def boundary_days():
    ks = set()
    for y in [1970, 1972, 1999, 2000, 2001, 2099, 2100, 2101, 2399, 2400, 2401, 9996, 9999]:
        for (m, d) in [(1, 1), (2, 28), (2, 29), (3, 1), (12, 31), (1, 31), (2, 1)]:
            if (m, d) == (2, 29) and not is_leap(y):
                continue
            ks.add(days_from_civil(y, m, d))
    ks.add(LAST_DAY)
    ks.add(0)
    return sorted(ks)


def gen(rng, tier):
    thorough = tier == "thorough"
    cases = []
    # 1. Appendix A boundaries
    for k in boundary_days():
        cases.append(day_case(k))
    cases.append(new_case(END_9999 - 1))
    cases.append(new_case(END_9999))          # year 10000: outside the format theorem, inside new_correct
    cases.append(new_case(0))
    for s in [59, 60, 61, 3599, 3600, 86399, 86400, 86401]:
        cases.append(new_case(s))
    # 2. every 1st of month 1970..9999 x seven seconds-of-day
    for y in range(1970, 10000):
        for m in range(1, 13):
            cases.append("day %d %d %d 1" % (days_from_civil(y, m, 1), y, m))
    # 2b. year ends and leap-day neighbourhoods of EVERY year, and short exhaustive walks around every multiple of the
    #     4-, 100- and 400-year cycle lengths counted from the epoch (where a cycle-skipping fast path would go wrong)
    for y in range(1970, 10000):
        cases.append(day_case(days_from_civil(y, 12, 31)))
        cases.append(day_case(days_from_civil(y, 3, 1)))
        if y % 4 == 0:
            cases.append(day_case(days_from_civil(y, 2, 28)))
            cases.append(day_case(days_from_civil(y, 2, 29) if is_leap(y) else days_from_civil(y, 3, 1) - 1))
    for (cyc, win) in ((146097, 4), (36524, 3), (36525, 3), (1461, 2), (365, 0), (366, 0)):
        k = cyc
        while k - win <= LAST_DAY:
            lo = max(0, k - win - 1)
            if win == 0:
                cases.append(day_case(min(k, LAST_DAY)))
                cases.append(day_case(lo))
            else:
                cases.append(walk_case(lo, min(2 * win + 2, LAST_DAY + 1 - lo)))
            k += cyc
    # 2c. the `time` member of jsonl log lines: sequences of events rendered in the order given on one thread --
    #     increasing, decreasing, around midnight / leap days / year ends in both directions, shuffled
    def lt(s):
        s = min(max(s, 0), END_9999 - 1)          # the property's range: the epoch through year 9999
        y, m, d = civil_from_days(s // DAY)
        return "%d:%d:%d:%d" % (s, y, m, d)
    mids = [days_from_civil(y, m, d) * DAY for (y, m, d) in [(2024, 2, 29), (2024, 3, 1), (2023, 12, 31), (2024, 1, 1), (2100, 3, 1), (1970, 1, 2), (9999, 12, 31)]]
    for t0 in mids:
        cases.append("logt " + " ".join(lt(x) for x in (t0 + 5, t0 - 2, t0 - 1, t0, t0 + 86399, t0 - 86400, t0 + 86400)))
        cases.append("logt " + " ".join(lt(x) for x in (t0 - 2, t0 - 1, t0, t0 + 1)))
    for _ in range(300 if not thorough else 20000):
        k = rng.randint(1, 8)
        base = rng.randrange(2 * DAY, END_9999 - 3 * DAY)
        xs = [base + rng.choice([0, 1, -1, DAY, -DAY, rng.randint(-2 * DAY, 2 * DAY), (base // DAY) * DAY - base, (base // DAY + 1) * DAY - base - 1])
              for _ in range(k)]
        cases.append("logt " + " ".join(lt(x) for x in xs))
    # 3. random instants
    n_rand = 1000000 if thorough else 50000
    for i in range(n_rand):
        r = rng.random()
        if r < 0.80:
            s = rng.randrange(0, END_9999)
        elif r < 0.90:
            s = rng.randrange(0, 2 ** 32)
        elif r < 0.97:
            k = rng.randrange(0, LAST_DAY + 1)
            s = k * DAY + rng.choice(SODS)
        else:
            s = rng.randrange(END_9999, 40 * END_9999 // 10)   # five-digit years (new_correct only)
        cases.append(new_case(s))
    for i in range(3000 if thorough else 300):
        cases.append(new_case(rng.randrange(0, END_9999), hint=False))   # fuelled model loops
    # 4. additions from every month start 1970..2405 x the quantifier's durations
    reps = 4 if thorough else 1
    for y in range(1970, 2406):
        for m in range(1, 13):
            for secs in DURS:
                cases.append(add_case(y, m, 1, 0, 0, 0, secs))
            for _ in range(reps):
                cases.append(add_case(y, m, 1, 0, 0, 0, rand_dur(rng)))
    # Appendix A: starts in Jan-Feb vs Mar-Dec (also at month ends) crossing 0, 1, 4, 100, 400 years
    for y in [1970, 1971, 1972, 1999, 2000, 2023, 2096, 2100, 2399, 2400, 9000]:
        for (m, d) in [(1, 1), (1, 31), (2, 28), (2, 29), (3, 1), (3, 31), (6, 30), (12, 31)]:
            if (m, d) == (2, 29) and not is_leap(y):
                continue
            for secs in DURS + [364 * DAY, 400 * DAY, 730 * DAY, 731 * DAY, 1460 * DAY, 36525 * DAY, 146096 * DAY, 146098 * DAY]:
                cases.append(add_case(y, m, d, 23, 59, 59, secs))
                cases.append(add_case(y, m, d, 0, 0, 0, secs))
    for _ in range(200000 if thorough else 8000):
        cases.append(add_case(*rand_valid_start(rng), rand_dur(rng)))
    # 5. malformed stream: invalid broken-down times and durations the code refuses
    bad_starts = [(2023, 13, 1, 0, 0, 0), (2023, 0, 1, 0, 0, 0), (2023, 2, 30, 0, 0, 0), (2023, 1, 32, 0, 0, 0),
                  (2023, 1, 0, 0, 0, 0), (2023, 1, 1, 24, 0, 0), (2023, 1, 1, 0, 60, 0), (2023, 1, 1, 0, 0, 60),
                  (2023, 1, 1, -1, 0, 0), (2023, 1, 1, 0, 0, -5), (2023, 24, 400, 30, 70, 70), (-400, 3, 1, 0, 0, 0),
                  (0, 1, 1, 0, 0, 0), (2023, -1, 1, 0, 0, 0), (2023, 12, 999, 0, 0, 0), (2023, 25, 1, 0, 0, 0)]
    for st in bad_starts:
        for secs in [0, 1, DAY, 366 * DAY, rand_dur(rng)]:
            cases.append(add_case(*st, secs))
    for st in [(1970, 1, 1, 0, 0, 0), (2023, 3, 1, 0, 0, 0)]:
        for secs in [2 ** 63, 2 ** 63 + 1, 2 ** 64 - 1]:
            cases.append(add_case(*st, secs))
    # 6. thorough: the exhaustive walk and every second of selected days
    if thorough:
        step = 500
        for k in range(0, LAST_DAY + 1, step):
            cases.append(walk_case(k, min(step, LAST_DAY + 1 - k)))
        sel = []
        for y in [1972, 2000, 2100, 2400]:
            for (m, d) in [(2, 28), (2, 29), (3, 1)]:
                if (m, d) == (2, 29) and not is_leap(y):
                    continue
                sel.append(days_from_civil(y, m, d))
        for (y, m, d) in [(1970, 1, 1), (1999, 12, 31), (2000, 1, 1), (2099, 12, 31), (2100, 1, 1), (2399, 12, 31),
                          (2400, 1, 1), (2400, 12, 31), (9999, 12, 30), (9999, 12, 31), (2023, 3, 1)]:
            sel.append(days_from_civil(y, m, d))
        for k in sel:
            for off in range(0, DAY, 3600):
                cases.append(secs_case(k * DAY + off, 3600))
    # two threads converting instants of different days at the same time (a cache shared between threads must not mix them)
    for (a, b) in ((1700000000, 1700000000 + 86400 * 40), (0, 253402300799 - 7), (951782400, 4107542400)):
        cases.append("par %d %d %d" % (a, b, 20000 if tier == "quick" else 300000))
    return cases


def _dur_class(secs):
    d = secs // DAY
    for lim, name in [(0, "0d"), (1, "<=1d"), (366, "<=1y"), (1461, "<=4y"), (36525, "<=100y"), (146097, "<=400y")]:
        if d <= lim:
            return name
    return ">400y"


def classify(case, model):
    t = case.split()
    if t[0] == "logt":
        xs = [int(x.split(":")[0]) for x in t[1:]]
        return "logt:%s" % ("increasing" if xs == sorted(xs) else "out-of-order")
    if t[0] == "new":
        s = int(t[1])
        return "new:%s:%s" % ("hinted" if len(t) > 2 else "fuelled", "y>9999" if s >= END_9999 else "y<=9999")
    if t[0] == "add":
        m = model.split()
        if m and m[0] != "dt":
            return "add:" + m[0]
        secs = int(t[7])
        if secs > 2 ** 63 - 1:
            return "add:huge"
        return "add:%s:%s" % ("jan-feb" if int(t[2]) <= 2 else "mar-dec", _dur_class(secs))
    return t[0]


def nontrivial(case, model):
    t = case.split()
    if t[0] == "new":
        return int(t[1]) >= DAY
    if t[0] in ("day", "walk"):
        return int(t[1]) >= 1
    if t[0] == "secs":
        return int(t[1]) >= DAY
    if t[0] == "add":
        return int(t[7]) > 0 and model.startswith("dt")
    if t[0] == "logt":
        return len(t) > 2        # at least two events rendered one after the other
    return False


def extra_evidence(results):
    inst = 0
    for r in results:
        t = r[1].split()
        if t[0] == "new":
            inst += 1
        elif t[0] == "day":
            inst += 7
        elif t[0] == "walk":
            inst += 7 * int(t[5])
        elif t[0] == "secs":
            inst += int(t[2])
    walked = sum(int(r[1].split()[5]) for r in results if r[1].startswith("walk "))
    return dict(instants_evaluated=inst, days_walked_exhaustively=walked,
                exhaustive_domain="every day 1970-01-01..9999-12-31 x 7 seconds-of-day" if walked >= LAST_DAY + 1 else None)


def shrink(case):
    t = case.split()
    if t[0] == "walk":
        k, n = int(t[1]), int(t[5])
        if n > 1:
            h = n // 2
            yield walk_case(k, h)
            yield walk_case(k + h, n - h)
        else:
            yield day_case(k)
    elif t[0] == "secs":
        s, n = int(t[1]), int(t[2])
        if n > 1:
            h = n // 2
            yield secs_case(s, h)
            yield secs_case(s + h, n - h)
        else:
            yield new_case(s)
    elif t[0] == "day":
        k = int(t[1])
        for sod in SODS:
            yield new_case(k * DAY + sod)
    elif t[0] == "new":
        s = int(t[1])
        hint = len(t) > 2
        for c in [s - s % DAY, s // 2, s - 146097 * DAY, s - 36524 * DAY, s - 1461 * DAY, s - 365 * DAY, s - 31 * DAY, s - DAY]:
            if 0 <= c < s:
                yield new_case(c, hint)
    elif t[0] == "add":
        y, m, d, h, mi, s, secs = [int(x) for x in t[1:8]]
        if (h, mi, s) != (0, 0, 0):
            yield add_case(y, m, d, 0, 0, 0, secs)
        if secs % DAY:
            yield add_case(y, m, d, h, mi, s, secs - secs % DAY)
        for c in [secs // 2 // DAY * DAY, secs - 146097 * DAY, secs - 36524 * DAY, secs - 1461 * DAY, secs - 365 * DAY, secs - DAY]:
            if 0 <= c < secs:
                yield add_case(y, m, d, h, mi, s, c)
        if d != 1:
            yield add_case(y, m, 1, h, mi, s, secs)
        for dy in [400, 100, 4, 1]:
            if y - dy >= 1970:
                yield add_case(y - dy, m, d if (m, d) != (2, 29) else 28, h, mi, s, secs)
        if m > 3:
            yield add_case(y, 3, 1, h, mi, s, secs)


def neighbours(case, rng):
    t = case.split()
    out = []
    if t[0] == "add":
        y, m, d, h, mi, s, secs = [int(x) for x in t[1:8]]
        for mm in range(1, 13):
            for sec2 in DURS + [secs]:
                out.append(add_case(y, mm, 1, 0, 0, 0, sec2))
    elif t[0] in ("new", "day", "walk", "secs"):
        k = int(t[1]) // (DAY if t[0] in ("new", "secs") else 1)
        for dk in range(-370, 371):
            if 0 <= k + dk:
                out.append(day_case(k + dk))
    return out
