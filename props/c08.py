"""C08 -- a failed response write never corrupts the connection: case generator and evidence rules.

cases
  ser <close 0|1> <code> <ctype> H<k> <name> <value>.. <body> w:<wops> <budget|-> <flush_ok 0|1> <pend>
        write_http_response into a fault-injecting scripted writer (error at the i-th poll_write, Ok(0),
        failure after <budget> accepted bytes, failing flush)
        obs: <ok|HttpError variant> <accepted bytes> rp= ct=
  conn <code> <ctype> H<k> .. <body>
        HttpConn::write_response over a loop-back TCP pair with write_state = Response, then the error path of
        handle_http_conn; obs: <res1> <state1> <res2|-> <state2> <client transcript until EOF> rp= ct= c5= rp5= ct5= b5=
  sess <k> <response> x k <response>
        the same on a connection that has ALREADY carried k successful non-closing responses (complete 2xx answers of
        earlier requests on a kept-alive connection and/or the 100-continue of the current exchange); obs as conn
        plus pr<i>= pc<i>= pres<i>= for the earlier responses
  (response / body token syntax: see props/c06.py and harness/src/respcase.rs)
"""
import c06 as _c06

RULE = ("corpus first; serializer level: for a family of responses covering every body variant (static, str, vec, file, "
        "temp file, event stream; known and unknown length; 0, small, >65536 bytes) a write failure after EVERY byte offset "
        "0..len+1 (small members) or around the head end / chunk boundaries / total-1 (large members), an error or Ok(0) at "
        "every poll_write index after every short write, a failing flush; body files shorter than declared by "
        "{all, len-1, half, 1} bytes, missing, unreadable (a directory); connection level over loop-back: the same body-source "
        "faults plus refused / non-Normal / 1xx / 5xx responses, transcript read until EOF; the same after a prefix of 0, 1 or 2 earlier complete 2xx responses and/or a 100-continue on the same connection (so that no-byte-sent is judged per call, not per connection). Non-trivial = the write fails or is refused.")
ASSUMPTIONS = _c06.ASSUMPTIONS + [
    "bytes accepted by the socket = bytes counted by AsyncWriteCounter (kernel buffering between accept and delivery is not modelled; the property is stated on accepted bytes)",
    "a file deleted between head and body is the same code path as a file missing at open time: async_reader() opens the file only after the head was written",
    "TcpStream::shutdown(Write) stops all further output (connection level: the client reads EOF)",
    "the 500 answer of the error path (HttpError -> Response) is a Normal 500 response without colliding fields; its text is dumped by the harness (b5=) and not compared",
]
EXHAUSTIVE = {"quick": False, "thorough": False}

tok = _c06.tok


def ser(close, code, ctype, headers, body, w=(), budget=None, flush_ok=1, pend=0):
    h = " ".join("%s %s" % (tok(n), tok(v)) for n, v in headers)
    return "ser %d %d %s H%d %s%s w:%s %s %d %d" % (close, code, ctype, len(headers), h + " " if headers else "", body,
                                                    ",".join(str(x) for x in w), "-" if budget is None else str(budget), flush_ok, pend)


def conn(code, ctype, headers, body):
    h = " ".join("%s %s" % (tok(n), tok(v)) for n, v in headers)
    return "conn %d %s H%d %s%s" % (code, ctype, len(headers), h + " " if headers else "", body)


def _resp_toks(code, ctype, headers, body):
    h = " ".join("%s %s" % (tok(n), tok(v)) for n, v in headers)
    return "%d %s H%d %s%s" % (code, ctype, len(headers), h + " " if headers else "", body)


def sess(pre, code, ctype, headers, body):
    return "sess %d %s%s" % (len(pre), "".join(_resp_toks(*p) + " " for p in pre), _resp_toks(code, ctype, headers, body))


EARLIER_2XX = [
    (200, "none", [], "vec:x6869"),
    (201, "v13", [("x-a", "b")], "str:x63726561746564"),
    (204, "none", [], "static:x"),
    (200, "v2", [], "es:6162,6364"),
    (200, "v11", [], "file:5:x3031323334"),
]
CONTINUE_100 = (100, "none", [], "static:x")
FAULTY = [
    # refused with zero bytes
    (200, "none", [("content-length", "5")], "vec:x6162"),
    (200, "none", [("Transfer-Encoding", "chunked")], "vec:x6162"),
    (200, "v13", [("content-type", "a/b"), ("Content-Type", "c/d")], "vec:x6162"),
    (200, "v2", [("content-length", "5")], "es:6162"),
    (200, "none", [], "drop"),
    (200, "none", [], "getbody"),
    # fails after the head / part of the body
    (200, "none", [], "filemissing:5"),
    (200, "v11", [], "file:10:x3031323334"),
    (200, "none", [], "filedir:5"),
    (200, "none", [], "tmpmissing:3"),
    (200, "v2", [], "es:6162,B65522,6364"),
    (200, "v2", [], "es:B65521,B65522"),
    # succeeds
    (200, "none", [], "vec:x6f6b"),
    (503, "v13", [], "str:x627573"),
    (200, "none", [], "filemissing:0"),
]


SMALL_FAMILY = [
    (0, 200, "none", [], "vec:x68656c6c6f"),
    (1, 404, "v13", [("x-a", "b1")], "str:x6e6f7420666f756e64"),
    (0, 200, "none", [], "static:x"),
    (0, 200, "v11", [], "file:10:x30313233343536373839"),
    (0, 200, "v11", [], "tmp:10:x30313233343536373839"),
    (0, 200, "v2", [], "es:6162,e,636465"),
    (1, 200, "v2", [("cache-control", "no-store")], "es:"),
    (0, 200, "v2", [], "es:6162,B65522,6364"),           # the event source fails in mid-stream (oversize event)
    (0, 200, "v2", [], "es:B70000"),                     # ... before the first chunk
    (0, 200, "none", [], "file:10:x3031323334"),          # short file
    (0, 200, "none", [], "file:3:x30313233343536373839"),  # long file
    (0, 200, "none", [], "filemissing:7"),
    (0, 200, "none", [], "filedir:7"),
    (1, 500, "v13", [], "str:x496e7465726e616c"),
]
LARGE_FAMILY = [
    (0, 200, "v11", [], "vec:g3_70000", 70000),
    (0, 200, "v11", [], "file:70000:g4_70000", 70000),
    (0, 200, "v11", [], "tmp:70000:g4_69999", 69999),
    (0, 200, "v11", [], "static:g5_131073", 131073),
    (0, 200, "v2", [], "es:" + ",".join(["61" * 40] * 30), 30 * 54),
]


def gen(rng, tier):
    quick = tier != "thorough"
    cases = []
    # ---- serializer level: every byte offset for the small family
    for (close, code, ct, hs, body) in SMALL_FAMILY:
        for off in range(0, 200):
            for w in ([], [1] * 60, [3, 1, 4, 1, 5, 9, 2, 6]) if (quick and off % 3 == 0) or not quick else ([],):
                if body.split(":")[0] in ("file", "tmp") and len(w) > 8:
                    w = [1] * 8          # read sizes of real files are not scripted: keep call-indexed entries inside the head
                cases.append(ser(close, code, ct, hs, body, w=w, budget=off, pend=rng.choice([0, 2])))
        # an error / Ok(0) at the i-th poll_write, after short writes (in-memory sources: deterministic call sequence)
        inmem = body.split(":")[0] in ("vec", "str", "static", "es", "filemissing", "filedir")
        lim = 40 if inmem else 8
        for i in range(0, lim):
            ks = [rng.choice([1, 2, 3, 5, 8]) for _ in range(i)] if inmem else [1] * i
            cases.append(ser(close, code, ct, hs, body, w=ks + ["f"]))
            cases.append(ser(close, code, ct, hs, body, w=ks + [0]))
        cases.append(ser(close, code, ct, hs, body, flush_ok=0))
        cases.append(ser(close, code, ct, hs, body))
    # ---- large members: around the head end, block / chunk boundaries, total-1
    for (close, code, ct, hs, body, n) in LARGE_FAMILY:
        offs = list(range(60, 130)) if not quick else list(range(60, 130, 3))
        offs += [65536 + d for d in (-1, 0, 1, 60, 100, 101, 102, 103)] + [n + d for d in range(60, 120, 7)] + [n // 2, n + 400]
        if body.startswith("es:"):
            offs = list(range(0, n + 200, 3 if quick else 1))
        for off in offs:
            cases.append(ser(close, code, ct, hs, body, w=rng.choice([[], [65536], [7, 100000]]) if not body.startswith(("file", "tmp")) else [], budget=off, pend=rng.choice([0, 2])))
        cases.append(ser(close, code, ct, hs, body, flush_ok=0))
    # ---- a body file that is cut short IN FLIGHT (after the first byte of the head went out): whatever was checked
    # before the head, the outcome is that of a short file -- an error, never Ok with a short body
    for (n, keep) in ((10, 0), (10, 4), (10, 9), (1, 0), (70000, 65536), (70000, 69999), (200000, 1)):
        for close in (0, 1):
            cases.append(ser(close, 200, "v11", [], "fileshrink:%d:g9_%d:%d" % (n, n, keep)))
        cases.append(ser(0, 200, "none", [("x-a", "b")], "fileshrink:%d:g9_%d:%d" % (n, n + 5, keep), budget=rng.choice([None, n + 200])))
    # ---- a slow client is not a failed write (thorough tier: 11 s): 32 MiB to a client that stops reading for a while
    if not quick:
        cases.append("stall 32 11")
    cases.append("stall 8 1")
    # ---- random responses with random faults
    nrand = 600 if quick else 20000
    for _ in range(nrand):
        code = rng.choice([200, 200, 404, 500, 503, 100, rng.randint(100, 999)])
        hs = [(_c06.rand_name(rng), _c06.rand_value(rng)) for _ in range(rng.choice([0, 0, 1, 3]))]
        if rng.random() < 0.05:
            hs.append((_c06.casemix(rng, rng.choice(_c06.NAMES3)), "1"))
        body = _c06.rand_body(rng)
        infile = body.split(":")[0] in ("file", "tmp")
        r = rng.random()
        if r < 0.6:
            w, budget = ([] if infile else _c06.rand_w(rng)[:30]), rng.choice([0, 1, rng.randint(0, 120), rng.randint(0, 400)])
        elif r < 0.8 and not infile:
            w, budget = [rng.choice([1, 2, 5, 50, 70000]) for _ in range(rng.randint(0, 12))] + [rng.choice(["f", 0])], None
        else:
            w, budget = [], None
        cases.append(ser(rng.randint(0, 1), code, _c06.rand_ctype(rng), hs, body, w=w, budget=budget,
                         flush_ok=rng.choice([1, 1, 1, 0]), pend=rng.choice([0, 2])))
    # ---- connection level over loop-back
    L = 10
    data = "x30313233343536373839"
    for kind in ("file", "tmp"):
        for have in (0, 1, L // 2, L - 1, L, L + 5):
            cases.append(conn(200, "v11", [("x-a", "b")], "%s:%d:x%s" % (kind, L, data[1:1 + 2 * have] if have <= L else data[1:] + "6162636465")))
        for n in (70000, 200000):
            for have in (0, 1, n // 2, n - 1, n):
                cases.append(conn(200, "v11", [], "%s:%d:g7_%d" % (kind, n, have)))
    for b in ("filemissing:10", "filemissing:0", "tmpmissing:10", "filedir:10", "filedir:0", "drop", "getbody",
              "vec:x6162", "vec:g1_70000", "static:x", "es:6162,6364", "es:",
              "es:6162,B65522,6364", "es:B65522", "es:B65521,e,B70000,61"):
        for code in (200, 404, 500, 100):
            cases.append(conn(code, rng.choice(["none", "v13", "v2"]), [], b))
    for name in _c06.NAMES3:
        for body in ("vec:x6162", "es:6162", "file:2:x6162"):
            cases.append(conn(200, "v13", [(name, "1")], body))
            cases.append(conn(200, "v13", [(name, "1"), (name.upper(), "2")], body))
    # ---- the same faults while the READ side is not at a request boundary (a body is unread / the read side is shut
    #      down after an unknown-length body): what a failed write does to the write side must not depend on it
    for kind in ("connB", "connS"):
        for f in FAULTY:
            cases.append(kind + conn(*f)[4:])
    # ---- connection level with earlier traffic on the same connection
    for k in (0, 1, 2):
        pres = [[]] if k == 0 else ([[p] for p in EARLIER_2XX] if k == 1 else
                                    [[EARLIER_2XX[i], EARLIER_2XX[j]] for i in range(len(EARLIER_2XX)) for j in range(len(EARLIER_2XX)) if (i + j) % 2 == 0 or not quick])
        for pre in pres:
            for with100 in (False, True):
                full = pre + ([CONTINUE_100] if with100 else [])
                if not full:
                    continue
                for f in FAULTY:
                    if quick and k == 2 and rng.random() < 0.5:
                        continue
                    cases.append(sess(full, *f))
    for _ in range(80 if quick else 2500):
        pre = [rng.choice(EARLIER_2XX) for _ in range(rng.randint(0, 2))] + ([CONTINUE_100] if rng.random() < 0.4 else [])
        if not pre:
            pre = [rng.choice(EARLIER_2XX)]
        hs = [(_c06.rand_name(rng), _c06.rand_value(rng)) for _ in range(rng.choice([0, 1]))]
        if rng.random() < 0.4:
            hs.append((_c06.casemix(rng, rng.choice(_c06.NAMES3)), "1"))
        cases.append(sess(pre, rng.choice([200, 404, 500]), rng.choice(["none", "v13", "v2"]), hs, _c06.rand_body(rng)))
    for _ in range(150 if quick else 3000):
        code = rng.choice([200, 201, 404, 500, 599, 100, 199])
        hs = [(_c06.rand_name(rng), _c06.rand_value(rng)) for _ in range(rng.choice([0, 1, 2]))]
        if rng.random() < 0.08:
            hs.append((_c06.casemix(rng, rng.choice(_c06.NAMES3)), "1"))
        cases.append(conn(code, _c06.rand_ctype(rng), hs, _c06.rand_body(rng)))
    return cases


def _resp_len(t, at):
    """number of tokens of the response starting at t[at]"""
    k = int(t[at + 2][1:])
    return 4 + 2 * k


def _parse(c):
    t = c.split()
    kind = t[0]
    base = 2 if kind == "ser" else 1
    if kind == "sess":
        base = 2
        for _ in range(int(t[1])):
            base += _resp_len(t, base)
    k = int(t[base + 2][1:])
    body = t[base + 3 + 2 * k]
    rest = t[base + 4 + 2 * k:]
    return kind, t, base, k, body, rest


def classify(c, model):
    if c.startswith("stall"):
        return "stall:slow-client"
    kind, t, base, k, body, rest = _parse(c)
    bk = body.split(":")[0]
    m = model.split()
    if kind == "ser":
        f = []
        if rest[1] != "-": f.append("budget")
        if "f" in rest[0][2:].split(","): f.append("wfail")
        if "0" in rest[0][2:].split(","): f.append("w0")
        if rest[2] == "0": f.append("flushfail")
        return "ser:%s:%s:%s" % (bk, m[0] if m else "?", "+".join(f) or "nofault")
    tag = kind if kind.startswith("conn") else "sess%s" % t[1]
    return "%s:%s:%s/%s/%s" % (tag, bk, m[0] if m else "?", m[1] if len(m) > 1 else "?", m[2] if len(m) > 2 else "?")


def nontrivial(c, model):
    return not model.startswith("ok")


def extra_evidence(results):
    offs = set()
    kinds = {}
    for r in results:
        if r[1].startswith("stall"):
            continue
        kind, t, base, k, body, rest = _parse(r[1])
        if kind == "ser" and rest[1] != "-":
            offs.add(int(rest[1]))
        kk = kind + ":" + body.split(":")[0]
        kinds[kk] = kinds.get(kk, 0) + 1
    zero_after_traffic = sum(1 for r in results if r[1].startswith("sess ") and " Response ok " in " " + r[3] + " ")
    return dict(boundary_hits=dict(distinct_failure_offsets=len(offs), offsets_0_1=[o for o in (0, 1) if o in offs], cases_by_level_and_body=kinds,
                                   zero_byte_refusal_after_earlier_traffic_then_500=zero_after_traffic))


def shrink(c):
    if c.startswith("stall"):
        return
    kind, t, base, k, body, rest = _parse(c)
    def mk(t2):
        return " ".join(t2)
    if kind == "sess":
        n = int(t[1])
        at = 2
        spans = []
        for _ in range(n):
            ln = _resp_len(t, at)
            spans.append((at, at + ln))
            at += ln
        for (a, b) in spans:          # drop one earlier response
            yield mk(["sess", str(n - 1)] + t[2:a] + t[b:])
        for (a, b) in spans:          # replace an earlier response by the smallest one
            small = "200 none H0 vec:x61".split()
            if t[a:b] != small:
                yield mk(t[:a] + small + t[b:])
    # drop headers
    for i in range(k):
        t2 = t[:base + 2] + ["H%d" % (k - 1)] + t[base + 3:base + 3 + 2 * i] + t[base + 5 + 2 * i:]
        yield mk(t2)
    if kind == "ser":
        n = len(t)
        if t[n - 1] != "0":
            yield mk(t[:n - 1] + ["0"])
        if t[n - 4] != "w:":
            yield mk(t[:n - 4] + ["w:"] + t[n - 3:])
        if t[n - 3] != "-":
            b = int(t[n - 3])
            for nb in (0, 1, b // 2, b - 1):
                if 0 <= nb < b:
                    yield mk(t[:n - 3] + [str(nb)] + t[n - 2:])
        if t[1] == "1":
            yield mk([t[0], "0"] + t[2:])
    if t[base + 1] != "none":
        yield mk(t[:base + 1] + ["none"] + t[base + 2:])
    bi = base + 3 + 2 * k
    for b in ("vec:x61", "file:2:x61", "filemissing:2", "es:61"):
        if body != b:
            yield mk(t[:bi] + [b] + t[bi + 1:])


def neighbours(c, rng):
    if c.startswith("stall"):
        return
    kind, t, base, k, body, rest = _parse(c)
    out = []
    if kind in ("conn", "sess"):
        cur = " ".join(t[base:])
        for pre in ([EARLIER_2XX[0]], [CONTINUE_100], [EARLIER_2XX[0], EARLIER_2XX[1]], [EARLIER_2XX[3], CONTINUE_100]):
            out.append("sess %d %s%s" % (len(pre), "".join(_resp_toks(*p) + " " for p in pre), cur))
            for f in FAULTY:
                out.append(sess(pre, *f))
    if kind == "ser":
        n = len(t)
        for b in list(range(0, 160, 1)):
            out.append(" ".join(t[:n - 3] + [str(b)] + t[n - 2:]))
    else:
        for b in ("filemissing:5", "file:5:x6162", "file:5:x", "filedir:5", "vec:x6162", "es:6162"):
            bi = base + 3 + 2 * k
            out.append(" ".join(t[:bi] + [b] + t[bi + 1:]))
    return out
