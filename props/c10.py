"""C10 -- upload temp files never outlive their request: uploads cut by client end-of-stream at
every offset class x handler outcome x cache dir kind, through handle_http_conn (mode D) and a full
server (mode S); after each scenario the cache directory must be empty (harness and driver shared
with C04)."""
RULE = ("uploads of known and unknown length (L in {1, S+1, 65536, 65537, 70000}) cut by client end-of-stream at offset classes "
        "{0, 1, mid-buffer, 65535, 65536, len-1, len} x handler outcome after receipt {200, 5xx, drop, fetch-again, panic (mode S)} x "
        "cache dir {ok, missing, not configured} x a following pipelined request; the observation includes the number of files left "
        "in the cache directory after the connection ended (must be 0). Non-trivial = the handler asked for the body; distinct by case text.")
ASSUMPTIONS = ["LEVEL partial: the drop points of the temp file were transcribed into the model by hand; that Rust runs them is observed "
               "(directory listing after the connection / server ended), not proved",
               "a client that stalls and disconnects is represented by end-of-stream at the cut offset"]
MARKED = True
PREAMBLE = ["tables"]
HARNESS_BIN = "c04"
DRIVER_PID = "C04"
EXHAUSTIVE = {"quick": False, "thorough": False}

def hx(s):
    return "x" + s.encode("latin1").hex()

def upload(path, L, cut, declared, expect, seed, tail):
    head = "POST %s HTTP/1.1\r\n" % path
    if expect:
        head += "Expect: 100-continue\r\n"
    if declared:
        head += "Content-Length: %d\r\n" % L
    head += "\r\n"
    parts = [hx(head)]
    if cut > 0:
        parts.append("g%d,%d" % (cut, seed))   # only the first `cut` bytes of the body are delivered
    if tail and cut == L and declared:
        parts.append(hx("GET /n200 HTTP/1.1\r\n\r\n"))
    return "+".join(parts)

def gen(rng, tier):
    cases = ["tables"]
    S = 4
    lens = [1, S + 1, 65536, 65537, 70000]
    n = 0
    for L in lens:
        cuts = sorted(set(c for c in (0, 1, L // 2, 65535, 65536, L - 1, L) if 0 <= c <= L))
        for cut in cuts:
            for path in ("/g%d" % (L + 5), "/g5%d" % (L + 5), "/gd%d" % (L + 5), "/gg%d" % (L + 5), "/g%d" % max(L - 1, 0), "/r%d" % (L + 5)):
                for declared in (True, False):
                    for cache in ("ok", "missing", "-"):
                        if tier == "quick" and L > 1000 and rng.random() < 0.8:
                            continue
                        expect = rng.random() < 0.2
                        cases.append("D %d %s %s" % (S, cache, upload(path, L, cut, declared, expect, rng.randint(1, 10**6), rng.random() < 0.5)))
    # full server (blocking pool, panics): temp files must be gone after the server stopped
    ns = 25 if tier == "quick" else 600
    for _ in range(ns):
        L = rng.choice([5, 100, 70000])
        cut = rng.choice([0, 1, L // 2, L - 1, L, L])
        path = rng.choice(["/g%d" % (L + 5), "/g5%d" % (L + 5), "/gd%d" % (L + 5), "/g%d" % (L - 1)])
        sc = upload(path, L, cut, True, False, rng.randint(1, 10**6), False)
        if rng.random() < 0.3:
            sc = "+".join([hx("GET /n200 HTTP/1.1\r\n\r\n"), sc])
        cases.append("S %d ok %s %d %s" % (S, rng.choice(["0", "4096,1000,30000"]), 0, sc))
    # disk write failure while the upload is being saved (mode X: RLIMIT_FSIZE below the body length, SIGXFSZ ignored, so
    # the write fails with EFBIG like on a full disk -- at the first block, in the middle, at the very last byte): the
    # handler must not get a shortened body, the answer is the 500 of ErrorSavingFile, no file stays behind
    for L in (200, 7000, 70000, 131073):
        for lim in sorted(set([0, 1, 100, 4096, 65536, L - 1])):
            if lim >= L:
                continue
            for declared in (True, False):
                if tier == "quick" and L > 7000 and lim not in (4096, L - 1):
                    continue
                cases.append("X %d ok %d %s" % (S, lim, upload("/g%d" % (L + 5), L, L, declared, False, rng.randint(1, 10**6), declared)))
    # the blocking pool (one thread) is kept busy by another request while an upload is abandoned mid-body / refused:
    # the temp file must be gone when the upload's connection has ended, whatever the pool is doing
    nb = 3 if tier == "quick" else 40
    for j in range(nb):
        L = [70000, 200000, 65537, 100][j % 4]
        cut = [L // 2, 1, L - 1, 50][j % 4]
        declared = j % 3 != 2
        path = ["/g%d" % (L + 5), "/g%d" % (L + 5), "/g%d" % max(L - 1, 0)][j % 3]
        cases.append("B %d ok %d %s" % (S, 1200, upload(path, L, cut, declared, False, rng.randint(1, 10**6), False)))
    # an upload COMPLETED while the pool is busy for six seconds (mode K: its last kilobyte arrives once the other request
    # holds the pool): whatever the server answers meanwhile, no file is left when the upload's connection has ended
    for L in ((70000,) if tier == "quick" else (70000, 65537, 200000)):
        cases.append("K %d ok %d %s" % (S, 6000, upload("/g%d" % (L + 5), L, L, True, False, rng.randint(1, 10**6), False)))
    # several concurrent uploads on one async thread (mode N): 2 .. 12 clients stall mid-body at the same time, then all
    # go away; and the same with uploads that are refused / complete
    for j, ncl in enumerate((2, 3, 6, 12) if tier == "quick" else (2, 3, 4, 5, 6, 7, 8, 9, 12, 16, 24)):
        L = [70000, 200000, 65537][j % 3]
        cases.append("N %d ok %d %s" % (S, ncl, upload("/g%d" % (L + 5), L, [L // 2, 1, L - 1][j % 3], True, False, rng.randint(1, 10**6), False)))
    cases.append("N %d ok 5 %s" % (S, upload("/g70005", 70000, 70000, True, False, rng.randint(1, 10**6), False)))
    cases.append("N %d ok 5 %s" % (S, upload("/g100", 70000, 30000, True, False, rng.randint(1, 10**6), False)))
    # the same with a stalled global logger and a garbage-sending client on a one-thread executor (mode E)
    for j in range(2 if tier == "quick" else 12):
        L = [70000, 65537, 200000][j % 3]
        cases.append("E %d ok 0 %s" % (S, upload("/g%d" % (L + 5), L, [L // 2, 1][j % 2], True, False, rng.randint(1, 10**6), False)))
    # a handler that takes a while over a received upload (/gw<ms>): with a Prefer: wait=1 request field (mode V), and with
    # the server's permit revoked meanwhile (mode R) -- whatever the server answers and whenever, the temp file is gone
    # when the connection has ended
    head = "POST /gw1500 HTTP/1.1\r\nPrefer: wait=1\r\nContent-Length: 70000\r\n\r\n"
    cases.append("V %d ok 0 0 %s+g70000,%d" % (S, hx(head), rng.randint(1, 10**6)))
    head = "POST /gw1500 HTTP/1.1\r\nContent-Length: 70000\r\n\r\n"
    cases.append("R %d ok 0 0 %s+g70000,%d" % (S, hx(head), rng.randint(1, 10**6)))
    # idle keep-alive: the client has read the answers and keeps the connection open without sending anything; no temp
    # file may be alive then (mode I: known-length uploads answered 2xx, one or two on the same connection)
    ni = 6 if tier == "quick" else 60
    for j in range(ni):
        L = [70000, 100, 5, 65537, 200000, 9][j % 6]
        path = ["/g%d" % (L + 5), "/gg%d" % (L + 5), "/g%d" % (L + 5)][j % 3]
        sc = upload(path, L, L, True, j % 4 == 1, rng.randint(1, 10**6), False)
        if j % 3 == 2:
            sc = "+".join([sc, upload("/g%d" % (L + 7), L, L, True, False, rng.randint(1, 10**6), False)])
        cases.append("I %d ok %s %d %s" % (S, ["0", "4096,1000,30000"][j % 2], 0, sc))
    return cases

import c04 as _c04
corr_equal = _c04.corr_equal


def classify(case, model):
    t = case.split()
    if t[0] == "tables":
        return "tables"
    return "%s:cache=%s:%s" % (t[0], t[2] if t[0] != "X" else "write-fault", "file-created" if ":F" in model else "no-file")

def nontrivial(case, model):
    return ":K" in model or ":U" in model


def pre_proof():
    """The concrete instance (Model/ConnInst.v) uses the error->response table that the C20 translator
    regenerates from the CURRENT source tree; regenerate it before building, so that a run against
    another tree (VERIF_REPO) never leaves a stale table behind."""
    import c20 as _c20
    _c20.pre_proof()
    return []
