"""C04 -- per-connection exchange integrity: request sequences x handler behaviours, through
servlin::internal::handle_http_conn (mode D, deterministic) and a full server (mode S)."""
RULE = ("case = (small_body_len, cache dir kind, request sequence): 1..12 requests drawn from {no body, small body, body above the "
        "in-memory threshold with/without the handler fetching it, unknown-length body, Expect: 100-continue, malformed} x scripted "
        "handler behaviours keyed by path {normal 2xx/3xx/4xx/5xx, empty 204, fetch-body(M), fetch-then-5xx, fetch-then-drop, "
        "fetch-twice, recv_body(M) idiom, drop, panic (mode S)}; mode D drives handle_http_conn over loop-back with the client "
        "script written and half-closed first; mode S drives a real HttpServerBuilder server under client delivery schedules "
        "(single write, byte-at-a-time, random fragmentation with pauses). Non-trivial = at least two handler invocations.")
ASSUMPTIONS = ["the handler is a function of (path, body view) -- the scripted handler of the harness is mirrored in the driver",
               "mode D: the whole client script is delivered before the server starts reading (loop-back, script <= socket buffers)",
               "request targets are plain paths (url crate returns them verbatim)"]
MARKED = True
PREAMBLE = ["tables"]
HARNESS_BIN = "c04"
EXHAUSTIVE = {"quick": False, "thorough": False}

def hx(s):
    return "x" + s.encode("latin1").hex()

def req(method, path, headers=(), body=None, declared=True, pad=0):
    """returns a list of tokens ('x..' / 'g..') for one request; pad = width the Content-Length numeral is
    zero-padded to (1*DIGIT allows any number of leading zeros)"""
    head = "%s %s HTTP/1.1\r\n" % (method, path)
    for k, v in headers:
        head += "%s: %s\r\n" % (k, v)
    parts = []
    if body is not None:
        blen = body[0]
        if declared:
            head += "Content-Length: %s\r\n" % str(blen).rjust(pad, "0")
    head += "\r\n"
    parts.append(hx(head))
    if body is not None and body[0] > 0:
        parts.append("g%d,%d" % body)
    return parts

def gen_sequence(rng, small, nreq):
    toks = []
    closed = False
    for k in range(nreq):
        r = rng.random()
        beh = rng.choice(["/n200", "/n200", "/n201", "/n301", "/n404", "/n500", "/e204", "/d", "/zz"])
        if rng.random() < 0.06:
            # a response whose body file is shorter than declared / missing: it fails after its head went out
            beh = rng.choice(["/fs0", "/fs3", "/fs9", "/fm", "/fs10", "/fl1", "/fl12"])
        seed = rng.randint(1, 10**6)
        if r < 0.35:
            toks += req("GET", beh)
        elif r < 0.55:
            ln = rng.choice([1, 2, small, max(small - 1, 1)]) if small > 0 else 0
            if ln == 0:
                toks += req("POST", beh, body=(0, seed))
            else:
                toks += req(rng.choice(["POST", "PUT"]), beh, body=(ln, seed), pad=rng.choice([0, 0, 0, 2, 19, 20, 21, 25, 40]))
        elif r < 0.8:
            ln = small + rng.choice([1, 2, 10])
            m = rng.choice([0, ln - 1, ln, ln + 1, 10**6])
            p = rng.choice(["/g%d" % m, "/g%d" % m, "/r%d" % m, "/g5%d" % m, "/gd%d" % m, "/gg%d" % m, beh])
            hdrs = [("Expect", "100-continue")] if rng.random() < 0.25 else []
            toks += req("POST", p, headers=hdrs, body=(ln, seed))
        elif r < 0.88:
            ln = rng.choice([1, small + 1, 5])
            toks += req("POST", rng.choice(["/n200", "/e204"]), headers=[("Expect", "100-continue")], body=(ln, seed))
        elif r < 0.94:
            # unknown-length body: runs to end of stream, so it is the last request
            ln = rng.choice([0, 3, small + 3])
            m = rng.choice([0, ln, ln + 1, 10**6]) if ln else 5
            toks += req("POST", rng.choice(["/g%d" % m, "/r%d" % m, "/n200"]), body=(ln, seed), declared=False)
            break
        elif r < 0.97:
            # framing header combinations whose body kind and connection state must agree
            hd = rng.choice([[("Transfer-Encoding", "chunked"), ("Content-Length", "0")], [("Content-Length", "0"), ("Transfer-Encoding", "gzip")],
                             [("Transfer-Encoding", "chunked")], [("Expect", "100-continue"), ("Content-Length", "0")],
                             [("Transfer-Encoding", "gzip, chunked"), ("Content-Length", "3")]])
            toks += req(rng.choice(["POST", "GET"]), rng.choice(["/n200", "/e204", "/g100"]), headers=hd)
        else:
            toks.append(hx(rng.choice(["garbage\r\n\r\n", "GET / HTTP/1.0\r\n\r\n", "GET /x HTTP/1.1\r\nbad header\r\n\r\n",
                                        "GET /x HTTP/1.1\r\nContent-Length: 1\r\nContent-Length: 1\r\n\r\n", "GET /x HTT"])))
    return "+".join(toks)

def gen(rng, tier):
    cases = ["tables"]
    n = 2500 if tier == "quick" else 120000
    for _ in range(n):
        small = rng.choice([0, 4, 100, 65536 if rng.random() < 0.05 else 100])
        cache = rng.choice(["ok", "ok", "ok", "-", "missing"])
        nreq = rng.randint(1, 12)
        cases.append("D %d %s %s" % (small, cache, gen_sequence(rng, small, nreq)))
    # long pipelines: more than the 8 KiB head buffer in one go, heads straddling the buffer end
    for k in range(12 if tier == "quick" else 400):
        small = 100
        kind = k % 3
        if kind == 0:
            n = rng.randint(440, 900)
            seq = "+".join("+".join(req("GET", "/n200")) for _ in range(n))
        elif kind == 1:
            seq = "+".join("+".join(req("POST", "/n200", headers=[("X-Pad", "p" * rng.randint(1, 60))], body=(rng.randint(3990, 4100), k + 1))) for _ in range(3))
        else:
            pad = rng.randint(7900, 8100)
            seq = "+".join(req("GET", "/n200")) * 1 + "+" + "+".join(req("GET", "/n201", headers=[("X-Pad", "q" * pad)])) + "+" + "+".join(req("GET", "/n200"))
        cases.append("D %d ok %s" % (small if kind != 1 else 5000, seq))
    # well-formed requests with zero-padded Content-Length numerals of 19 .. 40 characters between ordinary ones: each
    # reaches the handler with its body and the pipeline goes on
    for w in (2, 19, 20, 21, 22, 30, 40):
        seq = "+".join(req("GET", "/n200") + req("POST", "/n201", body=(3, 7), pad=w) + req("PUT", "/n200", body=(0, 1), pad=w) + req("GET", "/n404"))
        cases.append("D 100 ok %s" % seq)
        cases.append("S 100 ok 0 0 %s" % seq)
    # the server's permit is revoked while the handler of the request in flight is running (mode R, handler /w<ms> takes
    # that long): the handler's response still reaches the client, complete
    for ms in (300, 500):
        cases.append("R 100 ok 0 0 %s" % "+".join(req("GET", "/w%d" % ms)))
        cases.append("R 100 ok 0 0 %s" % "+".join(req("POST", "/w%d" % ms, body=(5, 3))))
    # a handler that panics when it is first consulted about a body that is still pending (a long declared body, a body of
    # unknown length): the panic is a 500 like any other, and the pipeline's earlier answers stand (full server)
    for body in ((70000, 5), (101, 9)):
        cases.append("S 100 ok 0 0 %s" % "+".join(req("GET", "/n200") + req("POST", "/p", body=body)))
        cases.append("S 100 ok 0 0 %s" % "+".join(req("PUT", "/p", body=body)))
    cases.append("S 100 ok 0 0 %s" % "+".join(req("POST", "/p", body=(30, 4), declared=False)))
    # responses whose body source fails after the head was sent: alone, after earlier answers, with pipelined followers
    # ... and whose file is LONGER than declared (/fl<k>): exactly the declared bytes go out, the connection carries on
    for beh in ("/fs0", "/fs3", "/fs9", "/fm", "/fs10", "/fl1", "/fl12", "/fl70000"):
        for pre in (0, 1, 3):
            for post in (0, 2):
                seq = "+".join(["+".join(req("GET", "/n200")) for _ in range(pre)] + ["+".join(req("GET", beh))] +
                               ["+".join(req("GET", "/n201")) for _ in range(post)])
                cases.append("D 100 ok %s" % seq)
        cases.append("S 100 ok 0 0 %s" % "+".join(["+".join(req("GET", "/n200")), "+".join(req("GET", beh)), "+".join(req("GET", "/n200"))]))
    # pipelined requests with LONG heads (2..7 KiB) delivered so that a read ends inside a later head while the buffer
    # still has a free tail: every head below the 8 KiB buffer must be served whatever the buffer offset it starts at
    for k in range(10 if tier == "quick" else 200):
        sizes = [rng.choice([2000, 3000, 4000, 5000, 6000, 7000, 8000]) for _ in range(rng.randint(2, 4))]
        reqs = ["+".join(req("GET", "/n20%d" % (j % 2), headers=[("X-Pad", "p" * sz)])) for j, sz in enumerate(sizes)]
        first = len("GET /n200 HTTP/1.1\r\nX-Pad: \r\n\r\n") + sizes[0]
        cut = first + rng.choice([1, 500, 1000, 2000, sizes[1] // 2])
        cases.append("S 100 ok %d,%d,100000 %d %s" % (cut, rng.choice([1, 1000, 100000]), rng.choice([5, 20]), "+".join(reqs)))
    # an Expect: 100-continue request whose body the handler never asks for, answered 2xx/3xx; the client sends the body
    # anyway, later: its bytes must never be served as a request
    for k in range(6 if tier == "quick" else 60):
        L = rng.choice([70000, 65537, 100000])
        head = "+".join(req("POST", rng.choice(["/n200", "/n301", "/e204"]), headers=[("Expect", "100-continue")], body=(L, k + 1)))
        parts = head.split("+")
        hlen = (len(parts[0]) - 1) // 2
        smug = hx("GET /n201 HTTP/1.1\r\n\r\n")
        # the "body" starts with something that looks like a request
        cases.append("S 100 ok %d,100000 %d %s+%s+g%d,%d" % (hlen, rng.choice([20, 60]), parts[0], smug, L - 22, k + 7))
    # Content-Length values that are not 1*DIGIT (empty, blank, signed, spaced, hex, list, beyond u64) in front of bytes that
    # look like requests: the message is refused and nothing behind it is served
    for v in ("", " ", "   ", "+5", "-0", "5 5", "0x5", "5,5", "1e1", "18446744073709551616", "5;", "\t"):
        raw = "POST /n200 HTTP/1.1\r\nContent-Length:%s\r\n\r\nGET /n201 HTTP/1.1\r\n\r\n" % v
        follow = "+".join(req("GET", "/n200"))
        cases.append("D 100 ok %s+%s" % (hx(raw), follow))
        cases.append("D 100 ok %s+%s+%s" % ("+".join(req("GET", "/n404")) if False else "+".join(req("GET", "/n201")), hx(raw), follow))
        cases.append("S 100 ok 0 0 %s+%s" % (hx(raw), follow))
    # an exchange that takes more than five seconds (slow handler), then the next request on the same connection --
    # pipelined behind it, and sent only after the slow answer arrived: every request gets its run and its answer
    for ms in ((5300,) if tier == "quick" else (5300, 10500, 31000)):
        cases.append("S 100 ok 0 0 %s" % "+".join(req("GET", "/w%d" % ms) + req("GET", "/n201") + req("GET", "/n200")))
    # full server: delivery schedules and panics
    ns = 40 if tier == "quick" else 2000
    for _ in range(ns):
        small = rng.choice([4, 100])
        nreq = rng.randint(1, 5)
        seq = gen_sequence(rng, small, nreq)
        if rng.random() < 0.3:
            seq = seq + "+" + "+".join(req("GET", "/p")) + "+" + "+".join(req("GET", "/n200"))
        sched = rng.choice(["0", "1", "7", "%d,%d,%d" % (rng.randint(1, 40), rng.randint(1, 40), rng.randint(1, 200))])
        pause = 0 if sched in ("0", "1") else rng.choice([0, 1])
        # byte-at-a-time only for short scripts
        cases.append("S %d ok %s %d %s" % (small, sched, pause, seq))
    return cases

def corr_equal(impl, model):
    """The client may lose the tail of the transcript when the server closes with unread request bytes in its
    receive queue (the kernel answers RST; the harness marks such transcripts with reset=1): then what the client
    received must be a prefix of the model's transcript; everything else is compared exactly."""
    # mode B prints whether the scenario was really reached (a file existed, the slow handler ran): not compared
    # mode N: most= (files seen at once) is not compared; alike=1 (every client was served alike) is what is expected
    impl = " ".join(t for t in impl.split(" ") if not t.startswith(("hadfile=", "slow=", "most=")) and t != "alike=1")
    if impl == model:
        return True
    if " reset=1" not in impl:
        return False
    it, mt = impl.replace(" reset=1", "").split(), model.split()
    if len(it) != len(mt):
        return False
    for a, b in zip(it, mt):
        if a.startswith("wire=") and b.startswith("wire="):
            if a.startswith("wire=x") and b.startswith("wire=x"):
                if not b.startswith(a):
                    return False
            # digest form (long transcripts): cannot be compared after a loss
        elif a != b:
            return False
    return True


def classify(case, model):
    t = case.split()
    if t[0] == "tables":
        return "tables"
    n = model.count(",") + 1 if "log=[]" not in model else 0
    return "%s:cache=%s:invocations=%s" % (t[0], t[2], "0" if n == 0 else ("1" if n == 1 else ("2-4" if n <= 4 else "5+")))

def nontrivial(case, model):
    return model.count(",") >= 1

def shrink(case):
    t = case.split()
    if t[0] not in ("D", "S"):
        return
    parts = t[-1].split("+")
    # first large blocks (halves, quarters, eighths), then single tokens / head+body pairs
    n = len(parts)
    for div in (2, 4, 8):
        if n >= 2 * div:
            step = n // div
            for j in range(0, n, step):
                rest = parts[:j] + parts[j + step:]
                if rest:
                    yield " ".join(t[:-1] + ["+".join(rest)])
    if n > 120:
        return
    for j in range(len(parts)):
        for k in (2, 1):
            rest = parts[:j] + parts[j + k:]
            if rest:
                yield " ".join(t[:-1] + ["+".join(rest)])


def pre_proof():
    """The concrete instance (Model/ConnInst.v) uses the error->response table that the C20 translator
    regenerates from the CURRENT source tree; regenerate it before building, so that a run against
    another tree (VERIF_REPO) never leaves a stale table behind."""
    import c20 as _c20
    _c20.pre_proof()
    return []
