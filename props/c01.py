"""C01 -- request reading is total: case generator, classification, shrinking, evidence rules.

Case syntax: see harness/src/bin/c01.rs.  Every stream of cases is derived from `rng`.
"""
import itertools

RULE = ("corpus (D1 witness) first; then (a) every Appendix-A boundary for cap 32 and 200 (terminator offset 0, 1, cap-5, "
        "cap-4, cap-3; buffer exactly full; EOF/io-error with empty and non-empty buffer; a second pipelined head of "
        "cap-1/cap/cap+1 bytes after left-over bytes, with and without shift), (b) grammar-derived heads with every "
        "position substituted by each of the 256 byte values, (c) exhaustive strings over the alphabet "
        "{G,SP,/,:,CR,LF,0x80,H} (raw, and as header block after a valid request line) into a 32-byte buffer one byte "
        "per read, (d) all 2-piece splits and byte-at-a-time delivery of valid/invalid/pipelined streams with EOF or "
        "io error and with/without Pending, (d2) pipelined messages with junk between them (stray CRLFs, lone LF/CR, SP, HTAB) "
        "through read_http_request under every two-way split / byte-at-a-time / single read and as pre-filled buffer "
        "states, each sequence compared with the schedule-free seq_spec, (e) random mutations x random schedules x random read index, (f) the "
        "error->status and HeadError->HttpError tables. Non-trivial = the model outcome is not plain Truncated/"
        "Disconnected (a head was parsed or a parse/size error was classified); distinct by full case text.")
ASSUMPTIONS = [
    "url_parse is instantiated per case with what the real url crate returned for every candidate target (logged by the harness)",
    "AsyncRead contract: a read returns at most the length of the slice it was given",
    "FixedBuf (crate fixed-buffer) implements read index / write index as documented; its use is modelled",
    "safe-regex full-match semantics of the two literals in src/head.rs (hand-transcribed recognisers)",
]
EXHAUSTIVE = {"quick": False, "thorough": False}
TRUSTED_EXTRA = ["url crate results enter the model as a logged table (Section variable url_parse)"]

CRLF2 = b"\r\n\r\n"
HTTP_ERRORS = ["Disconnected", "HeadTooLong", "MalformedHeaderLine", "MalformedPath", "MalformedRequestLine",
               "MissingRequestLine", "Truncated", "UnsupportedProtocol", "InvalidContentLength",
               "MalformedCookieHeader", "UnsupportedTransferEncoding"]
HEAD_ERRORS = ["Truncated", "MissingRequestLine", "MalformedRequestLine", "MalformedPath", "UnsupportedProtocol",
               "MalformedHeader"]

TAGS = {}      # case text -> list of Appendix-A boundary tags (filled by gen)


def x(b):
    return "x" + bytes(b).hex()


def unx(t):
    return bytes.fromhex(t[1:])


def sched(l):
    return "s" + ",".join(str(k) for k in l)


def head_case(mode, cap, rd, buf, stream, sch, end="eof", pend=0, tags=()):
    c = "%s %d %d %s %s %s %s %d" % (mode, cap, rd, x(buf), x(stream), sched(sch), end, pend)
    if tags:
        TAGS.setdefault(c, []).extend(tags)
    return c


def pipe_case(cap, k, stream, sch, end="eof", pend=0, tags=()):
    c = "pipe %d %d %s %s %s %d" % (cap, k, x(stream), sched(sch), end, pend)
    if tags:
        TAGS.setdefault(c, []).extend(tags)
    return c


def try_case(cap, rd, buf, tags=()):
    c = "try %d %d %s" % (cap, rd, x(buf))
    if tags:
        TAGS.setdefault(c, []).extend(tags)
    return c


TCHARS = b"!#$%&'*+-.^_`|~0123456789abcdefghijklmnopqrstuvwxyzABCDEFGHIJKLMNOPQRSTUVWXYZ"


def rand_token(rng, lo=1, hi=6):
    return bytes(rng.choice(TCHARS) for _ in range(rng.randint(lo, hi)))


def rand_value(rng, hi=10):
    n = rng.randint(0, hi)
    v = bytes(rng.choice(b"abcXYZ019 \t:;=,/\"()<>@[]{}~!") for _ in range(n))
    return v.strip(b" \t")


def rand_target(rng):
    segs = [bytes(rng.choice(b"abcz019-._~!$&'()*+,;=:@") for _ in range(rng.randint(0, 4))) for _ in range(rng.randint(1, 3))]
    t = b"/" + b"/".join(s for s in segs if s not in (b".", b".."))
    if rng.random() < 0.4:
        t += b"?" + bytes(rng.choice(b"abc=&019/?:@-._~") for _ in range(rng.randint(0, 5)))
    return t


def rand_head(rng, nfields=None, maxlen=None):
    """bytes of a grammar-derived head including the final CRLFCRLF"""
    for _ in range(50):
        m = rng.choice([b"GET", b"POST", b"M", rand_token(rng)])
        h = m + b" " + rand_target(rng) + b" HTTP/1.1"
        k = rng.randint(0, 3) if nfields is None else nfields
        for _ in range(k):
            ows1 = rng.choice([b"", b" ", b"\t", b"  "])
            ows2 = rng.choice([b"", b"", b" ", b"\t "])
            h += b"\r\n" + rand_token(rng) + b":" + ows1 + rand_value(rng) + ows2
        h += CRLF2
        if maxlen is None or len(h) <= maxlen:
            return h
    return b"M / HTTP/1.1" + CRLF2


def exact_head(n):
    """a valid head whose CRLFCRLF is at offset n (n >= 12)"""
    return b"G /" + b"a" * (n - 12) + b" HTTP/1.1" + CRLF2


def rand_sched(rng, total):
    r = rng.random()
    if r < 0.25:
        return []
    if r < 0.4:
        return [total + 5]
    out, left = [], total
    while left > 0:
        k = rng.choice([1, 1, 2, 3, 5, 8, 13, 31, 32, 33, 100])
        out.append(k)
        left -= k
    return out


def mutate(rng, b):
    b = bytearray(b)
    for _ in range(rng.choice([1, 1, 1, 2, 2, 3])):
        op = rng.random()
        pos = rng.randrange(len(b) + 1)
        val = rng.choice([0, 9, 10, 13, 32, 58, 47, 127, 128, 255, rng.randrange(256), rng.randrange(256)])
        if op < 0.45 and pos < len(b):
            b[pos] = val
        elif op < 0.75:
            b.insert(pos, val)
        elif pos < len(b):
            del b[pos]
    return bytes(b)


def boundaries(rng, tier):
    cs = []
    for cap in (32, 200):
        # terminator offset 0, 1, cap-5, cap-4, cap-3 (the last does not fit)
        for n, tag in ((0, "crlf2@0"), (1, "crlf2@1"), (cap - 5, "crlf2@cap-5"), (cap - 4, "crlf2@cap-4"), (cap - 3, "crlf2@cap-3")):
            stream = (exact_head(n) if n >= 12 else b"G" * n + CRLF2) + b"TAIL"
            for sch in ([], [len(stream)], [cap], [cap - 1, 1, 1], [n + 3, 1], [n + 4, 5]):
                for end in ("eof", "err"):
                    cs.append(head_case("head", cap, 0, b"", stream, sch, end, 0, [tag]))
                    cs.append(head_case("req", cap, 0, b"", stream, sch, end, 1, [tag]))
            if n + 4 <= cap:
                cs.append(try_case(cap, 0, stream[:cap], [tag]))
        # buffer exactly full without terminator; one byte short then EOF
        for ln, tag in ((cap, "full-no-terminator"), (cap + 7, "full-no-terminator"), (cap - 1, "eof-nonempty")):
            stream = b"G / HTTP/1.1\r\nA: " + b"b" * (ln - 17)
            for sch in ([], [ln], [cap, 1], [5, cap]):
                for end in ("eof", "err"):
                    cs.append(head_case("head", cap, 0, b"", stream, sch, end, 0, [tag]))
        # nearly-terminated heads cut at every offset of the terminator
        full = b"G / HTTP/1.1\r\nA: b" + CRLF2
        for cut in range(len(full) - 5, len(full) + 1):
            for end in ("eof", "err"):
                cs.append(head_case("head", cap, 0, b"", full[:cut], [], end, 0, ["eof-nonempty"]))
                cs.append(head_case("head", cap, 0, full[:cut - 3], full[cut - 3:cut], [2], end, 1, ["eof-nonempty"]))
        for end in ("eof", "err"):
            cs.append(head_case("head", cap, 0, b"", b"", [], end, 0, ["eof-empty"]))
            cs.append(head_case("req", cap, 0, b"", b"", [], end, 1, ["eof-empty"]))
        cs.append(try_case(cap, 0, b"", ["eof-empty"]))
        # a second pipelined head whose length approaches cap while left-over bytes precede it
        h1 = b"A /a HTTP/1.1" + CRLF2          # 17 bytes
        for l2, tag in ((cap - 1, "pipelined-second-head-cap-1"), (cap, "pipelined-second-head-cap"), (cap + 1, "pipelined-second-head-cap+1")):
            h2 = exact_head(l2 - 4)
            stream = h1 + h2 + b"C /c HTTP/1.1" + CRLF2
            for sch in ([], [cap], [cap, cap, cap, cap], [len(h1) + 1, cap], [len(h1) + 5, 3, cap], [20, 1, 1, cap]):
                cs.append(pipe_case(cap, 3, stream, sch, "eof", 0, [tag]))
                cs.append(pipe_case(cap, 3, stream, sch, "err", 1, [tag]))
            # the same left-over situation given directly as a buffer state: read index > 0
            for keep in (1, 5, 15):
                if keep < len(h2) and 17 + keep <= cap:
                    cs.append(head_case("req", cap, 17, h2[:keep], h2[keep:] + b"XY", [cap], "eof", 0, [tag + "/shift"]))
                    cs.append(head_case("head", cap, 17, h2[:keep], h2[keep:] + b"XY", [cap], "eof", 0, [tag + "/noshift"]))
                    cs.append(head_case("head", cap, 17, h2[:keep], h2[keep:] + b"XY", [], "eof", 1, [tag + "/noshift"]))
    # every HeadError arm, through every surface
    arms = [(b"G / HTTP/1.1\r\nA: b\r\n\r\n", "arm-ok"), (b" / HTTP/1.1\r\n\r\n", "arm-MalformedRequestLine"),
            (b"G a HTTP/1.1\r\n\r\n", "arm-MalformedPath"), (b"G /\xff HTTP/1.1\r\n\r\n", "arm-MalformedPath-nonutf8"),
            (b"G / HTTP/1.0\r\n\r\n", "arm-UnsupportedProtocol"), (b"G / HTTP/1.1\r\nAb\r\n\r\n", "arm-MalformedHeader"),
            (b"G / HTTP/1.1\r\nA: \x80\r\n\r\n", "arm-MalformedHeader-nonascii"),
            (b"G / HTTP/1.1\r\nA: b\x00c\r\n\r\n", "arm-MalformedHeader-control"),
            (b"G //h/p HTTP/1.1\r\n\r\n", "arm-authority-target"), (b"G /a/../b?x#f HTTP/1.1\r\n\r\n", "arm-noncanonical-target"),
            (b"\r\n\r\n", "arm-empty-head"), (b"G / HTTP/1.1\n\r\n", "arm-Truncated")]
    for s, tag in arms:
        for cap in (32, 200, 8192):
            cs.append(try_case(cap, 0, s, [tag]))
            if 3 + len(s) + 4 <= cap:
                cs.append(try_case(cap, 3, s + b"rest", [tag]))
            cs.append(head_case("head", cap, 0, b"", s + b"rest", [], "eof", 0, [tag]))
            cs.append(head_case("req", cap, 0, b"", s + b"rest", [7], "err", 1, [tag]))
            cs.append(pipe_case(cap, 2, s + s, [3, 1000], "eof", 0, [tag]))
    # the 8192-byte buffer of the server: long heads around the capacity
    for n, tag in ((8187, "crlf2@cap-5"), (8188, "crlf2@cap-4"), (8189, "crlf2@cap-3")):
        stream = b"G / HTTP/1.1\r\nLong: " + b"v" * (n - 20) + CRLF2 + b"G /2 HTTP/1.1" + CRLF2
        for sch in ([9000], [4096, 4096, 4096], [8191, 1, 1, 1, 1, 1, 1, 1, 1, 1, 1, 1, 1, 1, 1, 1, 1, 1, 1, 1, 1, 1]):
            cs.append(head_case("head", 8192, 0, b"", stream, sch, "eof", 0, [tag]))
            cs.append(pipe_case(8192, 2, stream, sch, "eof", 0, [tag]))
    cs.append(head_case("head", 8192, 0, b"", b"a" * 9000, [1000] * 9, "eof", 0, ["full-no-terminator"]))
    if tier != "quick":
        cs.append(head_case("head", 8192, 0, b"", b"G / HTTP/1.1\r\nL: " + b"v" * 3000 + CRLF2, [], "eof", 0, ["byte-at-a-time-long"]))
    return cs


def byte_mutations(rng, tier):
    """grammar-derived heads, every position substituted by every byte value"""
    cs = []
    bases = [b"GET /p?q=1 HTTP/1.1\r\nHost: a\r\nX-y: b c\r\n\r\n"]
    nbase = 1 if tier == "quick" else 12
    for _ in range(nbase):
        bases.append(rand_head(rng, nfields=2, maxlen=60))
    for base in bases:
        for pos in range(len(base)):
            for v in range(256):
                if v == base[pos]:
                    continue
                m = base[:pos] + bytes([v]) + base[pos + 1:]
                cls = "ctl-00-08" if v <= 8 else "htab" if v == 9 else "ctl-0a-1f" if v <= 0x1f else "print-20-7e" if v <= 0x7e else "del-7f" if v == 0x7f else "high-80-ff"
                if rng.random() < 0.8:
                    cs.append(try_case(200, 0, m + b"Z", ["mut-" + cls]))
                else:
                    cs.append(head_case("head", 200, 0, b"", m + b"Z", rand_sched(rng, len(m) + 1), rng.choice(["eof", "err"]), rng.randint(0, 1), ["mut-" + cls]))
    # value byte classes explicitly, at start / middle / end of a value
    for v in range(256):
        for val in (bytes([v]), b"a" + bytes([v]) + b"b", b"ab" + bytes([v]), bytes([v]) + b"ab"):
            cs.append(try_case(32, 0, b"G / HTTP/1.1\r\nA: " + val + CRLF2, ["value-byte"]))
    return cs


def exhaustive_small(tier):
    cs = []
    alpha = [0x47, 0x20, 0x2F, 0x3A, 0x0D, 0x0A, 0x80, 0x48]
    raw_len = 6 if tier == "quick" else 7
    hdr_len = 5 if tier == "quick" else 6
    for ln in range(0, raw_len + 1):
        for t in itertools.product(alpha, repeat=ln):
            cs.append("head 32 0 x x%s s eof 0" % bytes(t).hex())
    pre = b"G / HTTP/1.1\r\n".hex()
    post = CRLF2.hex()
    for ln in range(0, hdr_len + 1):
        for t in itertools.product(alpha, repeat=ln):
            cs.append("head 32 0 x x%s%s%s s eof 0" % (pre, bytes(t).hex(), post))
    return cs


def splits(rng, tier):
    cs = []
    streams = [b"GET / HTTP/1.1\r\nA: b\r\n\r\n", b"G /a HTTP/1.1\r\n\r\nH /b HTTP/1.1\r\n\r\n",
               b"G / HTTP/1.1\r\nA: \rb\r\r\nC:d\n\r\n\r\nXY", b"G / HTTP/1.1\r\n\r\r\n\r\n", b"\r\n\r\n\r\n\r\n",
               b"G / HTTP/1.1\r\nA: \x80\r\n\r\n", b"G  / HTTP/1.1\r\n\r\n", b"G / HTTP/1.1\r\n\r"]
    for _ in range(4 if tier == "quick" else 60):
        streams.append(rand_head(rng, maxlen=70) + rng.choice([b"", b"X", b"G / HTTP/1.1\r\n\r\n"]))
        streams.append(mutate(rng, rand_head(rng, maxlen=70)))
    for s in streams:
        for cap in (32, 200):
            for end in ("eof", "err"):
                cs.append(head_case("head", cap, 0, b"", s, [], end, 0, ["split-byte-at-a-time"]))
                cs.append(pipe_case(cap, 3, s, [], end, 1, ["split-byte-at-a-time"]))
            for i in range(0, len(s) + 1):
                end = "eof" if i % 2 == 0 else "err"
                cs.append(head_case("head", cap, 0, b"", s, [max(i, 1), len(s) + 1], end, i % 2, ["split-2-piece"]))
                # the first piece already in the buffer
                if i <= cap:
                    cs.append(head_case("head", cap, 0, s[:i], s[i:], [len(s) + 1], end, 0, ["split-2-piece"]))
            if tier != "quick" and len(s) <= 12:
                # all compositions
                n = len(s)
                for mask in range(1 << (n - 1)):
                    parts, cur = [], 1
                    for j in range(n - 1):
                        if mask >> j & 1:
                            parts.append(cur); cur = 1
                        else:
                            cur += 1
                    parts.append(cur)
                    cs.append(head_case("head", cap, 0, b"", s, parts, "eof", 0, ["split-all-compositions"]))
    return cs


def interjunk(rng, tier):
    """pipelined messages with junk BETWEEN them (stray CRLFs, lone LF / CR, a space), read through
    read_http_request under every two-way split, byte-at-a-time and in a single read: whatever is
    already in the buffer from an earlier read must be treated exactly like bytes still to come"""
    cs = []
    h1, h2, h3 = b"A /1 HTTP/1.1" + CRLF2, b"B /2 HTTP/1.1" + CRLF2, b"C /3 HTTP/1.1\r\nK: v" + CRLF2
    junks = [b"\r\n", b"\r\n\r\n", b"\n", b"\r", b" ", b"\r\n ", b"\n\r\n", b"\r\n\r", b"\t", b"\r\r\n"]
    if tier != "quick":
        junks += [b"\r\n\r\n\r\n", b"\x00", b"\r\n\n", b" \r\n", b"\r\n\r\n "]
    for j in junks:
        tg = ["interjunk-" + j.hex()]
        for stream in (h1 + j + h2, h1 + j + h2 + j + h3, j + h1 + h2, h1 + h2 + j):
            for cap in (32, 200):
                n = len(stream)
                k = 4
                cs.append(pipe_case(cap, k, stream, [], "eof", 0, tg + ["interjunk-byte-at-a-time"]))
                cs.append(pipe_case(cap, k, stream, [n + 1], "eof", 0, tg + ["interjunk-single-read"]))
                cs.append(pipe_case(cap, k, stream, [cap] * 8, "err", 1, tg + ["interjunk-single-read"]))
                for i in range(1, n):
                    cs.append(pipe_case(cap, k, stream, [i, n + 1, n + 1, n + 1], "eof" if i % 2 else "err", i % 2, tg + ["interjunk-2-split"]))
                # the same situation as a buffer state handed to one read_http_request call:
                # the first message already consumed, i further bytes already in the buffer
                rest = stream[len(h1):] if stream.startswith(h1) else stream
                for i in range(0, min(len(rest), cap - 17) + 1):
                    rd = 17 if i > 0 else 0
                    cs.append(head_case("req", cap, rd, rest[:i], rest[i:], [len(rest) + 1], "eof", 0, tg + ["interjunk-buffered-%s" % ("some" if i else "none")]))
                    cs.append(head_case("req", cap, rd, rest[:i], rest[i:], [], "eof", 1, tg + ["interjunk-buffered-%s" % ("some" if i else "none")]))
    return cs


def randoms(rng, tier):
    cs = []
    n = 4000 if tier == "quick" else 400000
    for _ in range(n):
        cap = rng.choice([32, 32, 200, 200, 200, 8192]) if rng.random() < 0.98 else 8192
        k = rng.randint(1, 3)
        s = b""
        for _ in range(k):
            h = rand_head(rng, maxlen=(cap if cap < 8192 else 300) + 6)
            if rng.random() < 0.5:
                h = mutate(rng, h)
            s += h
        if rng.random() < 0.3:
            s = s[:rng.randrange(len(s) + 1)]
        mode = rng.choice(["head", "head", "req", "pipe", "try"])
        sch = rand_sched(rng, len(s))
        end = rng.choice(["eof", "err"])
        pend = rng.randint(0, 1)
        if mode == "pipe":
            cs.append(pipe_case(cap, k + 1, s, sch, end, pend))
        elif mode == "try":
            rd = rng.choice([0, 0, 1, 7])
            if rd + len(s) <= cap and len(s) > 0:
                cs.append(try_case(cap, rd, s))
        else:
            i = rng.randrange(len(s) + 1) if rng.random() < 0.5 else 0
            rd = rng.choice([0, 0, 0, 1, 5, 17])
            if i == 0:
                rd = 0
            if rd + i > cap:
                i, rd = 0, 0
            cs.append(head_case(mode, cap, rd, s[:i], s[i:], sch, end, pend))
    return cs


def gen(rng, tier):
    TAGS.clear()
    cs = []
    cs += ["status " + e for e in HTTP_ERRORS] + ["conv " + e for e in HEAD_ERRORS]
    cs += boundaries(rng, tier)
    cs += splits(rng, tier)
    cs += interjunk(rng, tier)
    cs += byte_mutations(rng, tier)
    cs += randoms(rng, tier)
    cs += exhaustive_small(tier)
    # request targets that do not start with '/' (absolute-form, authority-form, junk) with a multi-byte UTF-8 character at
    # every offset 0..15: classified (MalformedPath or accepted), never a panic
    for off in range(0, 16):
        for ch in (b"\xc3\xa9", b"\xe2\x82\xac", b"\xf0\x9f\x98\x80"):
            for pre in (b"a", b"h"):
                tgt = pre * off + ch + b"zzz"
                cs.append(try_case(8192, 0, b"GET " + tgt + b" HTTP/1.1\r\n\r\nR", ["non-ascii-target"]))
        cs.append(try_case(8192, 0, b"GET http://" + b"e" * off + b"\xc3\xa9.example/p HTTP/1.1\r\n\r\n", ["non-ascii-target"]))
        cs.append(try_case(8192, 0, b"GET HTTP:/" + b"/" * (off % 3) + b"\xc3\xa9 HTTP/1.1\r\n\r\n", ["non-ascii-target"]))
    # the connection task as a whole (handle_http_conn over loop-back): every documented outcome is answered with its
    # status, with no logger installed (n) and with a stopped global logger installed (s)
    for lg in ("n", "s"):
        for msg in (b"GET / HTTP/1.1\r\n\r\n", b"GET / HTTP/1.0\r\n\r\n", b"BAD\x01 / HTTP/1.1\r\n\r\n", b"GET /\r\n\r\n",
                    b"GET / HTTP/1.1\r\nx\r\n\r\n", b"GET / HTTP/1.1\r\nx: \x01\r\n\r\n", b"GET / HTTP/1.1\r\nx: y", b"",
                    b"GET / HTTP/1.1\r\nx: " + b"v" * 9000 + b"\r\n\r\n", b"\r\n\r\n", b"GET /%zz HTTP/1.1\r\n\r\n"):
            cs.append("task %s %s" % (lg, x(msg)))
    # a byte >= 0x80 at every offset of a long field value (the error path formats the offending text: a cut at a
    # fixed length must not land inside a character), also as part of a well-formed UTF-8 sequence
    for off in list(range(0, 40, 7)) + list(range(60, 140)) + [255, 256, 999, 1000, 1023, 1024]:
        for hi in (b"\xe9", b"\xc3\xa9", b"\xf0\x9f\x98\x80", b"\x80"):
            val = b"a" * off + hi + b"tail" * 30
            cs.append(try_case(8192, 0, b"GET / HTTP/1.1\r\nx-v: " + val + b"\r\n\r\nR", ["high-byte-in-long-value"]))
    return cs


def _outcome(model):
    """the outcome part of a model observation line"""
    m = model.split(";;", 1)[1].strip() if ";;" in model else model
    t = m.split()
    if not t:
        return "?"
    if t[0] == "ok":
        return "ok"
    if t[0] == "pass":
        last = m.split(" / ")[-1].split()
        n = len(m.split(" / "))
        return "pass*%d+%s" % (n - 1 if last[0] == "err" else n, last[1] if last[0] == "err" else "end")
    if t[0] == "err":
        return "err-" + t[1]
    return t[0]


def classify(case, model):
    t = case.split()
    mode = t[0]
    if mode in ("status", "conv"):
        return mode
    return "%s:cap%s:%s" % (mode, t[1], _outcome(model))


def nontrivial(case, model):
    o = _outcome(model)
    return o not in ("err-Truncated", "err-Disconnected", "?", "badcase")


def extra_evidence(results):
    hits = {}
    for r in results:
        for tag in TAGS.get(r[1], ()):
            hits[tag] = hits.get(tag, 0) + 1
    arms = {}
    for r in results:
        o = _outcome(r[3])
        arms[o] = arms.get(o, 0) + 1
    return dict(appendix_a_boundary_hits=hits, outcome_arms=arms,
                panics_observed=sum(1 for r in results if " panic" in " " + r[2]))


# ------------------------------------------------------------------ shrinking / neighbourhood
def _byte_shrinks(b):
    n = len(b)
    out = []
    k = n // 2
    while k >= 1:
        for i in range(0, n, k):
            out.append(b[:i] + b[i + k:])
        k //= 2
    for i in range(n):
        if b[i] not in (0x61,):
            pass
    return out


def shrink(case):
    t = case.split()
    mode = t[0]
    if mode == "try":
        cap, rd, buf = t[1], int(t[2]), unx(t[3])
        if cap != "32" and len(buf) + rd <= 32:
            yield "try 32 %d %s" % (rd, x(buf))
        if rd:
            yield "try %s 0 %s" % (cap, x(buf))
        for b in _byte_shrinks(buf):
            if b or not rd:
                yield "try %s %d %s" % (cap, rd, x(b))
    elif mode in ("head", "req"):
        cap, rd, buf, stream, sch, end, pend = t[1], int(t[2]), unx(t[3]), unx(t[4]), t[5], t[6], t[7]
        if buf:
            yield "%s %s 0 x %s %s %s %s" % (mode, cap, x(buf + stream), sch, end, pend)
        if mode == "req":
            yield "head %s %d %s %s %s %s %s" % (cap, rd, x(buf), x(stream), sch, end, pend)
        if cap != "32":
            yield "%s 32 %d %s %s %s %s %s" % (mode, rd, x(buf), x(stream), sch, end, pend)
        if sch != "s":
            yield "%s %s %d %s %s s %s %s" % (mode, cap, rd, x(buf), x(stream), end, pend)
            yield "%s %s %d %s %s s%d %s %s" % (mode, cap, rd, x(buf), x(stream), len(stream) + 1, end, pend)
        if pend != "0":
            yield "%s %s %d %s %s %s %s 0" % (mode, cap, rd, x(buf), x(stream), sch, end)
        if end != "eof":
            yield "%s %s %d %s %s %s eof %s" % (mode, cap, rd, x(buf), x(stream), sch, pend)
        for b in _byte_shrinks(stream):
            yield "%s %s %d %s %s %s %s %s" % (mode, cap, rd, x(buf), x(b), sch, end, pend)
    elif mode == "pipe":
        cap, k, stream, sch, end, pend = t[1], int(t[2]), unx(t[3]), t[4], t[5], t[6]
        yield "head %s 0 x %s %s %s %s" % (cap, x(stream), sch, end, pend)
        if k > 1:
            yield "pipe %s %d %s %s %s %s" % (cap, k - 1, x(stream), sch, end, pend)
        if sch != "s":
            yield "pipe %s %d %s s %s %s" % (cap, k, x(stream), end, pend)
        if pend != "0":
            yield "pipe %s %d %s %s %s 0" % (cap, k, x(stream), sch, end)
        for b in _byte_shrinks(stream):
            yield "pipe %s %d %s %s %s %s" % (cap, k, x(b), sch, end, pend)


def neighbours(case, rng):
    """same bytes under other schedules and surfaces, plus single-byte substitutions"""
    t = case.split()
    mode = t[0]
    if mode in ("status", "conv"):
        return
    if mode == "try":
        cap, buf = int(t[1]), unx(t[3])
        stream, pre = buf, b""
    elif mode == "pipe":
        cap, stream, pre = int(t[1]), unx(t[3]), b""
    else:
        cap, pre, stream = int(t[1]), unx(t[3]), unx(t[4])
    allb = pre + stream
    for sch in ([], [len(allb) + 1], [1, len(allb)], [cap], [cap - 1, 1]):
        for end in ("eof", "err"):
            yield head_case("head", cap, 0, b"", allb, sch, end, 0)
            yield head_case("req", cap, 0, b"", allb, sch, end, 1)
    if len(allb) <= cap:
        yield try_case(cap, 0, allb)
    for _ in range(150):
        if not allb:
            break
        pos = rng.randrange(len(allb))
        v = rng.choice([0, 9, 10, 13, 32, 58, 127, 128, 255, rng.randrange(256)])
        m = allb[:pos] + bytes([v]) + allb[pos + 1:]
        yield head_case("head", cap, 0, b"", m, rand_sched(rng, len(m)), "eof", 0)
