"""C07 -- chunked encoder (copy_chunked_async): case generator and evidence rules.

case:  cc <data> r:<rop,..> w:<wop,..> <budget|-> <pend>
  data   x<hex> | g<seed>_<len> (LCG bytes, generated identically on both sides) | z<hexbyte>_<len>
  rop    k (the read hands out at most k bytes; 0 = premature Ok(0)) | f (read error)
  wop    k (poll_write accepts at most k bytes; 0 = Ok(0)) | f (error)
  budget total bytes after which every poll_write fails; '-' = none
  pend   bit 0: reader answers Pending before every read; bit 1: writer likewise
obs:   ok <n> <out> | rerr 0 <out> | werr 0 <out>   (out run-length coded, see harness/src/sio.rs)
"""
RULE = ("corpus first; then (a) the size-line sweep: one read of n bytes for every n in 1..0x1100 plus "
        "sampled/boundary n up to 65528 (thorough: EVERY n in 1..65528), (b) random streams 0..1 MiB under "
        "random/adversarial read schedules and short-write schedules with interleaved Pending, (c) a read error / "
        "premature Ok(0) at every chunk boundary, (d) a writer error at every byte offset (small outputs) or around "
        "every chunk boundary (large), write errors by call index and Ok(0) answers. Non-trivial = the source "
        "delivers at least one byte (distinct by full case text).")
ASSUMPTIONS = [
    "futures_lite write_all = loop { n = poll_write(rest)?; if n == 0 {Err(WriteZero)} } (Model/IOSched.v write_all_sched)",
    "a reader never returns more bytes than the buffer it is given (min k cap in rd_read)",
    "Poll::Pending with an immediate wake does not change what is read or written (not modelled; exercised by the pend flag)",
]
EXHAUSTIVE = {"quick": False, "thorough": True}
PIECE_MAX = 65528


def hexlen(n):
    return len("%x" % n)


def chunk_len(n):
    return hexlen(n) + 2 + n + 2


def case(data, r=(), w=(), budget=None, pend=0):
    return "cc %s r:%s w:%s %s %d" % (data, ",".join(str(x) for x in r), ",".join(str(x) for x in w),
                                      "-" if budget is None else str(budget), pend)


def has_zero_nibble(n):
    return "0" in ("%x" % n)


def pieces_for(n, r):
    """piece lengths the encoder sees for n bytes under schedule r (no failures), and whether it ended by r=0"""
    out, rem, i = [], n, 0
    while True:
        k = PIECE_MAX if i >= len(r) else min(r[i], PIECE_MAX)
        i += 1
        m = min(k, rem)
        if m == 0:
            return out
        out.append(m)
        rem -= m


# one-letter tokens of harness/src/sio.rs: an error of that io::ErrorKind (Interrupted, TimedOut, WriteZero, UnexpectedEof,
# BrokenPipe, WouldBlock, Other, InvalidData, ConnectionReset, NotFound, PermissionDenied)
KINDS = list("itzubwodcnp")


def gen(rng, tier):
    quick = tier != "thorough"
    cases = []
    # ---- (a) size-line sweep: one read of exactly n bytes
    bytevals = ["41", "30", "0d", "0a", "00", "ff"]
    if quick:
        ns = set(range(1, 0x1100 + 1))
        for k in range(1, 16):
            for d in (-1, 0, 1):
                ns.add(k * 0x1000 + d)
                ns.add(k * 0x1000 + 0x100 + d)
                ns.add(k * 0x1000 + 0xf00 + d)
        ns.update([0xfff7, 0xfff8, 0xfff6, 0xff00, 0xf0f0, 0xf00f, 0xff0f, 0x8000, 0x7fff, 0xa0b0, 0x10ff])
        zs = [n for n in range(0x1100, PIECE_MAX + 1) if has_zero_nibble(n)]
        ns.update(rng.sample(zs, 150))
        ns.update(rng.randint(0x1100, PIECE_MAX) for _ in range(60))
        ns = sorted(n for n in ns if 1 <= n <= PIECE_MAX)
    else:
        ns = range(1, PIECE_MAX + 1)
    for n in ns:
        cases.append(case("z%s_%d" % (bytevals[n % len(bytevals)], n), r=[n]))
    # boundaries of the read buffer
    for n in (PIECE_MAX + 1, PIECE_MAX + 2, 2 * PIECE_MAX, 2 * PIECE_MAX + 1, 70000):
        cases.append(case("g%d_%d" % (n, n)))
        cases.append(case("g%d_%d" % (n, n), r=[100000, 70000]))
    cases.append(case("x"))
    cases.append(case("x", r=[0]))
    cases.append(case("x", r=["f"]))
    cases.append(case("x6162", r=[0]))              # reader returning 0 first
    cases.append(case("x6162", r=[1, 0, 1]))        # premature Ok(0) between chunks
    # ---- (b) random streams
    adversarial = [1, 1, 2, 9, 15, 16, 17, 255, 256, 257, 4095, 4096, 4097, 65527, 65528, 65529, 100000]
    def rsched(n):
        r, tot = [], 0
        style = rng.random()
        while tot < n and len(r) < 400:
            if style < 0.3:
                k = rng.choice(adversarial)
            elif style < 0.6:
                k = rng.randint(1, 40)
            elif style < 0.8:
                k = rng.randint(1, 70000)
            else:
                k = rng.choice([rng.randint(1, 20), rng.choice(adversarial), rng.randint(1, 5000)])
            r.append(k)
            tot += min(k, PIECE_MAX)
        if rng.random() < 0.3:
            r = r[:rng.randint(0, len(r))]
        return r
    def wsched(total):
        style = rng.random()
        if style < 0.3:
            return []
        if style < 0.5 and total <= 3000:
            return [1] * (total + 2)
        w, tot = [], 0
        while tot < total and len(w) < 300:
            k = rng.choice([1, 2, 3, 5, 6, 7, 100, 4096, 65536, rng.randint(1, 50), rng.randint(1, 100000)])
            w.append(k)
            tot += k
        return w
    nsmall = 2500 if quick else 30000
    for _ in range(nsmall):
        n = rng.choice([rng.randint(0, 40), rng.randint(0, 600), rng.randint(0, 5000)])
        d = ("x" + bytes(rng.choice([48, 13, 10, 0, 255, rng.randint(0, 255)]) for _ in range(n)).hex()) if n <= 64 and rng.random() < 0.5 \
            else "g%d_%d" % (rng.randint(0, 10**6), n)
        r = rsched(n)
        total = sum(chunk_len(p) for p in pieces_for(n, r)) + 5
        cases.append(case(d, r=r, w=wsched(total), pend=rng.randint(0, 3)))
    big = [200000, 65528 * 3, 1048576, 1048577] if quick else [200000, 65528 * 3, 1048576, 1048577] * 3 + [rng.randint(100000, 1048576) for _ in range(20)]
    for n in big:
        r = rsched(n) if rng.random() < 0.6 else []
        if len(pieces_for(n, r)) > 3000:
            r = []
        cases.append(case("g%d_%d" % (rng.randint(0, 10**6), n), r=r, w=rng.choice([[], [65536] * 3, [1, 70000, 3, 200000]]), pend=rng.randint(0, 3)))
    # ---- (c) reader error / premature end at every chunk boundary
    nerr = 120 if quick else 1500
    for _ in range(nerr):
        n = rng.randint(1, 300)
        r = rsched(n)
        ps = pieces_for(n, r)
        for j in range(0, len(ps) + 1):
            if j > 12 and rng.random() < 0.8:
                continue
            cases.append(case("g%d_%d" % (rng.randint(0, 10**6), n), r=ps[:j] + ["f"], w=rng.choice([[], [1] * 50, [3, 1, 4, 1, 5]]), pend=rng.randint(0, 3)))
            if rng.random() < 0.3:
                cases.append(case("g%d_%d" % (rng.randint(0, 10**6), n), r=ps[:j] + [0], pend=rng.randint(0, 3)))
    for n in (PIECE_MAX, PIECE_MAX + 1, 200000):
        cases.append(case("g1_%d" % n, r=[PIECE_MAX, "f"]))
        cases.append(case("g1_%d" % n, r=["f"]))
    # ---- (d) writer errors
    nw = 40 if quick else 300
    for _ in range(nw):
        n = rng.randint(0, 40)
        r = rsched(n)
        ps = pieces_for(n, r)
        total = sum(chunk_len(p) for p in ps) + 5
        d = "g%d_%d" % (rng.randint(0, 10**6), n)
        for off in range(0, total + 2):                      # every byte offset
            cases.append(case(d, r=r, w=rng.choice([[], [1] * 20, [2, 3, 1]]), budget=off, pend=rng.randint(0, 3)))
        ws = wsched(total)
        for i in range(0, min(len(ws), 12) + 1):             # error / Ok(0) at the i-th poll_write
            cases.append(case(d, r=r, w=ws[:i] + ["f"]))
            cases.append(case(d, r=r, w=ws[:i] + [0]))
            # an error of another kind (Interrupted, TimedOut) right after a short write: no retry, no restart of the chunk
            cases.append(case(d, r=r, w=ws[:i] + [rng.choice([1, 2, 3]), rng.choice(KINDS), 100000]))
        for i in range(0, min(len(r), 6) + 1):               # a source error of another kind before / between pieces
            cases.append(case(d, r=r[:i] + [rng.choice(KINDS)] + r[i:], w=rng.choice([[], [1] * 20])))
    # every error kind, as a source error (first read / between pieces / where end-of-stream would be) and as a sink error
    for k in KINDS:
        cases.append(case("g7_0", r=[k]))
        cases.append(case("g7_10", r=[k, 10]))
        cases.append(case("g7_10", r=[5, k, 5]))
        cases.append(case("g7_10", r=[5, 5, k]))
        cases.append(case("g7_70000", r=[65528, k, 4472]))
        cases.append(case("g7_10", r=[5, 5], w=[3, k]))
        cases.append(case("g7_10", r=[5, 5], w=[100, 100, k]))
    for _ in range(60 if quick else 800):                    # larger: around every chunk boundary
        n = rng.choice([rng.randint(100, 5000), rng.randint(60000, 140000)])
        r = rsched(n)
        ps = pieces_for(n, r)
        if len(ps) > 40:
            continue
        off, offs = 0, []
        for p in ps:
            offs += [off + hexlen(p) + 1, off + hexlen(p) + 2]      # inside / after the size line
            off += chunk_len(p)
            offs += [off - 1, off, off + 1]
        offs += [off + 4, off + 5]
        d = "g%d_%d" % (rng.randint(0, 10**6), n)
        for o in rng.sample(offs, min(len(offs), 8)):
            cases.append(case(d, r=r, w=rng.choice([[], [7, 100000], [65536]]), budget=o, pend=rng.randint(0, 3)))
    return cases


def _parts(c):
    t = c.split()
    return t[1], [x for x in t[2][2:].split(",") if x], [x for x in t[3][2:].split(",") if x], t[4], int(t[5])


def _dlen(d):
    return (len(d) - 1) // 2 if d[0] == "x" else int(d.split("_")[1])


def classify(c, model):
    d, r, w, b, p = _parts(c)
    n = _dlen(d)
    size = "0" if n == 0 else "<=600" if n <= 600 else "<=65528" if n <= PIECE_MAX else "<=200k" if n <= 200000 else ">200k"
    feats = []
    if "f" in r or "i" in r or "t" in r: feats.append("rerr")
    if "0" in r: feats.append("r0")
    if "f" in w or "i" in w or "t" in w: feats.append("wfail")
    if "0" in w: feats.append("w0")
    if b != "-": feats.append("budget")
    if w and all(x == "1" for x in w): feats.append("w1")
    if p: feats.append("pend")
    return "%s:n%s:%s" % (model.split()[0] if model else "?", size, "+".join(feats) or "plain")


def nontrivial(c, model):
    d, r, w, b, p = _parts(c)
    return _dlen(d) > 0 and not (r and r[0] in ("0", "f"))


def extra_evidence(results):
    # Appendix A boundaries of C07 hit in this run
    want = {1: 0, 0xf: 0, 0x10: 0, 0xff: 0, 0x100: 0, 0xfff: 0, 0x1000: 0, 0xfff7: 0, 0xfff8: 0}
    first0 = rerr_first = rerr_between = w1 = 0
    for r in results:
        d, rs, w, b, p = _parts(r[1])
        n = _dlen(d)
        if len(rs) == 1 and rs[0].isdigit() and int(rs[0]) == n and n in want:
            want[n] += 1
        if rs[:1] == ["0"]: first0 += 1
        if rs[:1] == ["f"]: rerr_first += 1
        if "f" in rs[1:]: rerr_between += 1
        if w and all(x == "1" for x in w): w1 += 1
    return dict(boundary_hits=dict(piece_lengths={("0x%x" % k): v for k, v in want.items()}, reader_zero_first=first0,
                                   reader_error_before_first_chunk=rerr_first, reader_error_between_chunks=rerr_between,
                                   writer_one_byte_per_call=w1))


def shrink(c):
    d, r, w, b, p = _parts(c)
    n = _dlen(d)
    def mk(d2, r2, w2, b2, p2):
        return "cc %s r:%s w:%s %s %d" % (d2, ",".join(r2), ",".join(w2), b2, p2)
    def dcut(m):
        if d[0] == "x":
            return "x" + d[1:1 + 2 * m]
        return d.split("_")[0] + "_" + str(m)
    if p:
        yield mk(d, r, w, b, 0)
    if b != "-":
        yield mk(d, r, w, "-", p)
    if w:
        yield mk(d, r, [], b, p)
    if r:
        yield mk(d, [], w, b, p)
    for m in (0, 1, n // 2, n * 3 // 4, n * 7 // 8, n - 4096, n - 256, n - 16, n - 1):
        if 0 <= m < n:
            yield mk(dcut(m), r, w, b, p)
            yield mk(dcut(m), [str(m)] if m else [], w, b, p)
    for i in range(len(r)):
        yield mk(d, r[:i] + r[i + 1:], w, b, p)
    for i in range(len(w)):
        yield mk(d, r, w[:i] + w[i + 1:], b, p)
    if d[0] == "g":
        yield mk("z41_%d" % n, r, w, b, p)


def neighbours(c, rng):
    d, r, w, b, p = _parts(c)
    n = _dlen(d)
    out = []
    for m in (n - 1, n + 1, 1, 15, 16, 255, 256, 4095, 4096, 65527, 65528):
        if m >= 0:
            out.append(case("z41_%d" % m, r=[m] if m else []))
    for k in (1, 2, 16, 256, 4096):
        out.append(case(d, r=[k] * min(50, n // k + 1)))
    return out
