"""C05 -- connection protocol-state contract: operation sequences x client scripts over a real
HttpConn on loop-back (the client has written its script and half-closed before the first call)."""
import itertools

RULE = ("case = client script (13 kinds of the quantifier: nothing+FIN, bodiless, small known body, body+pipelined request, "
        "Expect+body, unknown length, chunked, gzip, truncated body, garbage, pipelined bodiless, body-that-is-a-request) x "
        "operation sequence over {read_request, read_body_to_vec, read_body_to_file(dir ok/missing, max in {0,len-1,len,big}), "
        "write_http_continue, write_response(1xx|2xx|4xx|5xx|non-writable|conflicting header), shutdown_write}: all "
        "sequences of depth 2 (quick) / 3 (thorough) exhaustively plus seeded random sequences of depth 3..6. "
        "Non-trivial = at least one read_request succeeded; distinct by full case text.")
ASSUMPTIONS = ["loop-back TCP delivers written bytes to the peer before the write call returns (per-call wire deltas are read non-blocking)",
               "64-bit usize", "request targets in the scripts are plain paths (the url crate returns them verbatim)"]
EXHAUSTIVE = {"quick": False, "thorough": False}

def h(s):
    return "x" + s.encode("latin1").hex()

SCRIPTS = [
    ("nothing", ""),
    ("bodiless", "GET / HTTP/1.1\r\n\r\n"),
    ("small", "POST /u HTTP/1.1\r\nContent-Length: 5\r\n\r\nhello"),
    ("pipelined", "POST /u HTTP/1.1\r\nContent-Length: 5\r\n\r\nhelloGET /x HTTP/1.1\r\n\r\n"),
    ("expect", "POST /u HTTP/1.1\r\nContent-Length: 5\r\nExpect: 100-continue\r\n\r\nhello"),
    ("unknown", "POST /u HTTP/1.1\r\n\r\nabcde"),
    ("chunked", "POST /u HTTP/1.1\r\nTransfer-Encoding: chunked\r\n\r\n5\r\nhello\r\n0\r\n\r\n"),
    ("gzip", "POST /u HTTP/1.1\r\nTransfer-Encoding: gzip\r\nContent-Length: 5\r\n\r\nhello"),
    ("truncated", "POST /u HTTP/1.1\r\nContent-Length: 10\r\n\r\nhello"),
    ("garbage", "\x01\x02garbage\r\n\r\nGET / HTTP/1.1\r\n\r\n"),
    ("two", "GET /a HTTP/1.1\r\n\r\nGET /b?q=1 HTTP/1.1\r\n\r\n"),
    ("bodyreq", "POST /u HTTP/1.1\r\nContent-Length: 19\r\n\r\nGET /x HTTP/1.1\r\n\r\n"),
    ("expectget", "GET /e HTTP/1.1\r\nExpect: 100-continue\r\n\r\nxyzzy"),
    ("chunked-cl0", "POST /u HTTP/1.1\r\nTransfer-Encoding: chunked\r\nContent-Length: 0\r\n\r\nGET /x HTTP/1.1\r\n\r\n"),
    ("chunked-cl5", "POST /u HTTP/1.1\r\nContent-Length: 5\r\nTransfer-Encoding: chunked\r\n\r\nhelloGET /x HTTP/1.1\r\n\r\n"),
    ("gzip-cl0", "POST /u HTTP/1.1\r\nTransfer-Encoding: gzip\r\nContent-Length: 0\r\n\r\nGET /x HTTP/1.1\r\n\r\n"),
    ("cl0", "POST /u HTTP/1.1\r\nContent-Length: 0\r\n\r\nGET /x HTTP/1.1\r\n\r\n"),
    ("expect-cl0", "PUT /u HTTP/1.1\r\nExpect: 100-continue\r\nContent-Length: 0\r\n\r\nGET /x HTTP/1.1\r\n\r\n"),
]
SCRIPTS += [
    # request header fields that talk about the connection, next to Expect / a body: they change nothing about what the
    # interim response may do
    ("expect-conn-close", "POST /u HTTP/1.1\r\nConnection: close\r\nContent-Length: 5\r\nExpect: 100-continue\r\n\r\nhello"),
    ("conn-close", "GET /c HTTP/1.1\r\nConnection: close\r\n\r\nGET /d HTTP/1.1\r\n\r\n"),
    ("expect-keep-alive", "PUT /u HTTP/1.1\r\nconnection: keep-alive, Upgrade\r\nExpect: 100-continue\r\nContent-Length: 3\r\n\r\nabc"),
]
SCRIPTS_LONG = [
    # a body served from the connection buffer, then a pipelined head that fits the 8 KiB buffer only if the buffer
    # is compacted before it is read (6000 + 3000 > 8192)
    ("body-then-long-head", "POST /u HTTP/1.1\r\nContent-Length: 6000\r\n\r\n" + "b" * 6000 + "GET /x HTTP/1.1\r\nx-pad: " + "p" * 3000 + "\r\n\r\n"),
    ("long-head-twice", "GET /a HTTP/1.1\r\nx-pad: " + "p" * 5000 + "\r\n\r\nGET /b HTTP/1.1\r\nx-pad: " + "q" * 5000 + "\r\n\r\n"),
]
LONG_SEQS = ["RR BV WR 200 t RR", "RR BV WR 200 n RR WR 200 t", "RR BF 1 1000000 WR 200 t RR", "RR WR 200 t RR",
             "RR BV WR 100 n WR 200 t RR WR 200 t", "RR WR 200 t RR WR 200 t", "RR BV WR 500 cl WR 200 t RR"]
OPS = ["RR", "BV", "BF 1 0", "BF 1 4", "BF 1 5", "BF 1 1000000", "BF 0 100", "CO",
       "WR 100 n", "WR 200 n", "WR 200 t", "WR 404 t", "WR 500 n", "WR 200 d", "WR 200 cl", "WR 200 ct", "WR 200 te",
       "WR 200 fm", "WR 200 fs", "SH",
       # a response that is refused before its first byte although its status would close the connection
       "WR 500 cl", "WR 503 ct", "WR 500 te", "WR 404 cl",
       # the conflicting field twice
       "WR 200 cl2", "WR 200 ct2", "WR 200 te2"]
OPS_CORE = ["RR", "BV", "BF 1 4", "BF 1 5", "BF 0 100", "CO", "WR 100 n", "WR 200 t", "WR 500 n", "WR 200 d", "WR 200 cl", "WR 200 fm", "SH", "WR 500 cl"]

def gen(rng, tier):
    cases = ["tables"]
    depth = 2 if tier == "quick" else 3
    for name, sc in SCRIPTS:
        for seq in itertools.product(OPS if tier == "quick" else OPS_CORE, repeat=depth):
            cases.append("%s %s" % (h(sc), " ".join(seq)))
    # read a request first, then every pair / triple (reaches the interesting states)
    for name, sc in SCRIPTS:
        for seq in itertools.product(OPS_CORE, repeat=2):
            cases.append("%s RR %s" % (h(sc), " ".join(seq)))
    for name, sc in SCRIPTS_LONG:
        for seq in LONG_SEQS:
            cases.append("%s %s" % (h(sc), seq))
    nrand = 6000 if tier == "quick" else 300000
    for _ in range(nrand):
        name, sc = rng.choice(SCRIPTS)
        ln = rng.randint(3, 6)
        seq = []
        for _ in range(ln):
            r = rng.random()
            if r < 0.25:
                seq.append("RR")
            elif r < 0.45:
                seq.append(rng.choice(["BV", "BF 1 %d" % rng.choice([0, 4, 5, 9, 10, 18, 19, 20, 1000000, 18446744073709551615]), "BF 0 100"]))
            elif r < 0.9:
                seq.append(rng.choice([o for o in OPS if o.startswith("WR") or o == "CO"] +
                                      ["WR %d %s" % (rng.choice([100, 101, 199, 200, 204, 301, 399, 400, 499, 500, 503, 599, 600, 999]), rng.choice(["n", "t", "h"]))]))
            else:
                seq.append("SH")
        cases.append("%s %s" % (h(sc), " ".join(seq)))
    return cases

def classify(case, model):
    t = case.split()
    if t[0] == "tables":
        return "tables"
    data = bytes.fromhex(t[0][1:]).decode("latin1")
    name = next((n for n, s in SCRIPTS if s == data), "other")
    nops = sum(1 for x in t[1:] if x in ("RR", "BV", "BF", "CO", "WR", "SH"))
    return "%s:depth%d" % (name, nops)

def nontrivial(case, model):
    return model.startswith("req ") or " ; req " in model

def shrink(case):
    t = case.split()
    if t[0] == "tables":
        return
    ops, i = [], 1
    while i < len(t):
        k = {"BF": 3, "WR": 3}.get(t[i], 1)
        ops.append(t[i:i + k]); i += k
    for j in range(len(ops)):
        rest = ops[:j] + ops[j + 1:]
        if rest:
            yield "%s %s" % (t[0], " ".join(" ".join(o) for o in rest))
PREAMBLE = ["tables"]


def pre_proof():
    """The concrete instance (Model/ConnInst.v) uses the error->response table that the C20 translator
    regenerates from the CURRENT source tree; regenerate it before building, so that a run against
    another tree (VERIF_REPO) never leaves a stale table behind."""
    import c20 as _c20
    _c20.pre_proof()
    return []
