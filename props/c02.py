"""C02 -- parsed head is faithful to the bytes sent: generator, classification, shrinking, evidence.

Case syntax (harness/src/bin/c01.rs, included by c02.rs):
  mk  N <method> <target> <k> (<name> <ows1> <value> <ows2>)*k <rest>   structured head, rendered strictly
  try N rd <bytes>                                                       arbitrary bytes in the buffer
"""
import os
import re

RULE = ("corpus (D2 witnesses) first; 'mk' cases: heads rendered from the RFC 7230 section 3 grammar -- every tchar and "
        "every ASCII neighbour in method and field name, every byte 0..255 at start/middle/end of a value, OWS of length "
        "0/1/2 on both sides, 0..40 fields, canonical origin-form targets (random, with pct-encoding, empty segments, "
        "queries) and non-canonical ones (dot segments, backslash, //authority, bytes the url crate escapes, non-UTF-8); "
        "'try' cases: the line-end leniencies (bare LF, one/several CR before LF, CR next to a value), SP/HTAB/double SP in "
        "the request line, version variants, and all 1- and 2-byte substitutions/insertions/deletions of rendered heads "
        "at sampled positions. Non-trivial = the model accepted the head with at least one field, or rejected it with "
        "a parse error (not Truncated); distinct by full case text.")
ASSUMPTIONS = [
    "url_canonical (Section hypothesis of c02_parse_render_roundtrip): for canonical origin-form targets the url crate "
    "returns path and query verbatim -- evaluated by the driver on every canonical target of every case (count in evidence)",
    "url_parse is instantiated per case with what the real url crate returned (logged by the harness)",
    "safe-regex full-match semantics of the two literals in src/head.rs (hand-transcribed recognisers; the literal text is pinned, see regex_literals_unchanged)",
]
HARNESS_BIN = "c02"
EXHAUSTIVE = {"quick": False, "thorough": False}
TRUSTED_EXTRA = ["url crate results enter the model as a logged table (Section variable url_parse)"]

CRLF2 = b"\r\n\r\n"
TCHARS = b"!#$%&'*+-.^_`|~0123456789abcdefghijklmnopqrstuvwxyzABCDEFGHIJKLMNOPQRSTUVWXYZ"
NEIGHBOURS = b"\"(),/:;<=>?@[\\]{} \t\x7f\x00\x80\r\n"
REGEX1 = r"""regex!(br"([-!#$%&'*+.^_`|~0-9A-Za-z]+) ([^ \t\r\n]+) ([^ \t\r\n]+)")"""
REGEX2 = r"""regex!(br"([-!#$%&'*+.^_`|~0-9A-Za-z]+):[ \t]*(.*)[ \t]*")"""
TAGS = {}


def x(b):
    return "x" + bytes(b).hex()


def unx(t):
    return bytes.fromhex(t[1:])


def tag(c, *tags):
    TAGS.setdefault(c, []).extend(tags)
    return c


def mk(cap, m, t, fields, rest=b"", tags=()):
    """fields: list of (name, ows1, value, ows2)"""
    c = "mk %d %s %s %d" % (cap, x(m), x(t), len(fields))
    for f in fields:
        c += " %s %s %s %s" % tuple(x(p) for p in f)
    c += " " + x(rest)
    return tag(c, *tags)


def render(m, t, fields, rest=b""):
    out = m + b" " + t + b" HTTP/1.1"
    for (n, o1, v, o2) in fields:
        out += b"\r\n" + n + b":" + o1 + v + o2
    return out + CRLF2 + rest


def try_case(cap, data, tags=()):
    return tag("try %d 0 %s" % (cap, x(data)), *tags)


def cap_for(n):
    return 32 if n <= 32 else 200 if n <= 200 else 8192


# ------------------------------------------------------------------ grammar
UNRES = b"abcxyzABCXYZ0189-._~"
SUB = b"!$&'()*+,;="
DOTS = [b".", b"%2e", b"%2E"]


def is_dot(s):
    return s in DOTS or s in [a + b for a in DOTS for b in DOTS]


def canonical_target(rng):
    while True:
        segs = []
        for _ in range(rng.randint(1, 4)):
            s = b""
            for _ in range(rng.randint(0, 5)):
                r = rng.random()
                if r < 0.15:
                    s += b"%" + bytes(rng.choice(b"0123456789abcdefABCDEF") for _ in range(2))
                elif r < 0.3:
                    s += b"."
                else:
                    s += bytes([rng.choice(UNRES + SUB + b":@")])
            segs.append(s)
        if any(is_dot(s) for s in segs):
            continue
        p = b"/" + b"/".join(segs)
        if p.startswith(b"//"):
            continue
        if rng.random() < 0.5:
            q = b""
            for _ in range(rng.randint(0, 6)):
                if rng.random() < 0.15:
                    q += b"%" + bytes(rng.choice(b"0123456789abcdefABCDEF") for _ in range(2))
                else:
                    q += bytes([rng.choice(UNRES + b"!$&()*+,;=:@/?")])
            return p + b"?" + q
        return p


NONCANONICAL = [b"/a/./b", b"/a/../b", b"/..", b"/.", b"/%2e", b"/%2E%2e/x", b"/.%2e", b"/a\\b", b"//host/p", b"//", b"/a b".replace(b" ", b"%20"),
                b"/a\"b", b"/a<b>", b"/a`b", b"/a{b}", b"/a|b", b"/a^b", b"/?q='x'", b"/?a b".replace(b" ", b"+"), b"/#frag", b"/a?b#c",
                b"/%", b"/%4", b"/%zz", b"/\xc3\xa9", b"/\xff", b"/\xc3", b"/?\xc3\xa9", b"/a[b]", b"/\x7f", b"/\x01", b"/*", b"*", b"a", b"http://h/p",
                b"/a?b?c", b"/:@", b"/a//b", b"/a/", b"/?", b"/a;p=1", b"/%41"]


def rand_token(rng, lo=1, hi=8):
    return bytes(rng.choice(TCHARS) for _ in range(rng.randint(lo, hi)))


FV = bytes(range(0x21, 0x7f))


def rand_value(rng, hi=12):
    n = rng.randint(0, hi)
    if n == 0:
        return b""
    v = bytearray(rng.choice(FV + b"  \t") for _ in range(n))
    v[0] = rng.choice(FV)
    v[-1] = rng.choice(FV)
    return bytes(v)


OWS = [b"", b" ", b"\t", b"  ", b" \t", b"\t\t"]


def rand_fields(rng, k):
    return [(rand_token(rng), rng.choice(OWS), rand_value(rng), rng.choice(OWS)) for _ in range(k)]


def mutate(rng, b, nmut):
    b = bytearray(b)
    for _ in range(nmut):
        op = rng.random()
        pos = rng.randrange(len(b) + 1)
        val = rng.choice([0, 9, 10, 13, 32, 58, 47, 127, 128, 255, 0x22, 0x28, 0x40, 0x5b, 0x7b, rng.randrange(256), rng.randrange(256)])
        if op < 0.45 and pos < len(b):
            b[pos] = val
        elif op < 0.75:
            b.insert(pos, val)
        elif pos < len(b):
            del b[pos]
    return bytes(b)


def gen(rng, tier):
    TAGS.clear()
    cs = []
    big = tier != "quick"
    # --- Appendix A: each tchar and its ASCII neighbours in method and field name
    for c in TCHARS + NEIGHBOURS:
        ch = bytes([c])
        kind = "tchar" if c in TCHARS else "neighbour"
        for m in (ch, b"A" + ch, ch + b"Z", b"A" + ch + b"Z"):
            cs.append(mk(200, m, b"/", [], b"", ["method-" + kind]))
            cs.append(mk(200, b"GET", b"/p", [(m, b" ", b"v", b"")], b"R", ["name-" + kind]))
    cs.append(mk(8192, TCHARS, b"/", [(TCHARS, b"", FV, b"")], b"", ["all-tchars", "all-vchars"]))
    # --- the method the HANDLER is given (the connection task, handle_http_conn over loop-back): verbatim, whatever it is
    for m in (b"GET", b"HEAD", b"head", b"Head", b"HEADS", b"OPTIONS", b"TRACE", b"CONNECT", b"PATCH", b"DELETE", b"PUT", b"M",
              b"get", b"G-E_T", b"!#$%&'*+-.^_`|~", b"POST"):
        cs.append("task n %s" % x(m + b" /t HTTP/1.1\r\n\r\n"))
    # --- heads of 0.2 .. 3.4 KiB with nothing behind them in the case: the harness sends a second, long message behind
    # each (request level) that fits the buffer only after compaction
    for k in (150, 300, 700, 1000, 1500, 2000, 2500, 3000, 3300, 3400):
        cs.append(mk(8192, b"GET", b"/first", [(b"x-a", b" ", b"v" * k, b""), (b"x-b", b"", b"w", b" ")], b"", ["second-message-behind"]))
        cs.append(mk(8192, b"DELETE", b"/f?q=%d" % k, [(b"n%d" % i, b" ", b"v" * (k // 10), b"") for i in range(10)], b"", ["second-message-behind"]))
    # --- a byte >= 0x80 at every offset of a long value: rejected (never a panic in the error path, never accepted)
    for off in list(range(60, 140)) + [255, 256, 1023, 1024]:
        for hi in (b"\xe9", b"\xc3\xa9", b"\x80"):
            cs.append(try_case(8192, b"GET / HTTP/1.1\r\nx-v: " + b"a" * off + hi + b"tail" * 30 + b"\r\n\r\nR", ["high-byte-in-long-value"]))
    # --- every byte value at start / middle / end of a value, and alone
    for c in range(256):
        ch = bytes([c])
        for v in (ch, ch + b"ab", b"a" + ch + b"b", b"ab" + ch):
            cs.append(mk(200, b"G", b"/", [(b"A", b" ", v, b"")], b"", ["value-byte"]))
        cs.append(mk(200, b"G", b"/", [(b"A", b"", b"x", b""), (b"B", b"\t", b"a" + ch + b"b", b" ")], b"T", ["value-byte"]))
    # --- OWS of length 0, 1, 2 on both sides; value containing ':'; empty value
    for o1 in OWS:
        for o2 in OWS:
            for v in (b"v", b"a:b", b"", b"a b\tc", b":", b"::a"):
                cs.append(mk(200, b"GET", b"/", [(b"Name", o1, v, o2)], b"", ["ows-%d-%d" % (len(o1), len(o2))]))
    # --- 0..40 fields
    for k in list(range(0, 6)) + [10, 20, 39, 40]:
        fs = rand_fields(rng, k)
        n = len(render(b"POST", b"/x", fs))
        cs.append(mk(cap_for(n), b"POST", b"/x", fs, b"", ["fields-%d" % k]))
    # --- request level (cap 8192 only: read_http_request uses the connection's 8 KiB buffer): heads with 0..12 fields in
    #     random order containing 0..3 of the fields the library consumes (content-type, expect, transfer-encoding; any
    #     letter case, also repeated) and framing / cookie fields; the request must expose the head's fields in the order sent
    cons = [(b"content-type", b"text/plain"), (b"Content-Type", b"application/json"), (b"CONTENT-TYPE", b"a/b"),
            (b"expect", b"100-continue"), (b"Expect", b"other"), (b"transfer-encoding", b"gzip"),
            (b"Transfer-Encoding", b"chunked"), (b"transfer-encoding", b"gzip, chunked"), (b"transfer-encoding", b"identity")]
    other = [(b"host", b"h"), (b"Via", b"1.1 a"), (b"via", b"1.1 b"), (b"x-a", b"1"), (b"X-A", b"2"), (b"accept", b"*/*"),
             (b"content-length", b"0"), (b"content-length", b"5"), (b"cookie", b"a=b"), (b"Cookie", b"c=d; e=f"), (b"cookie", b"bad")]
    for _ in range(2500 if not big else 60000):
        k = rng.randint(0, 12)
        fs = []
        for _ in range(k):
            n, v = rng.choice(cons) if rng.random() < 0.35 else rng.choice(other)
            fs.append((n, rng.choice(OWS), v, rng.choice(OWS)))
        cs.append(mk(8192, rng.choice([b"GET", b"POST", b"PUT", b"DELETE"]), canonical_target(rng), fs, rng.choice([b"", b"X"]), ["request-level"]))
    # --- targets
    for t in NONCANONICAL:
        cs.append(mk(200, b"GET", t, [(b"H", b" ", b"v", b"")], b"", ["target-noncanonical"]))
    for _ in range(4000 if not big else 100000):
        cs.append(mk(200, rand_token(rng), canonical_target(rng), rand_fields(rng, rng.randint(0, 3)), rng.choice([b"", b"X", b"G / HTTP/1.1\r\n\r\n"]), ["target-canonical"]))
    # --- request line: SP vs HTAB vs double SP; version variants; line-end leniencies (raw bytes)
    for sep1 in (b" ", b"\t", b"  ", b""):
        for sep2 in (b" ", b"\t", b"  ", b""):
            cs.append(try_case(200, b"GET" + sep1 + b"/" + sep2 + b"HTTP/1.1" + CRLF2, ["reqline-sep"]))
    for ver in (b"HTTP/1.0", b"HTTP/1.1", b"HTTP/1.10", b"http/1.1", b"HTTP/1.1 ", b"HTTP/2", b"HTTP/1.1\t", b"X", b"",
                # the version is a spelling, not two numbers: nothing that merely parses as 1 and 1 is HTTP/1.1
                b"HTTP/01.1", b"HTTP/1.01", b"HTTP/+1.1", b"HTTP/1.+1", b"HTTP/001.001", b"HTTP/1.1.", b"HTTP/1,1", b"HTTP/ 1.1",
                b"HTTP/1.1\x00", b"HTTP/1. 1", b"HTTP/-1.1", b"HTTP/1.-1", b"HTTP/257.1", b"HTTP/1.257", b"HTTP/1.1e0", b"HTTP/0x1.1",
                b"HTTP/1", b"HTTP/1.", b"HTTP/.1", b"HTTP//1.1", b"HTTP1.1", b"HTTPS/1.1", b"HTTP/\xef\xbc\x91.1"):
        cs.append(try_case(200, b"GET / " + ver + CRLF2, ["version"]))
        cs.append(try_case(200, b"GET / " + ver + b"\r\nA: b" + CRLF2, ["version"]))
    for le in (b"\r\n", b"\n", b"\r\r\n", b"\r\r\r\n", b"\n\r", b"\r"):
        cs.append(try_case(200, b"GET / HTTP/1.1" + le + b"A: b" + le + b"C: d" + CRLF2, ["line-end"]))
        cs.append(try_case(200, b"GET / HTTP/1.1\r\nA: b" + le + b"C:d" + le + CRLF2, ["line-end"]))
        cs.append(try_case(200, b"GET / HTTP/1.1\r\nA:" + le + b"b" + CRLF2, ["line-end"]))
    for v in (b" \t\rb", b"b \t\r", b"\rb\r", b"b\rc", b"b\x00c", b"\r", b"\r\r", b"b\r \r", b"\x0bb", b"b\x0c"):
        cs.append(try_case(200, b"M / HTTP/1.1\r\na:" + v + CRLF2, ["cr-next-to-value"]))
    # --- 1- and 2-byte substitutions / insertions / deletions of rendered heads at sampled positions
    nbase = 100 if not big else 3000
    for _ in range(nbase):
        base = render(rng.choice([b"GET", b"POST", rand_token(rng)]), canonical_target(rng), rand_fields(rng, rng.randint(0, 4)))
        if len(base) > 190:
            continue
        for _ in range(60):
            for nm in (1, 2):
                cs.append(try_case(200, mutate(rng, base, nm) + rng.choice([b"", b"XY"]), ["mutation-%d" % nm]))
    # systematic single-byte substitution over all 256 values on one short head
    base = b"GET /p?q HTTP/1.1\r\nHo: a b\r\n\r\n"
    for pos in range(len(base)):
        for v in range(256):
            if v != base[pos]:
                cs.append(try_case(32, base[:pos] + bytes([v]) + base[pos + 1:], ["subst-all-256"]))
    return cs


def _outcome(model):
    m = model.split(";;", 1)[1].strip() if ";;" in model else model
    t = m.split()
    if not t:
        return "?"
    if t[0] == "ok":
        return "ok-" + ("fields" if t[4] != "H0" else "nofields")
    if t[0] == "err":
        return "err-" + t[1]
    return t[0]


def classify(case, model):
    return "%s:%s" % (case.split()[0], _outcome(model))


def nontrivial(case, model):
    o = _outcome(model)
    return o == "ok-fields" or (o.startswith("err-") and o != "err-Truncated")


def regex_literals_unchanged():
    repo = os.environ.get("VERIF_REPO", "/repo")
    try:
        src = open(os.path.join(repo, "src", "head.rs")).read()
    except OSError:
        return False
    lits = re.findall(r'regex!\(br".*?"\)', src)
    return lits == [REGEX1, REGEX2]


def extra_evidence(results):
    hits = {}
    uc = 0
    for r in results:
        for tg in TAGS.get(r[1], ()):
            hits[tg] = hits.get(tg, 0) + 1
        for tok in r[4].split():
            if tok.startswith("uc="):
                uc += int(tok[3:])
    ok = regex_literals_unchanged()
    ev = dict(appendix_a_boundary_hits=hits, url_canonical_hypothesis_evaluations=uc, regex_literals_unchanged=ok)
    if not ok:
        ev["regex_literal_warning"] = ("the regex!(br\"...\") literals of src/head.rs differ from the text the hand-written "
                                       "recognisers of Model/Head.v were transcribed from; the recogniser = pattern tie "
                                       "(c02_request_line_recogniser / c02_field_line_recogniser) no longer speaks about this code")
    return ev


# ------------------------------------------------------------------ shrinking
def _byte_shrinks(b):
    n = len(b)
    out = []
    k = n // 2
    while k >= 1:
        for i in range(0, n, k):
            out.append(b[:i] + b[i + k:])
        k //= 2
    return out


def shrink(case):
    t = case.split()
    if t[0] == "mk":
        cap, m, tg, k = t[1], unx(t[2]), unx(t[3]), int(t[4])
        fs = [tuple(unx(p) for p in t[5 + 4 * i: 9 + 4 * i]) for i in range(k)]
        rest = unx(t[5 + 4 * k])
        data = render(m, tg, fs, rest)
        if len(data) <= int(cap):
            yield "try %s 0 %s" % (cap, x(data))
        for i in range(k):
            yield mk(int(cap), m, tg, fs[:i] + fs[i + 1:], rest)
        if rest:
            yield mk(int(cap), m, tg, fs, b"")
        if len(m) > 1:
            yield mk(int(cap), m[:1], tg, fs, rest)
        if tg != b"/":
            yield mk(int(cap), m, b"/", fs, rest)
    elif t[0] == "try":
        cap, rd, buf = t[1], int(t[2]), unx(t[3])
        if cap != "32" and len(buf) <= 32:
            yield "try 32 0 %s" % x(buf)
        for b in _byte_shrinks(buf):
            yield "try %s 0 %s" % (cap, x(b))
        # simplify bytes towards 'a' where the failure persists
        for i in range(len(buf)):
            if buf[i] not in (0x61, 13, 10, 32, 58, 47):
                yield "try %s 0 %s" % (cap, x(buf[:i] + b"a" + buf[i + 1:]))


def neighbours(case, rng):
    t = case.split()
    if t[0] == "mk":
        k = int(t[4])
        fs = [tuple(unx(p) for p in t[5 + 4 * i: 9 + 4 * i]) for i in range(k)]
        data = render(unx(t[2]), unx(t[3]), fs, unx(t[5 + 4 * k]))
    else:
        data = unx(t[3])
    if len(data) > 200 or not data:
        return
    for _ in range(250):
        yield try_case(200, mutate(rng, data, rng.choice([1, 1, 2])))
