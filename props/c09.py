"""C09 -- body size limits: the S x M x L x declared x expect x cache-dir grid of the quantifier,
through servlin::internal::handle_http_conn over loop-back (harness and driver shared with C04)."""
import itertools
RULE = ("the quantifier's grid: S in {0,1,100,65536} x M in {0,1,S-1,S,S+1,70000,2^63,2^64-1} x L in {0,1,S-1,S,S+1,M-1,M,M+1,M+2} "
        "(L <= 70002) x {declared, undeclared} x {Expect, none} x {cache dir ok, not configured, missing} x handler idiom "
        "{fetch-body(M), Request::recv_body(M)}; body content pseudo-random; debug AND release builds. thorough = the whole grid, "
        "quick = a seeded sample. Non-trivial = the body is non-empty; distinct by case text.")
ASSUMPTIONS = ["bytes buffered in memory / written to disk are bounded by the theorems c09_memory_bound / c09_disk_bound of the model; "
               "the check observes them through the length of the body view handed to the handler",
               "64-bit usize"]
MARKED = True
PREAMBLE = ["tables"]
HARNESS_BIN = "c04"
DRIVER_PID = "C04"
PROFILES = ["release", "debug"]
EXHAUSTIVE = {"quick": False, "thorough": True}

def hx(s):
    return "x" + s.encode("latin1").hex()

def cell(S, M, L, declared, expect, cache, kind, seed):
    path = "/%s%d" % ({"g": "g", "r": "r", "v": "gv"}[kind], M)   # v: like g, the body taken by Vec::try_from
    head = "POST %s HTTP/1.1\r\n" % path
    if expect:
        head += "Expect: 100-continue\r\n"
    if declared:
        head += "Content-Length: %d\r\n" % L
    head += "\r\n"
    body = "g%d,%d" % (L, seed)
    script = hx(head) + ("+" + body if L > 0 else "")
    return "D %d %s %s @c09 %d %d %d %d %s %s" % (S, cache, script, S, M, L, 1 if declared else 0, kind, body if L > 0 else "x")

def grid():
    out = []
    for S in (0, 1, 100, 65536):
        Ms = sorted(set(m for m in (0, 1, S - 1, S, S + 1, 70000, 2**63, 2**64 - 1) if m >= 0))
        for M in Ms:
            Ls = sorted(set(l for l in (0, 1, S - 1, S, S + 1, M - 1, M, M + 1, M + 2) if 0 <= l <= 70002))
            for L in Ls:
                for declared in (True, False):
                    for expect in (False, True):
                        for cache in ("ok", "-", "missing"):
                            for kind in ("g", "r", "v"):
                                out.append((S, M, L, declared, expect, cache, kind))
    return out

def gen(rng, tier):
    g = grid()
    cases = ["tables"]
    if tier == "quick":
        # all boundary cells of the small thresholds, a sample of the 65536 ones (they are slow)
        small = [c for c in g if c[0] < 65536 and c[2] <= 200 and c[5] == "ok"]
        rest = [c for c in g if not (c[0] < 65536 and c[2] <= 200 and c[5] == "ok")]
        rng.shuffle(rest)
        sel = small + rest[:160]
    else:
        sel = g
    for c in sel:
        cases.append(cell(*c, seed=rng.randint(1, 10**6)))
    # the same cells through a full server built with HttpServerBuilder (mode S; the builder's setters in both orders):
    # thresholds below the 8 KiB connection buffer with lengths between threshold and buffer
    for S in (1, 100, 101, 4096):
        for M in (S + 1, 9000):
            for L in (S, S + 1, 200, 5000, 8192, 8193):
                for kind in ("g", "r", "v"):
                    c = cell(S, M, L, True, False, "ok", kind, seed=rng.randint(1, 10**6))
                    if tier == "quick" and rng.random() < 0.5:
                        continue
                    t = c.split(" ", 3)          # D <S> <cache> <rest>
                    cases.append("S %s %s 0 0 %s" % (t[1], t[2], t[3]))
    # an accepted upload held by a handler while ANOTHER server instance is started on the same cache directory (mode T)
    for (S, L) in ((100, 5000), (4, 70000)):
        for kind in ("g", "v"):
            c = cell(S, L + 1000, L, True, False, "ok", kind, seed=rng.randint(1, 10**6))   # (a limit starting with 5 would be the /g5 path)
            t = c.split(" ", 3)
            cases.append("T %s %s 0 0 %s" % (t[1], t[2], t[3]))
    # "equals byte for byte what the client sent" under a disk write fault while the body is saved (mode X of the
    # shared harness, see props/c10.py): the handler must never be handed a shortened body
    import c10 as _c10
    faults = []
    for L in (200, 7000, 70000, 131073):
        for lim in (0, 4096, 65536, L - 1):
            if lim < L:
                for declared in (True, False):
                    faults.append("X 100 ok %d %s" % (lim, _c10.upload("/g%d" % (L + 5), L, L, declared, False, rng.randint(1, 10**6), False)))
    # the cases of one run are served by ONE process: a transfer that died with a write error is followed by
    # ordinary uploads (state kept across transfers -- a recycled copy buffer, say -- must not leak into them)
    mixed = []
    for i, fcase in enumerate(faults):
        mixed.append(fcase)
        for (L, declared) in ((7000, True), (300, False), (70000, i % 2 == 0)):
            # an ordinary upload saved to disk right after the faulty one (annotated like a grid cell: S M L declared kind body)
            mixed.append(cell(100, L + 5, L, declared, False, "ok", "g", 1000 + i))
    return cases + mixed

import c04 as _c04
corr_equal = _c04.corr_equal


def classify(case, model):
    t = case.split()
    if t[0] == "tables":
        return "tables"
    if t[0] == "X":
        return "write-fault"
    a = t[t.index("@c09") + 1:]
    S, M, L = int(a[0]), int(a[1]), int(a[2])
    return "S=%d:%s:%s:%s" % (S, "L<=S" if L <= S else "L>S", "L<=M" if L <= M else "L>M", "declared" if a[3] == "1" else "undeclared")

def nontrivial(case, model):
    t = case.split()
    return t[0] == "X" or (t[0] in ("D", "S", "T") and int(t[t.index("@c09") + 3]) > 0)


def pre_proof():
    """The concrete instance (Model/ConnInst.v) uses the error->response table that the C20 translator
    regenerates from the CURRENT source tree; regenerate it before building, so that a run against
    another tree (VERIF_REPO) never leaves a stale table behind."""
    import c20 as _c20
    _c20.pre_proof()
    return []
