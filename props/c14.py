"""C14 -- header collections: case generator and evidence rules."""
import itertools

RULE = ("'ops' cases: sequences over {add,get_only,get_all,remove_only,remove_all} on names from a 3-name x 2-case pool "
        "(exhaustive to the stated depth in quick/thorough, then random longer ones); 'ascii' cases: every AsciiString "
        "constructor on ASCII / non-ASCII text; 'req' cases: a field list as sent, through read_http_request -- every order of "
        "0..3 ordinary fields with 0..3 consumed fields (exhaustive), random requests with 0..12 fields -- the exposed header "
        "list must be the sent list minus the consumed fields, in order. Non-trivial = the sequence contains a lookup or removal issued when at "
        "least one field is present (distinct by full case text).")
ASSUMPTIONS = ["Vec::remove / push semantics as modelled (firstn/skipn)", "str::eq_ignore_ascii_case = equality of ASCII-lowercased bytes"]
EXHAUSTIVE = {"quick": False, "thorough": False}

NAMES = ["a", "A", "b", "B", "c", "C"]
VALS = ["1", "2", "3", "4", "5", "6", "7", "8"]

def tok(s):
    return "x" + s.encode("latin1").hex()

def op_str(op):
    if op[0] == "A":
        return "A %s %s" % (tok(op[1]), tok(op[2]))
    return "%s %s" % (op[0], tok(op[1]))

def all_ops(vi):
    ops = []
    for n in NAMES:
        ops.append(("A", n, VALS[vi % len(VALS)]))
    for k in "GLRX":
        for n in ["a", "A", "b"]:
            ops.append((k, n))
    return ops

def gen(rng, tier):
    cases = []
    # D11 witness first (also in corpus)
    # 1. exhaustive: a prefix of adds (every multiset shape) followed by every op pair
    depth_adds = 4 if tier == "quick" else 5
    for k in range(0, depth_adds + 1):
        for names in itertools.product(["a", "A", "b"], repeat=k):
            adds = [("A", n, VALS[i]) for i, n in enumerate(names)]
            for tail in itertools.product([(o, n) for o in "GLRX" for n in ["a", "B"]], repeat=2 if tier == "quick" else 3):
                cases.append("ops " + " ".join(op_str(o) for o in adds + list(tail)))
    # 2. random longer sequences, including interleaved adds/removes on collections up to ~12 fields
    nrand = 3000 if tier == "quick" else 200000
    for _ in range(nrand):
        ln = rng.randint(3, 14)
        ops = []
        vi = 0
        for _ in range(ln):
            r = rng.random()
            if r < 0.5:
                name = rng.choice(NAMES)
                if rng.random() < 0.1:
                    name = rng.choice(["content-length", "Content-Length", "x-y", "X-Y", "", "aa", "aA"])
                val = VALS[vi % 8] + ("" if rng.random() < 0.8 else rng.choice(["", " x", "Z", "\x7f", "\x00"]))
                vi += 1
                ops.append(("A", name, val))
            else:
                ops.append((rng.choice("GLRX"), rng.choice(NAMES + ["aa", "", "X-y"])))
        cases.append("ops " + " ".join(op_str(o) for o in ops))
    # 2b. case-insensitive matching is equality of ASCII-lower-cased bytes and nothing else: every
    #     pair of one-character names over all 128 ASCII values (exhaustive), plus multi-character
    #     names differing by 0x20 in a non-letter position ('^'/'~', '_'/DEL, '|'/'\\', '['/'{', '@'/'`')
    for a in range(128):
        for b in range(128):
            if a == b or (a ^ b) == 0x20 or tier != "quick" or (a * 131 + b) % 7 == 0:
                cases.append("ops A x%02x x31 G x%02x X x%02x" % (a, b, b))
    for x, y in [("x-sig^", "x-sig~"), ("a_b", "a\x7fb"), ("p|q", "p\\q"), ("k[", "k{"), ("k]", "k}"), ("@t", "`t"), ("Ab-1", "aB-1"), ("z!", "z\x01")]:
        cases.append("ops A %s x31 A %s x32 L %s G %s X %s L %s" % (tok(x), tok(y), tok(x), tok(y), tok(x), tok(y)))
    # 3. AsciiString constructors
    texts = [[], [97], [0], [127], [128], [255], [256], [0x20AC], [0x10FFFF], [97, 128], [128, 97], [97, 98, 99],
             [97, 0xE9, 98], [0x7F, 0x80], [65, 0xD7FF], [0xE000]]
    for _ in range(200 if tier == "quick" else 5000):
        ln = rng.randint(1, 6)
        t = []
        for _ in range(ln):
            r = rng.random()
            t.append(rng.randint(0, 127) if r < 0.7 else rng.choice([128, 129, 255, 256, 0x7FF, 0x800, 0xFFFF, 0x10000, 0x10FFFF, rng.randint(128, 0xD7FF)]))
        texts.append(t)
    for t in texts:
        for ctor in ["string", "refstring", "str", "mutstr", "boxstr", "cowb", "cowo"]:
            cases.append("ascii %s u%s" % (ctor, ",".join(map(str, t))))
        if len(t) >= 1:
            cases.append("ascii char u%d" % t[0])
    # 3b. repeated fields with the SAME spelling and the SAME value (a lookup must count fields, not distinct
    #     name/value pairs), and long collections (33..80 fields: removal must stay order-preserving at any size)
    for name in ("a", "A", "accept"):
        for k in (2, 3):
            same = [("A", name, "v")] * k
            for tail in ([("G", name)], [("L", name)], [("R", name)], [("X", name)], [("A", "b", "w"), ("G", name)],
                         [("G", name.swapcase())]):
                cases.append("ops " + " ".join(op_str(o) for o in same + tail))
            cases.append("ops " + " ".join(op_str(o) for o in [("A", name, "v"), ("A", "b", "w"), ("A", name, "v"), ("G", name), ("R", name), ("L", name)]))
            cases.append("ops " + " ".join(op_str(o) for o in [("A", name, "p1"), ("A", name.swapcase(), "p2"), ("A", name, "p1"), ("G", name), ("X", name)]))
    for n in (33, 34, 40, 64, 80) if tier == "quick" else (20, 21, 32, 33, 34, 40, 50, 64, 65, 80, 128, 200):
        for rep in range(2 if tier == "quick" else 5):
            ops = []
            for i in range(n):
                nm = rng.choice(["a", "A", "b", "c", "x-%d" % i, "x-%d" % i])
                ops.append(("A", nm, "%d" % i))
            for q in (("L", "a"), ("X", "a"), ("R", "b"), ("X", "c"), ("L", "x-1")):
                ops.append(q)
            cases.append("ops " + " ".join(op_str(o) for o in ops))
            fields = [(rng.choice(["content-type", "host", "x-%d" % i, "via", "expect", "Via"]), "v%d" % i) for i in range(n)]
            fields[rng.randrange(n // 2)] = ("transfer-encoding", "gzip")
            cases.append(req_case("GET", [(a, b if a not in ("content-type", "expect") else {"content-type": "text/plain", "expect": "100-continue"}[a]) for a, b in fields]))
    # 4. request level ("the header list a handler sees is the list the client sent, in order, minus the consumed
    #    fields"): every order of 0..3 ordinary fields with 0..3 of the consumed fields (exhaustive), then random requests
    #    with 0..12 fields, repeated and case-varied consumed names, adjacent consumed fields
    ordinary = [("host", "h"), ("Via", "1.1 a"), ("via", "1.1 b")]
    consumed = [("content-type", "text/plain"), ("Content-Type", "text/html"), ("Expect", "100-continue"),
                ("transfer-encoding", "gzip")]
    seen = set()
    for c in range(0, 4):
        for cs in itertools.combinations(consumed, c):
            for n in range(0, 4):
                for perm in itertools.permutations(list(cs) + ordinary[:n]):
                    case = req_case("POST" if (c + n) % 2 else "GET", perm)
                    if case not in seen:
                        seen.add(case)
                        cases.append(case)
    pool_c = consumed + [("CONTENT-TYPE", "a/b"), ("expect", "other"), ("EXPECT", "100-continue"),
                         ("Transfer-Encoding", "chunked"), ("transfer-encoding", "identity"), ("TRANSFER-ENCODING", "gzip, chunked")]
    pool_o = ordinary + [("x-a", "1"), ("X-A", "2"), ("accept", "*/*"), ("content-length", "0"), ("cookie", "a=b"),
                         ("content-typ", "x"), ("expectt", "y"), ("transfer-encodin", "z"), ("x-content-type", "w")]
    # bytes >= 0x80 in a field value or name (Latin-1 and UTF-8 sequences, at the start / middle / end): never exposed
    for v in ("Jos\xe9", "caf\xc3\xa9", "\x80", "a\xffb", "x\xc2\xa0", "\xe2\x82\xac1"):
        for pos in range(3):
            fields = [("host", "h"), ("x-a", "1"), ("via", "p")]
            fields[pos] = (fields[pos][0], v)
            cases.append(req_case("GET", fields))
        cases.append(req_case("POST", [("content-type", v), ("x-b", "2")]))
        cases.append(req_case("GET", [("x-" + v, "1")]))
    for _ in range(1500 if tier == "quick" else 100000):
        k = rng.randint(0, 12)
        fields = []
        for _ in range(k):
            fields.append(rng.choice(pool_c) if rng.random() < 0.4 else rng.choice(pool_o))
        cases.append(req_case(rng.choice(["GET", "POST", "PUT", "DELETE"]), fields))
    return cases


def req_case(method, fields):
    return "req %s%s" % (tok(method), "".join(" %s %s" % (tok(n), tok(v)) for n, v in fields))

def classify(case, model):
    t = case.split()
    if t[0] == "ascii":
        return "ascii:" + ("accept" if model.startswith("K") else "reject")
    if t[0] == "req":
        names = [bytes.fromhex(x[1:]).decode("latin1").lower() for x in t[2::2]]
        c = sum(1 for x in names if x in ("content-type", "expect", "transfer-encoding"))
        adj = any(a in ("content-type", "expect", "transfer-encoding") and b in ("content-type", "expect", "transfer-encoding")
                  for a, b in zip(names, names[1:]))
        return "req:%s:consumed=%s%s" % (model.split()[0] if model else "?", min(c, 4), ":adjacent" if adj else "")
    n = (len(t) - 1)
    kinds = set(x for x in t[1:] if x in ("A", "G", "L", "R", "X"))
    return "ops:len<=%d:%s" % (8 if n <= 24 else 99, "".join(sorted(kinds)))

def nontrivial(case, model):
    t = case.split()
    if t[0] == "ascii":
        return True
    if t[0] == "req":
        return len(t) > 2
    # a lookup/removal result that is non-empty appears in the model observation
    return (" O " in " " + model) or any(x.startswith("L") and x != "L0" for x in model.split())

def shrink(case):
    t = case.split()
    if t[0] != "ops":
        return
    # split into ops
    ops, i = [], 1
    while i < len(t):
        k = 3 if t[i] == "A" else 2
        ops.append(t[i:i + k]); i += k
    for j in range(len(ops)):
        rest = ops[:j] + ops[j + 1:]
        if rest:
            yield "ops " + " ".join(" ".join(o) for o in rest)

def neighbours(case, rng):
    return []
