"""srcparams.py -- a small translator from the repository SOURCE to Coq, run before every proof step.

It re-reads, on every run, the literals and finite tables of the source that the models depend on
and regenerates coq/theories/Generated/SourceParams.v:

  src/util.rs         copy_chunked_async: buffer length, read window buf[lo..hi], the hex-digit
                      stores (index, shift), the CR LF stores, the terminating chunk literal
  src/response.rs     capacity of the event-stream channel (sync_channel(N) in event_stream)
  src/http_conn.rs    length of the connection's head buffer (FixedBuf<N>)
  src/time.rs         is_leap_year (if-chain) and month_len_days (match arms with guards), as Gallina functions
  src/content_type.rs ContentType::parse arms (literal -> variant) and as_str arms (variant -> literal)
  src/log/logger.rs   the tag priority table of log()
  src/event.rs        the literal field prefixes written by Event::write_to
  src/head.rs         the two regex literals of the head parser, as a regex AST (Base/Regex.v)

The model takes the chunk window from this file (Model/Chunked.v: piece_max_N); for the other
items Proofs/SourceTieP.v proves that the hand-written model agrees with the generated
definitions (so the proofs are re-checked against what the code says now; a change of a literal
breaks a proof obligation of the properties that depend on it).  Whatever the translator cannot
read is a translation problem, reported by the check as a broken tie.
"""
import os
import re
import sys

sys.path.insert(0, os.path.dirname(os.path.dirname(os.path.abspath(__file__))))
import vlib


def strip_comments(src):
    return re.sub(r"//[^\n]*", "", src)


def coq_bytes(s):
    if isinstance(s, str):
        s = s.encode("utf-8")
    return "[" + ";".join(str(b) for b in s) + "]"


def rust_unescape(lit):
    out = bytearray()
    i = 0
    while i < len(lit):
        c = lit[i]
        if c == "\\":
            n = lit[i + 1]
            if n == "x":
                out.append(int(lit[i + 2:i + 4], 16)); i += 4; continue
            out += {"n": b"\n", "r": b"\r", "t": b"\t", "\\": b"\\", '"': b'"', "0": b"\0", "'": b"'"}.get(n, n.encode())
            i += 2
        else:
            out += c.encode("utf-8"); i += 1
    return bytes(out)


def fn_body(src, sig, start=0):
    i = src.index(sig, start)
    i = src.index("{", i) + 1
    depth = 1
    j = i
    while depth:
        depth += {"{": 1, "}": -1}.get(src[j], 0)
        j += 1
    return src[i:j - 1]


def read(repo, rel):
    return strip_comments(open(os.path.join(repo, rel)).read())


# ------------------------------------------------------------------------------------------ regex literal -> AST
class RegexError(Exception):
    pass


def parse_regex(lit):
    """Parses the subset of safe-regex syntax the two head.rs literals use: literal bytes, classes [..] / [^..] with
    ranges and the escapes \\t \\r \\n, '.', groups ( ), postfix * and +, concatenation.  Returns a Coq term over
    Base/Regex.v: RChar n | RAny | RClass neg [(lo,hi)..] | RSeq a b | RStar a | RPlus a | RGroup a | REps."""
    pos = 0

    def esc(c):
        return {"t": 9, "r": 13, "n": 10, "\\": 92, ".": 46, "[": 91, "]": 93, "(": 40, ")": 41, "*": 42, "+": 43,
                "-": 45, "^": 94, "$": 36, "?": 63, "|": 124}.get(c)

    def cls():
        nonlocal pos
        neg = False
        if lit[pos] == "^":
            neg = True; pos += 1
        items = []
        first = True
        while lit[pos] != "]" or first and False:
            c = lit[pos]
            if c == "\\":
                v = esc(lit[pos + 1])
                if v is None:
                    raise RegexError("escape \\%s" % lit[pos + 1])
                pos += 2
            else:
                v = ord(c); pos += 1
            if lit[pos] == "-" and lit[pos + 1] != "]":
                c2 = lit[pos + 1]
                if c2 == "\\":
                    v2 = esc(lit[pos + 2]); pos += 3
                else:
                    v2 = ord(c2); pos += 2
                items.append((v, v2))
            else:
                items.append((v, v))
            first = False
        pos += 1
        return "RClass %s [%s]" % ("true" if neg else "false", ";".join("(%d,%d)" % it for it in items))

    def atom():
        nonlocal pos
        c = lit[pos]
        if c == "(":
            pos += 1
            r = seq()
            if lit[pos] != ")":
                raise RegexError("unbalanced group")
            pos += 1
            return "RGroup (%s)" % r
        if c == "[":
            pos += 1
            return cls()
        if c == ".":
            pos += 1
            return "RAny"
        if c == "\\":
            v = esc(lit[pos + 1])
            if v is None:
                raise RegexError("escape \\%s" % lit[pos + 1])
            pos += 2
            return "RChar %d" % v
        if c in "*+?|{}":
            raise RegexError("unsupported operator %s" % c)
        pos += 1
        return "RChar %d" % ord(c)

    def seq():
        nonlocal pos
        parts = []
        while pos < len(lit) and lit[pos] != ")":
            a = atom()
            while pos < len(lit) and lit[pos] in "*+":
                a = ("RStar (%s)" if lit[pos] == "*" else "RPlus (%s)") % a
                pos += 1
            if pos < len(lit) and lit[pos] in "?|{":
                raise RegexError("unsupported operator %s" % lit[pos])
            parts.append(a)
        if not parts:
            return "REps"
        r = parts[-1]
        for p in reversed(parts[:-1]):
            r = "RSeq (%s) (%s)" % (p, r)
        return r

    r = seq()
    if pos != len(lit):
        raise RegexError("trailing input")
    return r


# ------------------------------------------------------------------------------------------ the translation
def translate(repo):
    P = []   # problems
    L = ["(* GENERATED by props/srcparams.py from the repository source on every run -- do not edit. *)",
         "From Coq Require Import List NArith ZArith Bool.",
         "From SV Require Import Base.Regex Base.SrcAst.",
         "Import ListNotations.", "Open Scope N_scope.", ""]

    # ---- src/util.rs: copy_chunked_async
    buf_len = lo = hi = None
    shifts, term, crlf_at = [], None, []
    try:
        body = fn_body(read(repo, "src/util.rs"), "pub async fn copy_chunked_async")
        m = re.search(r"\[\s*0_u8\s*;\s*(\d[\d_]*)\s*\]", body)
        buf_len = int(m.group(1).replace("_", ""))
        m = re.search(r"reader\s*\.\s*read\(\s*&mut\s+buf\[\s*(\d[\d_]*)\s*\.\.\s*(\d[\d_]*)\s*\]\s*\)", body)
        lo, hi = int(m.group(1).replace("_", "")), int(m.group(2).replace("_", ""))
        for m in re.finditer(r"buf\[(\d+)\]\s*=\s*hex_digit\(\s*u8::try_from\(\s*(?:\(\s*len\s*>>\s*(\d+)\s*\)|len)\s*&\s*0xF\s*\)\s*\.unwrap\(\)\s*\)\s*;", body):
            shifts.append((int(m.group(1)), int(m.group(2) or 0)))
        for m in re.finditer(r"buf\[(\d+)\]\s*=\s*b'\\([rn])'\s*;", body):
            crlf_at.append((int(m.group(1)), 13 if m.group(2) == "r" else 10))
        lits = re.findall(r"write_all\(\s*b\"((?:[^\"\\]|\\.)*)\"\s*\)", body)
        if len(lits) != 1:
            raise ValueError("terminating chunk literal")
        term = rust_unescape(lits[0])
        if not re.search(r"buf\[\s*%d\s*\+\s*len\s*\]\s*=\s*b'\\r'" % lo, body) or \
           not re.search(r"buf\[\s*%d\s*\+\s*len\s*\+\s*1\s*\]\s*=\s*b'\\n'" % lo, body) or \
           not re.search(r"&buf\[\s*\.\.\s*\(\s*%d\s*\+\s*len\s*\+\s*2\s*\)\s*\]" % lo, body) or \
           not re.search(r"trim_prefix\(\s*bytes\s*,\s*b'0'\s*\)", body):
            raise ValueError("chunk layout (data at buf[lo..], CR LF after it, leading zeros trimmed)")
    except Exception as e:   # noqa
        P.append("src/util.rs copy_chunked_async: cannot translate (%s)" % e)
        # keep the model meaningful (the values of the pinned commit); the proof step is red because of
        # src_translation_problems > 0 (Tie/ChunkTie.v: translation_complete)
        buf_len, lo, hi, shifts, term, crlf_at = 65536, 6, 65534, [(0, 12), (1, 8), (2, 4), (3, 0)], b"0\r\n\r\n", [(4, 13), (5, 10)]
    # ---- src/util.rs: hex_digit (a 16-entry table) and trim_prefix (the leading-zero loop)
    hexd = []
    try:
        usrc = read(repo, "src/util.rs")
        body = fn_body(usrc, "fn hex_digit")
        for m in re.finditer(r"(\d+)\s*=>\s*b'(.)'\s*,", body):
            hexd.append((int(m.group(1)), ord(m.group(2))))
        if len(hexd) != 16 or not re.search(r"_\s*=>\s*unimplemented!\(\)", body) or len(re.findall(r"=>", body)) != 17:
            raise ValueError("hex_digit arms")
        tb = re.sub(r"\s+", "", fn_body(usrc, "fn trim_prefix"))
        if tb != "while!slice.is_empty()&&slice[0]==prefix{slice=&slice[1..];}slice":
            raise ValueError("trim_prefix body")
    except Exception as e:   # noqa
        P.append("src/util.rs hex_digit / trim_prefix: cannot translate (%s)" % e)
        hexd = [(i, ord("0123456789abcdef"[i])) for i in range(16)]
    L += ["(* src/util.rs hex_digit: the arms of the match, (argument, byte) *)",
          "Definition src_hex_digit_table : list (N * N) := [%s]." % ";".join("(%d,%d)" % e for e in hexd), ""]
    L += ["(* src/util.rs copy_chunked_async *)",
          "Definition src_chunk_buf_len : N := %d." % buf_len,
          "Definition src_chunk_read_lo : N := %d." % lo,
          "Definition src_chunk_read_hi : N := %d." % hi,
          "Definition src_chunk_hex_stores : list (N * N) := [%s].   (* (buffer index, right shift of len) *)" % ";".join("(%d,%d)" % s for s in shifts),
          "Definition src_chunk_crlf_stores : list (N * N) := [%s]." % ";".join("(%d,%d)" % s for s in crlf_at),
          "Definition src_chunk_terminator : list N := %s." % coq_bytes(term), ""]

    # ---- src/response.rs: event_stream channel capacity
    cap = 0
    try:
        body = fn_body(read(repo, "src/response.rs"), "pub fn event_stream")
        m = re.search(r"sync_channel\(\s*(\d+)\s*\)", body)
        cap = int(m.group(1))
    except Exception as e:   # noqa
        P.append("src/response.rs event_stream: cannot translate the channel capacity (%s)" % e)
    L += ["(* src/response.rs Response::event_stream *)", "Definition src_event_queue_cap : N := %d." % cap, ""]

    # ---- src/http_conn.rs: head buffer
    n = 0
    try:
        m = re.search(r"pub\s+buf\s*:\s*FixedBuf<\s*(\d[\d_]*)\s*>", read(repo, "src/http_conn.rs"))
        n = int(m.group(1).replace("_", ""))
    except Exception as e:   # noqa
        P.append("src/http_conn.rs HttpConn.buf: cannot translate the buffer length (%s)" % e)
    L += ["(* src/http_conn.rs HttpConn.buf *)", "Definition src_conn_buf_len : N := %d." % n, ""]

    # ---- src/time.rs: is_leap_year, month_len_days
    L += ["(* src/time.rs *)", "Open Scope Z_scope."]
    try:
        src = read(repo, "src/time.rs")
        body = fn_body(src, "fn is_leap_year")
        toks = re.findall(r"if\s+year\s*%\s*(\d+)\s*==\s*0\s*\{\s*(true|false)\s*\}|else\s*\{\s*year\s*%\s*(\d+)\s*==\s*0\s*\}|else\s*\{\s*(true|false)\s*\}", body)
        chain, last = [], None
        for a, b, c, d in toks:
            if a:
                chain.append((int(a), b))
            elif c:
                last = "Z.rem y %d =? 0" % int(c)
            elif d:
                last = d
        if not chain or last is None or re.sub(r"\s+", "", body) != re.sub(r"\s+", "", _render_leap_rust(chain, last)):
            raise ValueError("unexpected shape")
        L.append("Definition src_is_leap_year (y : Z) : bool :=\n  %s%s." % (
            "".join("if Z.rem y %d =? 0 then %s else " % c for c in chain), last))
    except Exception as e:   # noqa
        P.append("src/time.rs is_leap_year: cannot translate (%s)" % e)
        L.append("Definition src_is_leap_year (y : Z) : bool := false.")
    try:
        body = fn_body(src, "pub fn month_len_days")
        mb = fn_body(body, "match month")
        arms = []
        rest = mb
        for line in [x.strip() for x in mb.split(",") if x.strip()]:
            m = re.fullmatch(r"(\d+)\s*(?:if\s*\(?\s*year\s*%\s*(\d+)\s*\)?\s*==\s*0\s*)?=>\s*(\d+)", line)
            if m:
                arms.append((int(m.group(1)), int(m.group(2)) if m.group(2) else None, int(m.group(3))))
            elif re.fullmatch(r"_\s*=>\s*unimplemented!\(\)", line):
                arms.append(None)
            else:
                raise ValueError("arm %r" % line)
        if arms[-1] is not None or None in arms[:-1]:
            raise ValueError("default arm")
        t = "Definition src_month_len_days (y m : Z) : option Z :=\n"
        for (mo, g, v) in arms[:-1]:
            cond = "(m =? %d)" % mo + (" && (Z.rem y %d =? 0)" % g if g else "")
            t += "  if %s then Some %d else\n" % (cond, v)
        t += "  None."
        L.append(t)
    except Exception as e:   # noqa
        P.append("src/time.rs month_len_days: cannot translate (%s)" % e)
        L.append("Definition src_month_len_days (y m : Z) : option Z := None.")
    L += ["Close Scope Z_scope.", ""]

    # ---- src/content_type.rs
    parse_tbl, str_tbl = [], []
    try:
        src = read(repo, "src/content_type.rs")
        body = fn_body(src, "pub fn parse")
        if not re.search(r"match\s+s\.split\(';'\)\.next\(\)", body):
            raise ValueError("parse: scrutinee")
        for m in re.finditer(r"Some\(\"((?:[^\"\\]|\\.)*)\"\)\s*=>\s*ContentType::([A-Za-z]+)\s*,", body):
            parse_tbl.append((rust_unescape(m.group(1)), m.group(2)))
        if not re.search(r"_\s*=>\s*ContentType::String\(s\.to_string\(\)\)", body):
            raise ValueError("parse: default arm")
        body = fn_body(src, "pub fn as_str")
        for m in re.finditer(r"ContentType::([A-Za-z]+)\s*=>\s*\"((?:[^\"\\]|\\.)*)\"\s*,", body):
            str_tbl.append((m.group(1), rust_unescape(m.group(2))))
        n_arms = len(re.findall(r"=>", body))
        if n_arms != len(str_tbl) + 2:
            raise ValueError("as_str: %d arms, %d translated" % (n_arms, len(str_tbl)))
    except Exception as e:   # noqa
        P.append("src/content_type.rs: cannot translate (%s)" % e)
    L += ["(* src/content_type.rs: ContentType::parse (literal before ';' -> variant) and as_str (variant -> text) *)",
          "Definition src_ct_parse_table : list (list N * list N) := [\n%s]." % ";\n".join("  (%s, %s) (* %s -> %s *)" % (coq_bytes(a), coq_bytes(b), a.decode("latin1"), b) for a, b in parse_tbl),
          "Definition src_ct_as_str_table : list (list N * list N) := [\n%s]." % ";\n".join("  (%s, %s) (* %s *)" % (coq_bytes(a), coq_bytes(b), a) for a, b in str_tbl), ""]

    # ---- src/log/logger.rs: priority table
    prio, dflt = [], 0
    try:
        body = fn_body(read(repo, "src/log/logger.rs"), "pub fn log")
        mb = fn_body(body, "sort_by_key")
        for m in re.finditer(r"\"((?:[^\"\\]|\\.)*)\"\s*=>\s*(\d+)(?:u8)?\s*,", mb):
            prio.append((rust_unescape(m.group(1)), int(m.group(2))))
        m = re.search(r"_\s*=>\s*(\d+)(?:u8)?\s*,", mb)
        dflt = int(m.group(1))
        if len(re.findall(r"=>", mb)) != len(prio) + 1:
            raise ValueError("arms")
    except Exception as e:   # noqa
        P.append("src/log/logger.rs log(): cannot translate the tag priority table (%s)" % e)
    L += ["(* src/log/logger.rs log(): sort key of a tag name *)",
          "Definition src_log_prio_table : list (list N * N) := [%s]." % "; ".join("(%s, %d)" % (coq_bytes(a), b) for a, b in prio),
          "Definition src_log_prio_default : N := %d." % dflt, ""]

    # ---- src/event.rs: field prefixes
    ev_type, ev_data = b"", b""
    try:
        body = fn_body(read(repo, "src/event.rs"), "pub fn write_to")
        m1 = re.search(r"write!\(\s*buf\s*,\s*\"((?:[^\"\\{]|\\.)*)\{event_type\}((?:[^\"\\{]|\\.)*)\"\s*\)", body)
        m2 = re.search(r"write!\(\s*buf\s*,\s*\"((?:[^\"\\{]|\\.)*)\{line\}((?:[^\"\\{]|\\.)*)\"\s*\)", body)
        ev_type = (rust_unescape(m1.group(1)), rust_unescape(m1.group(2)))
        ev_data = (rust_unescape(m2.group(1)), rust_unescape(m2.group(2)))
    except Exception as e:   # noqa
        P.append("src/event.rs write_to: cannot translate the field formats (%s)" % e)
        ev_type, ev_data = (b"", b""), (b"", b"")
    L += ["(* src/event.rs Event::write_to: text before / after the event type and before / after each data line *)",
          "Definition src_event_type_fmt : list N * list N := (%s, %s)." % (coq_bytes(ev_type[0]), coq_bytes(ev_type[1])),
          "Definition src_event_data_fmt : list N * list N := (%s, %s)." % (coq_bytes(ev_data[0]), coq_bytes(ev_data[1])), ""]

    # ---- src/http_conn.rs: the leading state guards of read_request / write_http_continue / write_response
    guards = {}
    try:
        hsrc = read(repo, "src/http_conn.rs")
        VAR = {"WriteState::None": "VNone", "WriteState::Response": "VResponse", "WriteState::Shutdown": "VShutdown",
               "ReadState::Head": "VHead", "ReadState::Body{..}": "VBody", "ReadState::Shutdown": "VShutdown"}
        for fn in ("read_request", "write_http_continue", "write_response"):
            body = fn_body(hsrc, "pub async fn %s" % fn).strip()
            tabs = []
            while True:
                m = re.match(r"match\s+self\.(write_state|read_state)\s*\{(.*?)\n\s*\}", body, re.S)
                if not m:
                    break
                arms = []
                for arm in [a.strip() for a in m.group(2).split("\n") if a.strip()]:
                    am = re.fullmatch(r"((?:Write|Read)State::\w+(?:\s*\{\s*\.\.\s*\})?)\s*=>\s*(\{\}|return\s+Err\(HttpError::(\w+)\)),?", arm)
                    if not am:
                        raise ValueError("%s: guard arm %r" % (fn, arm))
                    v = re.sub(r"\s+", "", am.group(1))
                    arms.append("(%s, %s)" % (VAR[v], "Some %s" % coq_bytes(am.group(3)) if am.group(3) else "None"))
                tabs.append("(%s, [%s])" % ("FWriteState" if m.group(1) == "write_state" else "FReadState", "; ".join(arms)))
                body = body[m.end():].strip()
            if not tabs:
                raise ValueError("%s: no leading guard" % fn)
            guards[fn] = tabs
    except Exception as e:   # noqa
        P.append("src/http_conn.rs state guards: cannot translate (%s)" % e)
        guards = {"read_request": [], "write_http_continue": [], "write_response": []}
    L += ["(* src/http_conn.rs: the leading state guards of three HttpConn methods, in source order *)"]
    for fn in ("read_request", "write_http_continue", "write_response"):
        L.append("Definition src_guards_%s : list guard_table := [\n  %s]." % (fn, ";\n  ".join(guards[fn])))
    L.append("")

    # ---- src/request.rs: read_http_request -- consumed names, literals, the two decision tables
    rq = dict(names=[], te=[], body=[])
    try:
        body = fn_body(read(repo, "src/request.rs"), "pub async fn read_http_request")
        flat = re.sub(r"\s+", "", body)
        def need(pat, what):
            m = re.search(pat, flat)
            if not m:
                raise ValueError(what)
            return m
        ct = need(r'\.remove_only\("([^"]*)"\)\.map_or\(ContentType::None,\|s\|ContentType::parse\(s\.as_str\(\)\)\)', "content-type removal").group(1)
        m = need(r'\.remove_only\("([^"]*)"\)\.map_or\(false,\|s\|s\.as_str\(\)=="([^"]*)"\)', "expect removal")
        ex, ex_val = m.group(1), m.group(2)
        te = need(r'head\.headers\.remove_all\("([^"]*)"\);ifvalues\.len\(\)>1\{returnErr\(HttpError::UnsupportedTransferEncoding\);\}', "transfer-encoding removal").group(1)
        need(r"\.split\(','\)\.map\(str::trim\)\.filter\(\|s\|!s\.is_empty\(\)\);match\(iter\.next\(\),iter\.next\(\),iter\.next\(\)\)", "coding list split")
        ck = need(r'forheader_valueinhead\.headers\.get_all\("([^"]*)"\)', "cookie lookup").group(1)
        cl = need(r'head\.headers\.get_all\("([^"]*)"\)\.as_slice\(\)\{\[\]=>None,', "content-length lookup").group(1)
        rq["names"] = [ct, ex, ex_val, te, ck, cl]
        tm = fn_body(body, "match (iter.next(), iter.next(), iter.next())")
        for arm in [a.strip() for a in re.split(r",\s*\n", tm) if a.strip()]:
            arm = arm.rstrip(",")
            m = re.fullmatch(r'\(\s*(Some\("[^"]*"\)|None)\s*,\s*(Some\("[^"]*"\)|None)\s*,\s*(Some\("[^"]*"\)|None)\s*\)\s*=>\s*\(\s*(true|false)\s*,\s*(true|false)\s*\)', arm)
            if m:
                pats = ["None" if p == "None" else "Some %s" % coq_bytes(p[6:-2]) for p in m.group(1, 2, 3)]
                rq["te"].append("((%s, %s, %s), (%s, %s))" % (pats[0], pats[1], pats[2], m.group(4), m.group(5)))
            elif re.fullmatch(r"_\s*=>\s*return\s+Err\(HttpError::UnsupportedTransferEncoding\)", arm):
                pass
            else:
                raise ValueError("coding arm %r" % arm)
        bm = fn_body(body, "let body = match (chunked, &content_length, head.method.as_str())")
        for arm in [a.strip() for a in re.split(r",\s*\n", bm) if a.strip()]:
            arm = arm.rstrip(",")
            m = re.fullmatch(r'\(\s*(true|false|_)\s*,\s*(_|None|Some\(\s*(?:\d+|[a-z_]+)\s*\))\s*,\s*(_|"[^"]*"(?:\s*\|\s*"[^"]*")*)\s*\)\s*(if\s+expect_continue\s*\|\|\s*gzip\s*)?=>\s*(RequestBody::PendingUnknown|RequestBody::empty\(\)|RequestBody::PendingKnown\(\*len\))', arm)
            if not m:
                raise ValueError("body arm %r" % arm)
            chp = {"true": "Some true", "false": "Some false", "_": "None"}[m.group(1)]
            c = m.group(2)
            clp = "CLAny" if c == "_" else "CLNone" if c == "None" else ("CLSomeLit %s" % re.search(r"\d+", c).group(0) if re.search(r"\d", c) else "CLSomeVar")
            mp = "None" if m.group(3) == "_" else "Some [%s]" % "; ".join(coq_bytes(x) for x in re.findall(r'"([^"]*)"', m.group(3)))
            g = "BGExpectOrGzip" if m.group(4) else "BGNone"
            r = {"RequestBody::PendingUnknown": "BRUnknown", "RequestBody::empty()": "BREmpty", "RequestBody::PendingKnown(*len)": "BRKnownVar"}[m.group(5)]
            rq["body"].append("mk_body_arm (%s) (%s) (%s) %s %s" % (chp, clp, mp, g, r))
    except Exception as e:   # noqa
        P.append("src/request.rs read_http_request: cannot translate (%s)" % e)
        rq = dict(names=["", "", "", "", "", ""], te=[], body=[])
    L += ["(* src/request.rs read_http_request: consumed / looked-up field names and literals, the coding-list table, the body table *)",
          "Definition src_req_content_type : list N := %s." % coq_bytes(rq["names"][0]),
          "Definition src_req_expect : list N := %s." % coq_bytes(rq["names"][1]),
          "Definition src_req_expect_value : list N := %s." % coq_bytes(rq["names"][2]),
          "Definition src_req_transfer_encoding : list N := %s." % coq_bytes(rq["names"][3]),
          "Definition src_req_cookie : list N := %s." % coq_bytes(rq["names"][4]),
          "Definition src_req_content_length : list N := %s." % coq_bytes(rq["names"][5]),
          "Definition src_te_arms : list te_arm := [\n  %s]." % ";\n  ".join(rq["te"]),
          "Definition src_body_arms : list body_arm := [\n  %s]." % ";\n  ".join(rq["body"]), ""]

    # ---- src/cookie.rs: impl Display for Cookie, statement by statement
    segs = []
    try:
        csrc = read(repo, "src/cookie.rs")
        i = csrc.index("impl Display for Cookie")
        body = fn_body(csrc[i:], "fn fmt")
        GUARDS = {"!self.domain.is_empty()": "GDomainNonEmpty", "self.expires!=SystemTime::UNIX_EPOCH": "GExpiresSet",
                  "self.http_only": "GHttpOnly", "self.max_age>Duration::ZERO": "GMaxAgePositive",
                  "!self.path.is_empty()": "GPathNonEmpty", "self.secure": "GSecure"}
        ARGS = {None: "ANone", "self.domain.as_str()": "ADomain", "self.expires.iso8601_utc()": "AExpiresIso",
                "self.max_age.as_secs()": "AMaxAgeSecs", "self.path.as_str()": "APath"}
        rest = body.strip()
        WR = r'write!\(\s*f\s*,\s*"((?:[^"\\]|\\.)*)"\s*(?:,\s*([^;{}]*?))?\s*\)\?'
        m = re.match(r'write!\(\s*f\s*,\s*"\{\}((?:[^"\\{]|\\.)*)\{\}"\s*,\s*self\.name\.as_str\(\)\s*,\s*self\.value\.as_str\(\)\s*\)\?\s*;', rest)
        if not m:
            raise ValueError("first statement (name=value)")
        segs.append("SegNameValue %s" % coq_bytes(rust_unescape(m.group(1))))
        rest = rest[m.end():].strip()
        while rest and not re.match(r"Ok\(\(\)\)\s*$", rest):
            m = re.match(r"if\s+([^{]*?)\s*\{\s*" + WR + r"\s*;\s*\}", rest)
            if m:
                g = re.sub(r"\s+", "", m.group(1))
                lit, arg = m.group(2), (re.sub(r"\s+", "", m.group(3)) if m.group(3) else None)
                if g not in GUARDS or arg not in ARGS:
                    raise ValueError("guard / argument %r %r" % (g, arg))
                if (arg is None) != ("{}" not in lit) or (arg is not None and not lit.endswith("{}")) or lit.count("{") > (1 if arg else 0):
                    raise ValueError("format string %r" % lit)
                segs.append("SegIf %s %s %s" % (GUARDS[g], coq_bytes(rust_unescape(lit[:-2] if arg else lit)), ARGS[arg]))
                rest = rest[m.end():].strip()
                continue
            m = re.match(r"match\s+self\.same_site\s*\{(.*?)\}", rest, re.S)
            if m:
                arms = dict((a, rust_unescape(b)) for a, b in re.findall(r'SameSite::(\w+)\s*=>\s*write!\(\s*f\s*,\s*"((?:[^"\\{]|\\.)*)"\s*\)\?\s*,', m.group(1)))
                if sorted(arms) != ["Lax", "None", "Strict"] or len(re.findall(r"=>", m.group(1))) != 3:
                    raise ValueError("same_site arms")
                segs.append("SegSameSite %s %s %s" % (coq_bytes(arms["Strict"]), coq_bytes(arms["Lax"]), coq_bytes(arms["None"])))
                rest = rest[m.end():].strip()
                continue
            raise ValueError("statement %r" % rest[:60])
    except Exception as e:   # noqa
        P.append("src/cookie.rs Display for Cookie: cannot translate (%s)" % e)
        segs = []
    L += ["(* src/cookie.rs impl Display for Cookie: the statements of fmt, in order *)",
          "Definition src_cookie_display : list cookie_seg := [\n  %s]." % ";\n  ".join(segs), ""]

    # ---- src/log/tag_value.rs: write_json_string arm by arm, Display for TagValue arm by arm
    jarms, tvarms, jquote = [], [], None
    try:
        tsrc = read(repo, "src/log/tag_value.rs")
        body = fn_body(tsrc, "pub fn write_json_string")
        flat = body.strip()
        m = re.match(r'f\.write_str\("((?:[^"\\]|\\.)*)"\)\?;\s*for\s+c\s+in\s+s\.chars\(\)\s*\{\s*match\s+c\s*\{(.*)\}\s*\}\s*f\.write_str\("((?:[^"\\]|\\.)*)"\)\s*$', flat, re.S)
        if not m or m.group(1) != m.group(3):
            raise ValueError("shape: open quote, for c in s.chars() { match c {..} }, close quote")
        jquote = rust_unescape(m.group(1))
        for arm in [a.strip() for a in re.split(r",\s*\n", m.group(2)) if a.strip()]:
            arm = arm.rstrip(",")
            a = re.fullmatch(r"'((?:[^'\\]|\\.)+)'\s*=>\s*f\.write_str\(\"((?:[^\"\\]|\\.)*)\"\)\?", arm)
            if a:
                ch = rust_unescape(a.group(1)).decode("utf-8")
                if len(ch) != 1:
                    raise ValueError("char literal %r" % a.group(1))
                jarms.append("JLit %d %s" % (ord(ch), coq_bytes(rust_unescape(a.group(2)))))
                continue
            a = re.fullmatch(r'c\s+if\s+u32::from\(c\)\s*<\s*(0x[0-9a-fA-F]+|\d+)\s*=>\s*write!\(\s*f\s*,\s*"((?:[^"\\{]|\\.)*)\{:04x\}"\s*,\s*u32::from\(c\)\s*\)\?', arm)
            if a:
                jarms.append("JBelowHex4 %d %s" % (int(a.group(1), 0), coq_bytes(rust_unescape(a.group(2)))))
                continue
            if re.fullmatch(r'c\s*=>\s*write!\(\s*f\s*,\s*"\{c\}"\s*\)\?', arm):
                jarms.append("JSelf")
                continue
            raise ValueError("escape arm %r" % arm)
        i = tsrc.index("impl Display for TagValue")
        body = fn_body(tsrc[i:], "fn fmt")
        m = re.fullmatch(r"\s*match\s+self\s*\{(.*)\}\s*", body, re.S)
        if not m:
            raise ValueError("Display for TagValue: one match")
        txt = re.sub(r"=>\s*\{\s*(write_json_string\(f,\s*x\))\s*\}", r"=> \1,", m.group(1))
        for arm in [a.strip() for a in re.split(r",\s*\n", txt) if a.strip()]:
            arm = re.sub(r"\s+", " ", arm.rstrip(","))
            a = re.fullmatch(r"TagValue::(\w+)\(x\) => write_json_string\(f, x\)", arm)
            if a:
                tvarms.append("(%s, TVJsonString)" % coq_bytes(a.group(1))); continue
            a = re.fullmatch(r"TagValue::(\w+)\(x\) => Display::fmt\(&x, f\)", arm)
            if a:
                tvarms.append("(%s, TVDisplay)" % coq_bytes(a.group(1))); continue
            a = re.fullmatch(r'TagValue::(\w+)\(x\) if ((?:x\.ends_with\("[^"]*"\)(?: \|\| )?)+) => write_json_string\(f, x\)', arm)
            if a:
                sfx = re.findall(r'x\.ends_with\("([^"]*)"\)', a.group(2))
                tvarms.append("(%s, TVJsonStringIfEndsWith [%s])" % (coq_bytes(a.group(1)), "; ".join(coq_bytes(x) for x in sfx))); continue
            a = re.fullmatch(r'TagValue::(\w+) => write!\(f, "((?:[^"\\{]|\\.)*)"\)', arm)
            if a:
                tvarms.append("(%s, TVLit %s)" % (coq_bytes(a.group(1)), coq_bytes(rust_unescape(a.group(2))))); continue
            raise ValueError("Display arm %r" % arm)
    except Exception as e:   # noqa
        P.append("src/log/tag_value.rs write_json_string / Display for TagValue: cannot translate (%s)" % e)
        jarms, tvarms, jquote = [], [], b'"'
    L += ["(* src/log/tag_value.rs: write_json_string (quote, one match arm per line, quote) and Display for TagValue *)",
          "Definition src_json_quote : list N := %s." % coq_bytes(jquote),
          "Definition src_json_arms : list json_arm := [\n  %s]." % ";\n  ".join(jarms),
          "Definition src_tagvalue_arms : list tv_arm := [\n  %s]." % ";\n  ".join(tvarms), ""]

    # ---- src/log/logger.rs: LogEvent::write_jsonl -- bindings and the two format strings
    def parse_fmt(lit):
        segs, cur, i = [], "", 0
        while i < len(lit):
            if lit.startswith("{{", i):
                cur += "{"; i += 2
            elif lit.startswith("}}", i):
                cur += "}"; i += 2
            elif lit[i] == "{":
                j = lit.index("}", i)
                a = re.fullmatch(r"([a-z_][a-z0-9_]*)(?::0(\d+))?", lit[i + 1:j])
                if not a:
                    raise ValueError("format argument %r" % lit[i:j + 1])
                if cur:
                    segs.append("FLit %s" % coq_bytes(rust_unescape(cur))); cur = ""
                segs.append("FArg %s %d" % (coq_bytes(a.group(1)), int(a.group(2) or 0)))
                i = j + 1
            elif lit[i] == "\\":
                cur += lit[i:i + 2]; i += 2
            else:
                cur += lit[i]; i += 1
        if cur:
            segs.append("FLit %s" % coq_bytes(rust_unescape(cur)))
        return segs
    jl = dict(binds=[], empty=[], tags=[])
    try:
        lsrc = read(repo, "src/log/logger.rs")
        body = fn_body(lsrc, "pub fn write_jsonl")
        flat = re.sub(r"\s+", "", body)
        m = re.match(r'((?:let[a-z_]+=[^;]*;)*)iftags\.is_empty\(\)\{writeln!\(f,"((?:[^"\\]|\\.)*)"\)\}else\{writeln!\(f,"((?:[^"\\]|\\.)*)"\)\}$', flat)
        if not m:
            raise ValueError("shape: let bindings; if tags.is_empty() { writeln!(f, A) } else { writeln!(f, B) }")
        for b in re.finditer(r"let([a-z_]+)=([^;]*);", m.group(1)):
            jl["binds"].append("(%s, %s)" % (coq_bytes(b.group(1)), coq_bytes(b.group(2))))
        jl["empty"], jl["tags"] = parse_fmt(m.group(2)), parse_fmt(m.group(3))
    except Exception as e:   # noqa
        P.append("src/log/logger.rs write_jsonl: cannot translate (%s)" % e)
        jl = dict(binds=[], empty=[], tags=[])
    L += ["(* src/log/logger.rs LogEvent::write_jsonl: the let bindings (name, expression text without blanks), and the",
          "   format strings of the branch without tags / with tags (each written with writeln!) *)",
          "Definition src_jsonl_binds : list (list N * list N) := [\n  %s]." % ";\n  ".join(jl["binds"]),
          "Definition src_jsonl_fmt_empty : list fmt_seg := [\n  %s]." % ";\n  ".join(jl["empty"]),
          "Definition src_jsonl_fmt_tags : list fmt_seg := [\n  %s]." % ";\n  ".join(jl["tags"]), ""]

    # ---- src/log/log_file_writer.rs: the body of the writer thread's loop, statement by statement;
    #      LogFile::create name format, LogFile::write_all, LogFile::age, builder defaults
    wl = dict(stmts=[], name_fmt=[], defaults=None)
    try:
        wsrc = read(repo, "src/log/log_file_writer.rs")
        sw = fn_body(wsrc, "pub fn start_writer_thread")
        loop = fn_body(sw, "for event in receiver")
        flat = re.sub(r"\s+", "", loop)
        EXPR = {"file.len": "WFileLen", "(buffer.len()asu64)": "WBufLen", "buffer.len()asu64": "WBufLen",
                "self.max_write_bytes": "WMaxWriteBytes", "self.max_keep_bytes": "WMaxKeepBytes",
                "self.max_write_age": "WMaxWriteAge", "file.age(now)": "WFileAgeNow"}
        def expr(t):
            if t in EXPR:
                return EXPR[t]
            a = re.fullmatch(r"(.*)\.saturating_sub\(((?:[^()]|\([^()]*\))*)\)", t)
            if a:
                return "(WSatSub %s %s)" % (expr(a.group(1)), expr(a.group(2)))
            if "+" in t:
                l, r = t.split("+", 1)
                return "(WAdd %s %s)" % (expr(l), expr(r))
            raise ValueError("expression %r" % t)
        def cond(t):
            if "||" in t:
                l, r = t.split("||", 1)
                return "(WOr %s %s)" % (cond(l), cond(r))
            l, r = t.split(">", 1)
            return "(WGt %s %s)" % (expr(l), expr(r))
        rest = flat
        while rest:
            m = re.match(r"event\.write_jsonl\(&mutbuffer\)\.unwrap\(\);", rest)
            if m:
                wl["stmts"].append("WSRender"); rest = rest[m.end():]; continue
            m = re.match(r"letnow=SystemTime::now\(\);", rest)
            if m:
                wl["stmts"].append("WSNow"); rest = rest[m.end():]; continue
            m = re.match(r"if([^{]*)\{file_set\.push\(PrefixFile\{([^}]*)\}\);file=LogFile::create\(&path_prefix\)\.unwrap\(\);\}", rest)
            if m:
                FIELDS = {"path:file.path.clone()": "PFPathFilePath", "mtime:now": "PFMtimeNow", "len:file.len": "PFLenFileLen"}
                fl = [x for x in m.group(2).split(",") if x]
                if any(x not in FIELDS for x in fl):
                    raise ValueError("PrefixFile fields %r" % fl)
                wl["stmts"].append("WSRotateIf %s [%s]" % (cond(m.group(1)), "; ".join(FIELDS[x] for x in fl)))
                rest = rest[m.end():]; continue
            m = re.match(r"ifletSome\(duration\)=self\.max_keep_age\{file_set\.delete_older_than\(now,duration\)\.unwrap\(\);\}", rest)
            if m:
                wl["stmts"].append("WSDeleteOlderIfKeepAge"); rest = rest[m.end():]; continue
            m = re.match(r"file_set\.delete_oldest_while_over_max_len\(((?:[^()]|\((?:[^()]|\([^()]*\))*\))*),?\)\.unwrap\(\);", rest)
            if m:
                wl["stmts"].append("WSDeleteWhileOver %s" % expr(m.group(1).rstrip(","))); rest = rest[m.end():]; continue
            m = re.match(r"file\.write_all\(&buffer\)\.unwrap\(\);", rest)
            if m:
                wl["stmts"].append("WSWriteBuffer"); rest = rest[m.end():]; continue
            m = re.match(r"buffer\.clear\(\);", rest)
            if m:
                wl["stmts"].append("WSClearBuffer"); rest = rest[m.end():]; continue
            raise ValueError("loop statement %r" % rest[:70])
        cr = re.sub(r"\s+", "", fn_body(wsrc, "pub fn create"))
        m = re.search(r'path_str\.push\(format!\("((?:[^"\\]|\\.)*)",dt\.year,dt\.month,dt\.day,dt\.hour,dt\.min,dt\.sec\)\);', cr)
        if not m or "create_new(true)" not in cr or "len:0," not in cr or not re.search(r"fornin 0\.\.u64::MAX|fornin0\.\.u64::MAX", cr):
            raise ValueError("LogFile::create: name format / create_new / len: 0 / n from 0")
        k = [0]
        def pos(a):
            k[0] += 1
            return "{f%d%s}" % (k[0], a.group(1))
        named = re.sub(r"\{(:0\d+)?\}", pos, m.group(1))
        wl["name_fmt"] = parse_fmt(named)
        wa = re.sub(r"\s+", "", fn_body(wsrc, "pub fn write_all"))
        if not re.search(r"self\.len\+=buffer\.len\(\)asu64;Ok\(\(\)\)$", wa):
            raise ValueError("LogFile::write_all: self.len += buffer.len() as u64")
        ag = re.sub(r"\s+", "", fn_body(wsrc, "pub fn age"))
        if ag not in ("now.duration_since(self.created).unwrap_or(Duration::from_secs(0))", "now.duration_since(self.created).unwrap_or_default()"):
            raise ValueError("LogFile::age: now - created, zero when negative")
        nb = re.sub(r"\s+", "", fn_body(wsrc, "pub fn new_builder"))
        m1 = re.search(r"max_keep_age:None,", nb)
        m2 = re.search(r"max_write_age:Duration::from_secs\(([\d*]+)\),", nb)
        m3 = re.search(r"max_write_bytes:([\d*]+),", nb)
        mb = re.sub(r"\s+", "", fn_body(wsrc, "pub fn with_max_write_bytes"))
        m4 = re.search(r"assert!\(len>=\(?([\d*]+)\)?,", mb)
        if not (m1 and m2 and m3 and m4):
            raise ValueError("builder defaults")
        prod = lambda t: eval(t, {"__builtins__": {}})   # digits and * only (regex above)
        wl["defaults"] = (prod(m2.group(1)), prod(m3.group(1)), prod(m4.group(1)))
        st = re.sub(r"\s+", "", sw)
        if not re.search(r"letmutfile_set=PrefixFileSet::new\(&path_prefix\)\?;file_set\.delete_oldest_while_over_max_len\(self\.max_keep_bytes\)\?;letmutfile=LogFile::create\(&path_prefix\)\?;", st):
            raise ValueError("start: scan, trim to max_keep_bytes, create")
    except Exception as e:   # noqa
        P.append("src/log/log_file_writer.rs: cannot translate (%s)" % e)
        wl = dict(stmts=[], name_fmt=[], defaults=(86400, 10485760, 65536))
    L += ["(* src/log/log_file_writer.rs: the statements of the writer thread's loop body in order; the name format of",
          "   LogFile::create (positional arguments named f1..f6 = year..sec, n); builder defaults *)",
          "Definition src_writer_loop : list wstmt := [\n  %s]." % ";\n  ".join(wl["stmts"]),
          "Definition src_logfile_name_fmt : list fmt_seg := [\n  %s]." % ";\n  ".join(wl["name_fmt"]),
          "Definition src_default_max_write_age_secs : N := %d." % wl["defaults"][0],
          "Definition src_default_max_write_bytes : N := %d." % wl["defaults"][1],
          "Definition src_min_max_write_bytes : N := %d." % wl["defaults"][2], ""]

    # ---- src/log/prefix_file_set.rs: Ord / PartialEq for PrefixFile, delete_oldest, the two loops, push, new
    pf = dict(cmp=[], eq=[], dele=[], older="", over="", push=[], new_ok=False)
    try:
        psrc = read(repo, "src/log/prefix_file_set.rs")
        FLD = {"mtime": "PFmtime", "path": "PFpath", "len": "PFlen"}
        i = psrc.index("impl Ord for PrefixFile")
        body = re.sub(r"\s+", "", fn_body(psrc[i:], "fn cmp"))
        m = re.fullmatch(r"(other|self)\.([a-z]+)\.cmp\(&(other|self)\.([a-z]+)\)((?:\.then_with\(\|\|(?:other|self)\.[a-z]+\.cmp\(&(?:other|self)\.[a-z]+\)\))*)", body)
        if not m:
            raise ValueError("Ord::cmp: a chain of x.f.cmp(&y.f).then_with(..)")
        links = [(m.group(1), m.group(2), m.group(3), m.group(4))] + re.findall(r"\.then_with\(\|\|(other|self)\.([a-z]+)\.cmp\(&(other|self)\.([a-z]+)\)\)", m.group(5))
        for (a, fa, b, fb) in links:
            if fa != fb or a == b or fa not in FLD:
                raise ValueError("Ord::cmp link %r" % ((a, fa, b, fb),))
            pf["cmp"].append("(%s, %s)" % (FLD[fa], "true" if a == "other" else "false"))
        i = psrc.index("impl PartialEq for PrefixFile")
        body = re.sub(r"\s+", "", fn_body(psrc[i:], "fn eq"))
        parts = body.split("&&")
        for p in parts:
            m = re.fullmatch(r"(?:other|self)\.([a-z]+)\.eq\(&(?:other|self)\.([a-z]+)\)", p)
            if not m or m.group(1) != m.group(2) or m.group(1) not in FLD:
                raise ValueError("PartialEq::eq part %r" % p)
            pf["eq"].append(FLD[m.group(1)])
        j = psrc.index("impl PrefixFileSet")
        ps = psrc[j:]
        body = re.sub(r"\s+", "", fn_body(ps, "pub fn delete_oldest"))
        rest = body
        DST = [(r"letfile=self\.files\.peek\(\)\.unwrap\(\);", "DPeekUnwrap"),
               (r"remove_file\(&file\.path\)\.map_err\(\|e\|format!\(\"[^\"]*\",file\.path\)\)\?;", "DRemoveFileOrErr"),
               (r"self\.len-=file\.len;", "DLenSubFileLen"),
               (r"self\.files\.pop\(\);", "DPop"),
               (r"Ok\(\(\)\)$", "DOk")]
        while rest:
            for pat, name in DST:
                m = re.match(pat, rest)
                if m:
                    pf["dele"].append(name); rest = rest[m.end():]
                    break
            else:
                raise ValueError("delete_oldest statement %r" % rest[:50])
        OPS = {"<": "LcLt", "<=": "LcLe", ">": "LcGt", ">=": "LcGe"}
        body = re.sub(r"\s+", "", fn_body(ps, "pub fn delete_older_than"))
        m = re.fullmatch(r"letmin_mtime=now-duration;whileletSome\(file\)=self\.files\.peek\(\)\{iffile\.mtime(<=|>=|<|>)min_mtime\{self\.delete_oldest\(\)\?;\}else\{break;\}\}Ok\(\(\)\)", body)
        if not m:
            raise ValueError("delete_older_than shape")
        pf["older"] = OPS[m.group(1)]
        body = re.sub(r"\s+", "", fn_body(ps, "pub fn delete_oldest_while_over_max_len"))
        m = re.fullmatch(r"whileself\.len(<=|>=|<|>)max_len\{self\.delete_oldest\(\)\?;\}Ok\(\(\)\)", body)
        if not m:
            raise ValueError("delete_oldest_while_over_max_len shape")
        pf["over"] = OPS[m.group(1)]
        body = re.sub(r"\s+", "", fn_body(ps, "pub fn push"))
        rest = body
        while rest:
            m = re.match(r"self\.len\+=file\.len;", rest)
            if m:
                pf["push"].append("PLenAddFileLen"); rest = rest[m.end():]; continue
            m = re.match(r"self\.files\.push\(file\);", rest)
            if m:
                pf["push"].append("PHeapPush"); rest = rest[m.end():]; continue
            raise ValueError("push statement %r" % rest[:40])
        body = re.sub(r"\s+", "", fn_body(ps, "pub fn new"))
        if not (re.search(r"ifpath\.as_os_str\(\)\.as_encoded_bytes\(\)\.starts_with\(path_prefix\.as_os_str\(\)\.as_encoded_bytes\(\)\)\{", body)
                and re.search(r"ifmetadata\.is_file\(\)\{letmtime=metadata\.modified\(\)\.unwrap\(\);letlen=metadata\.len\(\);files\.push\(PrefixFile\{path,mtime,len\}\);\}", body)
                and re.search(r"letlen=files\.iter\(\)\.map\(\|f\|f\.len\)\.sum\(\);Ok\(Self\{files,len\}\)$", body)):
            raise ValueError("new: byte-prefix filter, regular files only, len = sum of the lengths")
        pf["new_ok"] = True
    except Exception as e:   # noqa
        P.append("src/log/prefix_file_set.rs: cannot translate (%s)" % e)
        pf = dict(cmp=[], eq=[], dele=[], older="LcLt", over="LcGt", push=[], new_ok=False)
    L += ["(* src/log/prefix_file_set.rs: Ord::cmp as a chain of (field, operands reversed); the fields PartialEq compares;",
          "   delete_oldest statement by statement; the comparison of the two deletion loops; push statement by statement;",
          "   PrefixFileSet::new has the shape the model transcribes (byte-prefix filter, regular files, len = sum) *)",
          "Definition src_pfs_cmp : list (pf_field * bool) := [%s]." % "; ".join(pf["cmp"]),
          "Definition src_pfs_eq : list pf_field := [%s]." % "; ".join(pf["eq"]),
          "Definition src_pfs_delete_oldest : list dstmt := [%s]." % "; ".join(pf["dele"]),
          "Definition src_pfs_older_cmp : loop_cmp := %s." % pf["older"],
          "Definition src_pfs_over_cmp : loop_cmp := %s." % pf["over"],
          "Definition src_pfs_push : list pstmt := [%s]." % "; ".join(pf["push"]),
          "Definition src_pfs_new_shape_ok : bool := %s." % ("true" if pf["new_ok"] else "false"), ""]

    # ---- src/http_conn.rs: HttpConn::write_response after its state guard -- the per-call byte counter, `close`, what
    #      happens to write_state and the socket after the write
    wr = None
    try:
        hsrc = read(repo, "src/http_conn.rs")
        body = re.sub(r"\s+", "", fn_body(hsrc, "pub async fn write_response"))
        m = re.fullmatch(
            r"matchself\.write_state\{(?:[^{}]|\{\})*\}"
            r"letmutwrite_counter=AsyncWriteCounter::new\(&mutself\.stream\);"
            r"letclose=\((\d+)\.\.=(\d+)\)\.contains\(&response\.code\);"
            r"letresult=write_http_response\(&mutwrite_counter,response,close\)\.await;"
            r"ifresult\.is_ok\(\)\{((?:if!response\.is_1xx\(\)\{self\.write_state=WriteState::None;\}|ifclose\{self\.shutdown_write\(\);\})*)\}"
            r"elseifwrite_counter\.num_bytes_written\(\)>0\{self\.shutdown_write\(\);\}result", body)
        if not m:
            raise ValueError("shape after the guard")
        ok = []
        rest = m.group(3)
        while rest:
            a = "if!response.is_1xx(){self.write_state=WriteState::None;}"
            b = "ifclose{self.shutdown_write();}"
            if rest.startswith(a):
                ok.append("WASetNoneUnless1xx"); rest = rest[len(a):]
            elif rest.startswith(b):
                ok.append("WAShutdownIfClose"); rest = rest[len(b):]
            else:
                raise ValueError("ok branch %r" % rest[:40])
        wr = (int(m.group(1)), int(m.group(2)), ok)
        sw = re.sub(r"\s+", "", fn_body(hsrc, "pub fn shutdown_write"))
        if not re.fullmatch(r"let_ignored=self\.stream\.shutdown\(Shutdown::Write\);self\.write_state=WriteState::Shutdown;", sw):
            raise ValueError("shutdown_write %r" % sw[:80])
    except Exception as e:   # noqa
        P.append("src/http_conn.rs write_response: cannot translate (%s)" % e)
        wr = (500, 599, [])
    L += ["(* src/http_conn.rs HttpConn::write_response after the state guard: close = (lo..=hi).contains(code); the byte",
          "   counter is created per call; the statements of the Ok branch in order; the Err branch shuts down iff the counter > 0 *)",
          "Definition src_wr_close_lo : N := %d." % wr[0],
          "Definition src_wr_close_hi : N := %d." % wr[1],
          "Definition src_wr_ok_branch : list wr_after := [%s]." % "; ".join(wr[2]), ""]

    # ---- src/response.rs: write_http_response -- the head statement by statement, the shape of the body part
    rh = dict(head=[], body=None)
    try:
        rsrc = read(repo, "src/response.rs")
        raw = fn_body(rsrc, "pub async fn write_http_response")
        # remove white space outside string literals
        t, i, in_str = "", 0, False
        while i < len(raw):
            ch = raw[i]
            if in_str:
                t += ch
                if ch == "\\":
                    t += raw[i + 1]; i += 1
                elif ch == '"':
                    in_str = False
            elif ch == '"':
                in_str = True; t += ch
            elif not ch.isspace():
                t += ch
            i += 1
        WERR = {"UnwritableResponse": "WNUnwritable", "DuplicateContentTypeHeader": "WNDupContentType",
                "DuplicateContentLengthHeader": "WNDupContentLength",
                "DuplicateTransferEncodingHeader": "WNDupTransferEncoding", "Disconnected": "WNDisconnected"}
        def werr(n):
            return WERR.get(n, "WNOther")
        LIT = r'"((?:[^"\\]|\\.)*)"'
        def fmt_with(lit, args):
            """positional {} become named arguments"""
            names = {"response.code": "code", "reason_phrase(response.code)": "reason",
                     "response.content_type.as_str()": "ctype", "header.name": "hname"}
            out = lit
            for a in args:
                if a not in names or "{}" not in out:
                    raise ValueError("format argument %r" % a)
                out = out.replace("{}", "{%s}" % names[a], 1)
            if "{}" in out:
                raise ValueError("format string %r: missing argument" % lit)
            return "[%s]" % "; ".join(parse_fmt(out))
        FORMS = [
            (r"if!response\.is_normal\(\)\{returnErr\(HttpError::(\w+)\);\}",
             lambda m: "HSRejectUnlessNormal %s" % werr(m.group(1))),
            (r"letmuthead_bytes:Vec<u8>=format!\(" + LIT + r",response\.code,reason_phrase\(response\.code\)\)\.into_bytes\(\);",
             lambda m: "HSStatusLine %s" % fmt_with(m.group(1), ["response.code", "reason_phrase(response.code)"])),
            (r"ifresponse\.content_type!=ContentType::None\{if!response\.headers\.get_all\(" + LIT + r"\)\.is_empty\(\)\{returnErr\(HttpError::(\w+)\);\}"
             r"write!\(head_bytes," + LIT + r",response\.content_type\.as_str\(\)\)\.unwrap\(\);\}",
             lambda m: "HSContentType %s %s %s" % (coq_bytes(rust_unescape(m.group(1))), werr(m.group(2)), fmt_with(m.group(3), ["response.content_type.as_str()"]))),
            (r"ifclose\{write!\(head_bytes," + LIT + r",?\)\.unwrap\(\);\}",
             lambda m: "HSIfClose %s" % fmt_with(m.group(1), [])),
            (r"if!response\.headers\.get_all\(" + LIT + r"\)\.is_empty\(\)\{returnErr\(HttpError::(\w+)\);\}",
             lambda m: "HSRejectIfPresent %s %s" % (coq_bytes(rust_unescape(m.group(1))), werr(m.group(2)))),
            (r"ifletSome\(body_len\)=response\.body\.len\(\)\{write!\(head_bytes," + LIT + r"\)\.unwrap\(\);\}else\{write!\(head_bytes," + LIT + r"\)\.unwrap\(\);\}",
             lambda m: "HSFraming %s %s" % (fmt_with(m.group(1), []), fmt_with(m.group(2), []))),
            (r"forheaderin&response\.headers\{write!\(head_bytes," + LIT + r",header\.name\)\.unwrap\(\);"
             r"head_bytes\.extend\(header\.value\.chars\(\)\.map\(\|c\|u8::try_from\(c\)\.unwrap_or\(255\)\)\);head_bytes\.extend\(b" + LIT + r"\);\}",
             lambda m: "HSHeaders %s %s" % (fmt_with(m.group(1), ["header.name"]), coq_bytes(rust_unescape(m.group(2))))),
            (r"head_bytes\.extend\(b" + LIT + r"\);", lambda m: "HSExtend %s" % coq_bytes(rust_unescape(m.group(1)))),
        ]
        SEND = r"writer\.write_all\(head_bytes\.as_slice\(\)\)\.await\.map_err\(\|_\|HttpError::Disconnected\)\?;drop\(head_bytes\);"
        while not re.match(SEND, t):
            for pat, mk in FORMS:
                m = re.match(pat, t)
                if m:
                    rh["head"].append(mk(m)); t = t[m.end():]
                    break
            else:
                raise ValueError("head statement %r" % t[:70])
        t = t[re.match(SEND, t).end():]
        BODY = (r"matchresponse\.body\.len\(\)\{Some\(0\)=>\{\}"
                r"Some\(body_len\)=>\{letmutreader=AsyncReadExt::take\(response\.body\.async_reader\(\)\.await\.map_err\(HttpError::error_reading_file\)\?,body_len,\);"
                r"letnum_copied=copy_async\(&mutreader,&mutwriter\)\.await\.map_errs\(HttpError::error_reading_response_body,\|_\|\{HttpError::Disconnected\}\)\?;"
                r"ifnum_copied!=body_len\{returnErr\(HttpError::ErrorReadingResponseBody\(ErrorKind::UnexpectedEof,\"body is smaller than expected\"\.to_string\(\),\)\);\}\}"
                r"None=>\{letmutreader=response\.body\.async_reader\(\)\.await\.map_err\(HttpError::error_reading_response_body\)\?;"
                r"copy_chunked_async\(&mutreader,&mutwriter\)\.await\.map_errs\(HttpError::error_reading_response_body,\|_\|\{HttpError::Disconnected\}\)\?;\}\}"
                r"writer\.flush\(\)\.await\.map_err\(\|_\|HttpError::Disconnected\)")
        if not re.fullmatch(BODY, t):
            raise ValueError("the part after the head (write_all, drop, match body.len(), flush): %r" % t[:60])
        rh["body"] = True
    except Exception as e:   # noqa
        P.append("src/response.rs write_http_response: cannot translate (%s)" % e)
        rh = dict(head=[], body=False)
    L += ["(* src/response.rs write_http_response: the statements that build the head, in source order; the part after it",
          "   (write_all of the head -> Disconnected, drop, match body.len() { Some(0) | Some(n): take + copy_async + length check |",
          "   None: copy_chunked_async }, flush -> Disconnected) has the shape Model/Response.v transcribes *)",
          "Definition src_resp_head : list head_stmt := [\n  %s]." % ";\n  ".join(rh["head"]),
          "Definition src_resp_body_shape_ok : bool := %s." % ("true" if rh["body"] else "false"), ""]


    # ---- src/http_conn.rs: read_body_to_vec / read_body_to_file, arm by arm and statement by statement
    rb = {"read_body_to_vec": [], "read_body_to_file": []}
    try:
        hsrc = read(repo, "src/http_conn.rs")
        PATS = [("ReadState::Body{chunked:true,..}|ReadState::Body{gzip:true,..}", "RPChunkedOrGzip"),
                ("ReadState::Body{len:Some(len_u64),expect_continue,chunked:false,gzip:false,}", "RPKnown"),
                ("ReadState::Body{len:Some(len),chunked:false,gzip:false,..}iflen>max_len", "RPKnownOverMax"),
                ("ReadState::Body{len:Some(len),expect_continue,chunked:false,gzip:false,}", "RPKnown"),
                ("ReadState::Body{len:None,expect_continue,chunked:false,gzip:false,}", "RPUnknown"),
                ("ReadState::Head", "RPHead"), ("ReadState::Shutdown", "RPShutdown")]
        RBERR = {"BodyNotAvailable": "REBodyNotAvailable", "UnsupportedTransferEncoding": "REUnsupportedTransferEncoding",
                 "BodyTooLong": "REBodyTooLong", "Disconnected": "REDisconnected", "InvalidContentLength": "REInvalidContentLength"}
        CH = r"\(&mutself\.buf\)\.chain\(&mutself\.stream\)"
        STMTS = [(r"letlen_usize=usize::try_from\(len_u64\)\.map_err\(\|_\|HttpError::(\w+)\)\?;", lambda m: "RSTryFromLen %s" % RBERR.get(m.group(1), "REOther")),
                 (r"ifexpect_continue\{self\.write_http_continue\(\)\.await\?;\}", lambda m: "RSContinueIfExpect"),
                 (r"self\.read_state=ReadState::(Head|Shutdown);", lambda m: "RSSetState %s" % ("true" if m.group(1) == "Head" else "false")),
                 (r"letresult=read_http_body_to_vec\(" + CH + r",len_usize\)\.await;", lambda m: "RSReadKnown false"),
                 (r"letresult=read_http_body_to_file\(" + CH + r",len,dir\)\.await;", lambda m: "RSReadKnown true"),
                 (r"ifresult\.is_err\(\)\{self\.read_state=ReadState::Shutdown;\}", lambda m: "RSShutdownIfErr"),
                 (r"result$", lambda m: "RSResult"),
                 (r"read_http_unsized_body_to_vec\(" + CH + r"\)\.await$", lambda m: "RSReadUnknown false"),
                 (r"read_http_unsized_body_to_file\(" + CH + r",dir,max_len,\)\.await$", lambda m: "RSReadUnknown true")]
        for fn in rb:
            t = re.sub(r"\s+", "", fn_body(hsrc, "pub async fn %s" % fn))
            m = re.fullmatch(r"matchself\.read_state\{(.*)\}", t)
            if not m:
                raise ValueError("%s: not a single match on self.read_state" % fn)
            t = m.group(1)
            while t:
                for text, name in PATS:
                    if t.startswith(text + "=>"):
                        t = t[len(text) + 2:]
                        break
                else:
                    raise ValueError("%s: arm pattern %r" % (fn, t[:70]))
                if t.startswith("{"):
                    d, j = 1, 1
                    while d:
                        d += {"{": 1, "}": -1}.get(t[j], 0)
                        j += 1
                    body, t = t[1:j - 1], t[j:]
                    if t.startswith(","):
                        t = t[1:]
                else:
                    j = t.index(",")
                    body, t = t[:j], t[j + 1:]
                me = re.fullmatch(r"Err\(HttpError::(\w+)\)", body)
                if me:
                    rb[fn].append("(%s, RAErr %s)" % (name, RBERR.get(me.group(1), "REOther")))
                    continue
                stmts = []
                while body:
                    for pat, mk in STMTS:
                        mm = re.match(pat, body)
                        if mm:
                            stmts.append(mk(mm)); body = body[mm.end():]
                            break
                    else:
                        raise ValueError("%s: statement %r" % (fn, body[:70]))
                rb[fn].append("(%s, RABody [%s])" % (name, "; ".join(stmts)))
    except Exception as e:   # noqa
        P.append("src/http_conn.rs read_body: cannot translate (%s)" % e)
        rb = {"read_body_to_vec": [], "read_body_to_file": []}
    L += ["(* src/http_conn.rs HttpConn::read_body_to_vec / read_body_to_file: the arms of `match self.read_state`, in source order *)"]
    for fn in ("read_body_to_vec", "read_body_to_file"):
        L.append("Definition src_%s : list (rb_pat * rb_arm) := [\n  %s]." % (fn, ";\n  ".join(rb[fn])))
    L.append("")


    # ---- src/http_conn.rs: handle_http_conn_once and handle_http_conn, statement by statement
    once, loop = [], None
    try:
        hsrc = read(repo, "src/http_conn.rs")
        ERR = {"Disconnected": "OEDisconnected", "AlreadyGotBody": "OEAlreadyGotBody",
               "CacheDirNotConfigured": "OECacheDirNotConfigured"}
        def oerr(name):
            return ERR.get(name, "OEOther")
        def block_at(t, i):
            """t[i] == '{': returns (inside, index after the matching '}')"""
            assert t[i] == "{"
            d, j = 1, i + 1
            while d:
                d += {"{": 1, "}": -1}.get(t[j], 0)
                j += 1
            return t[i + 1:j - 1], j
        def kind_arms(t):
            arms = []
            while t:
                m = re.match(r"ResponseKind::(Normal|DropConnection|GetBodyAndReprocess\((?:\.\.|max_len)\))=>", t)
                if not m:
                    raise ValueError("kind arm %r" % t[:50])
                pat = {"N": "KPNormal", "D": "KPDrop", "G": "KPGetBody"}[m.group(1)[0]]
                binds = m.group(1).endswith("(max_len)")
                t = t[m.end():]
                if t.startswith("{"):
                    inner, j = block_at(t, 0)
                    t = t[j:]
                    if t.startswith(","):
                        t = t[1:]
                    if inner == "":
                        act = "KANothing"
                    else:
                        mm = re.fullmatch(r"letcache_dir=opt_cache_dir\.ok_or\(HttpError::(\w+)\)\?;"
                                          r"req\.body=http_conn\.read_body_to_file\(cache_dir,max_len\)\.await\?;", inner)
                        if not (mm and binds):
                            raise ValueError("kind arm body %r" % inner[:60])
                        act = "KAReadToFile %s" % oerr(mm.group(1))
                else:
                    mm = re.match(r"(first_response=Some\(response\)|returnErr\(HttpError::(\w+)\)),", t)
                    if not mm:
                        raise ValueError("kind arm action %r" % t[:50])
                    act = "KAKeepFirst" if mm.group(2) is None else "KAReturnErr %s" % oerr(mm.group(2))
                    t = t[mm.end():]
                arms.append("(%s, %s)" % (pat, act))
            return "[%s]" % "; ".join(arms)
        t = re.sub(r"\s+", "", fn_body(hsrc, "pub async fn handle_http_conn_once"))
        while t:
            if t.startswith("letmutreq=http_conn.read_request().await?;"):
                once.append("OSReadRequest"); t = t[len("letmutreq=http_conn.read_request().await?;"):]
            elif t.startswith("letmutfirst_response=None;"):
                once.append("OSInitFirst"); t = t[len("letmutfirst_response=None;"):]
            elif t.startswith("match&req.body{"):
                inner, j = block_at(t, len("match&req.body"))
                t = t[j:]
                arms = []
                while inner:
                    m = re.match(r"(RequestBody::PendingKnown\(len\)if\*len(<=|<)\(small_body_lenasu64\)|"
                                 r"RequestBody::PendingKnown\(\.\.\)\|RequestBody::PendingUnknown|_)=>", inner)
                    if not m:
                        raise ValueError("body arm %r" % inner[:60])
                    pat = ("BPWild" if m.group(1) == "_" else "BPPending" if m.group(2) is None
                           else "BPKnownLe" if m.group(2) == "<=" else "BPKnownLt")
                    b, j = block_at(inner, m.end())
                    inner = inner[j:]
                    if b == "":
                        act = "BANothing"
                    elif b == "req.body=http_conn.read_body_to_vec().await?;":
                        act = "BAReadToVec"
                    else:
                        pre = "letresponse=request_handler.clone()(req.clone()).await;matchresponse.kind"
                        if not b.startswith(pre + "{"):
                            raise ValueError("body arm action %r" % b[:60])
                        ka, j2 = block_at(b, len(pre))
                        if b[j2:] != "":
                            raise ValueError("after the kind match %r" % b[j2:][:40])
                        act = "BAAskHandler %s" % kind_arms(ka)
                    arms.append("(%s, %s)" % (pat, act))
                once.append("OSMatchBody [%s]" % ";\n      ".join(arms))
            elif t.startswith("letresponse=matchfirst_response{Some(response)=>response,None=>request_handler(req).await,};"):
                once.append("OSAnswer")
                t = t[len("letresponse=matchfirst_response{Some(response)=>response,None=>request_handler(req).await,};"):]
            elif t.startswith("matchresponse.kind{"):
                inner, j = block_at(t, len("matchresponse.kind"))
                t = t[j:]
                once.append("OSMatchKind %s" % kind_arms(inner))
            else:
                m = re.fullmatch(r"ifresponse\.is_normal\(\)&&\((response\.is_4xx\(\))?(\|\|)?(response\.is_5xx\(\))?\)"
                                 r"\{let_ignored=http_conn\.write_response\(&response\)\.await;Err\(HttpError::(\w+)\)\}"
                                 r"else\{http_conn\.write_response\(&response\)\.await\}", t)
                if not m or (bool(m.group(1)) and bool(m.group(3))) != bool(m.group(2)):
                    raise ValueError("statement %r" % t[:70])
                once.append("OSWriteTail %s %s %s" % ("true" if m.group(1) else "false", "true" if m.group(3) else "false", oerr(m.group(4))))
                t = ""
        t = re.sub(r"\s+", "", fn_body(hsrc, "pub async fn handle_http_conn<"))
        m = re.fullmatch(r"while!permit\.is_revoked\(\)\{(.*)\}", t)
        if not m:
            raise ValueError("handle_http_conn: not a single `while !permit.is_revoked()` loop")
        t = m.group(1)
        stmts = []
        CALL = ("letresult=handle_http_conn_once(&muthttp_conn,opt_cache_dir.as_deref(),small_body_len,"
                "async_request_handler.clone(),).await;")
        while t:
            if t.startswith("if!http_conn.is_ready(){return;}"):
                stmts.append("LSReturnUnlessReady"); t = t[len("if!http_conn.is_ready(){return;}"):]
            elif t.startswith(CALL):
                stmts.append("LSOnce"); t = t[len(CALL):]
            else:
                m = re.fullmatch(r"matchresult\{Ok\(\(\)\)=>\{\}Err\(HttpError::Disconnected\)=>return,Err\(e\)=>\{(.*)\}\}", t)
                if not m:
                    raise ValueError("handle_http_conn statement %r" % t[:70])
                acts, r = [], m.group(1)
                FORMS = [(r'println!\("ERROR\{\}",e\.description\(\)\);', "LAPrint"),
                         (r"let_ignored=http_conn\.write_response\(&e\.into\(\)\)\.await;", "LAWriteErrorResponse"),
                         (r"http_conn\.shutdown_write\(\);", "LAShutdownWrite"), (r"return;", "LAReturn")]
                while r:
                    for pat, name in FORMS:
                        mm = re.match(pat, r)
                        if mm:
                            acts.append(name); r = r[mm.end():]
                            break
                    else:
                        raise ValueError("error arm %r" % r[:60])
                stmts.append("LSMatchResult [%s]" % "; ".join(acts))
                t = ""
        loop = stmts
        # `impl From<HttpError> for Response` is tied separately (status tables, C20)
    except Exception as e:   # noqa
        P.append("src/http_conn.rs handle_http_conn: cannot translate (%s)" % e)
        once, loop = [], []
    L += ["(* src/http_conn.rs handle_http_conn_once, statement by statement *)",
          "Definition src_once : list once_stmt := [\n  %s]." % ";\n  ".join(once),
          "(* src/http_conn.rs handle_http_conn: the body of `while !permit.is_revoked() { .. }` *)",
          "Definition src_conn_loop : list loop_stmt := [%s]." % "; ".join(loop), ""]


    # ---- src/accept.rs: accept_loop, statement by statement
    acc = []
    try:
        asrc = read(repo, "src/accept.rs")
        t = re.sub(r"\s+", "", fn_body(asrc, "pub async fn accept_loop"))
        m = re.fullmatch(r'add_thread_local_log_tag\("thread_name","accept_loop"\);loop\{(.*)\}', t)
        if not m:
            raise ValueError("not `add_thread_local_log_tag(..); loop { .. }`")
        t = m.group(1)
        WAIT = ("letopt_token=FutureExt::or(async{Some(token_set.async_wait_token().await)},async{(&mutpermit).await;None}).await;")
        WAIT_PLAIN = "lettoken=token_set.async_wait_token().await;"
        ACC = "matchFutureExt::or(async{Some(AcceptResult::new(listener.accept().await))},async{(&mutpermit).await;None},).await"
        def arm_acts(b):
            acts = []
            FORMS = [(r"conn_handler\.clone\(\)\(permit\.new_sub\(\),token,stream,addr\);", lambda m: "AAHandToConn"),
                     (r'error\((?:"[^"]*"|format!\("[^"]*"\)),\(\)\)\.unwrap\(\);', lambda m: "AALogError"),
                     (r'let_=error\((?:"[^"]*"|format!\("[^"]*"\)),\(\)\);', lambda m: "AALogError"),
                     (r"safina::timer::sleep_for\(Duration::from_millis\((\d+)\)\)\.await;", lambda m: "AASleep %s" % m.group(1))]
            while b:
                for pat, mk in FORMS:
                    mm = re.match(pat, b)
                    if mm:
                        acts.append(mk(mm)); b = b[mm.end():]
                        break
                else:
                    raise ValueError("accept arm statement %r" % b[:60])
            return "[%s]" % "; ".join(acts)
        while t:
            if t.startswith(WAIT):
                acc.append("ASWaitTokenOrPermit"); t = t[len(WAIT):]
            elif t.startswith(WAIT_PLAIN):
                acc.append("ASWaitToken"); t = t[len(WAIT_PLAIN):]
            elif t.startswith("letSome(token)=opt_tokenelse{return;};"):
                acc.append("ASReturnIfNoToken"); t = t[len("letSome(token)=opt_tokenelse{return;};"):]
            elif t.startswith("ifpermit.is_revoked(){return;}"):
                acc.append("ASReturnIfRevoked"); t = t[len("ifpermit.is_revoked(){return;}"):]
            elif t.startswith(ACC + "{"):
                d, j = 1, len(ACC) + 1
                while d:
                    d += {"{": 1, "}": -1}.get(t[j], 0)
                    j += 1
                inner, t = t[len(ACC) + 1:j - 1], t[j:]
                arms = []
                while inner:
                    mm = re.match(r"(Some\(AcceptResult::Ok\(stream,addr\)\)|Some\(AcceptResult::TooManyOpenFiles\)|Some\(AcceptResult::Err\(e\)\)|None)=>\{", inner)
                    if not mm:
                        raise ValueError("accept arm %r" % inner[:60])
                    pat = {"Some(AcceptResult::Ok(stream,addr))": "APOk", "Some(AcceptResult::TooManyOpenFiles)": "APTooManyFiles",
                           "Some(AcceptResult::Err(e))": "APErr", "None": "APNone"}[mm.group(1)]
                    d, j = 1, mm.end()
                    while d:
                        d += {"{": 1, "}": -1}.get(inner[j], 0)
                        j += 1
                    arms.append("(%s, %s)" % (pat, arm_acts(inner[mm.end():j - 1])))
                    inner = inner[j:]
                acc.append("ASAcceptOrPermit [%s]" % ";\n      ".join(arms))
            else:
                raise ValueError("accept_loop statement %r" % t[:70])
    except Exception as e:   # noqa
        P.append("src/accept.rs accept_loop: cannot translate (%s)" % e)
        acc = []
    L += ["(* src/accept.rs accept_loop: the body of its `loop { .. }`, statement by statement *)",
          "Definition src_accept_loop : list acc_stmt := [\n  %s]." % ";\n  ".join(acc), ""]


    # ---- src/lib.rs: HttpServerBuilder::spawn -- the handler adaptor (a panic becomes a response), the wiring of the
    #      connection task, the size of the token set, the task that runs accept_loop and then reports "stopped"
    sp = None
    try:
        lsrc = read(repo, "src/lib.rs")
        raw = fn_body(lsrc, "pub async fn spawn<F>")
        t, i, in_str = "", 0, False
        while i < len(raw):
            ch = raw[i]
            if in_str:
                t += ch
                if ch == "\\":
                    t += raw[i + 1]; i += 1
                elif ch == '"':
                    in_str = False
            elif ch == '"':
                in_str = True; t += ch
            elif not ch.isspace():
                t += ch
            i += 1
        m = re.fullmatch(
            r"letasync_request_handler=\|req:Request\|asyncmove\{letrequest_handler_clone=request_handler\.clone\(\);"
            r"safina::executor::schedule_blocking\(move\|\|request_handler_clone\(req\)\)\.await\.unwrap_or_else\(\|_\|Response::text\((\d+),\"((?:[^\"\\]|\\.)*)\"\)\)\};"
            r"letconn_handler=move\|permit,token,stream:async_net::TcpStream,addr\|\{lethttp_conn=HttpConn::new\(addr,stream\);"
            r"safina::executor::spawn\(handle_http_conn\(permit,token,http_conn,self\.opt_cache_dir,self\.small_body_len,async_request_handler,\)\);\};"
            r"letlistener=TcpListener::bind\(self\.listen_addr\)\.await\?;letaddr=listener\.local_addr\(\)\?;"
            r"lettoken_set=TokenSet::new\(self\.max_conns\);let\(sender,receiver\)=safina::sync::oneshot\(\);"
            r"safina::executor::spawn\(asyncmove\{(.*)\}\);Ok\(\(addr,receiver\)\)", t)
        if not m:
            raise ValueError("shape of spawn")
        task, r = [], m.group(3)
        while r:
            if r.startswith("accept_loop(self.permit,listener,token_set,conn_handler).await;"):
                task.append("SSAcceptLoop"); r = r[len("accept_loop(self.permit,listener,token_set,conn_handler).await;"):]
            elif r.startswith("let_ignored=sender.send(());"):
                task.append("SSSendStopped"); r = r[len("let_ignored=sender.send(());"):]
            else:
                raise ValueError("spawned task statement %r" % r[:60])
        sp = (int(m.group(1)), rust_unescape(m.group(2)), task)
    except Exception as e:   # noqa
        P.append("src/lib.rs spawn: cannot translate (%s)" % e)
        sp = (0, b"", [])
    L += ["(* src/lib.rs HttpServerBuilder::spawn: what a panicking handler is turned into; the statements of the task that runs",
          "   accept_loop (the rest -- TokenSet::new(self.max_conns), the arguments of handle_http_conn -- is checked for shape) *)",
          "Definition src_panic_status : N := %d." % sp[0],
          "Definition src_panic_text : list N := %s." % coq_bytes(sp[1]),
          "Definition src_spawn_task : list spawn_stmt := [%s]." % "; ".join(sp[2]), ""]


    # ---- src/util.rs: copy_async -- the buffer length and the shape of its loop
    cp = None
    try:
        usrc = read(repo, "src/util.rs")
        t = re.sub(r"\s+", "", fn_body(usrc, "pub async fn copy_async"))
        m = re.fullmatch(r"letmutbuf=Box::pin\(<FixedBuf<(\d+)>>::new\(\)\);letmutnum_copied=0;loop\{"
                         r"matchreader\.read\(buf\.writable\(\)\)\.await\{Ok\(0\)=>returnCopyResult::Ok\(num_copied\),Ok\(n\)=>buf\.wrote\(n\),Err\(e\)=>returnCopyResult::ReaderErr\(e\),\}"
                         r"letreadable=buf\.read_all\(\);"
                         r"matchwriter\.write_all\(readable\)\.await\{Ok\(\(\)\)=>num_copied\+=readable\.len\(\)asu64,Err\(e\)=>returnCopyResult::WriterErr\(e\),\}\}", t)
        if not m:
            raise ValueError("shape")
        cp = int(m.group(1))
    except Exception as e:   # noqa
        P.append("src/util.rs copy_async: cannot translate (%s)" % e)
        cp = 0
    L += ["(* src/util.rs copy_async: FixedBuf<N>; the loop (read into the whole writable part: 0 => Ok(num), n => wrote, Err => ReaderErr;",
          "   read_all; write_all: Ok => num += len, Err => WriterErr) has the shape Model/Response.v transcribes *)",
          "Definition src_copy_buf_len : N := %d." % cp, ""]


    # ---- src/token_set.rs: TokenSet::new, the three ways to take a token, Token::drop -- statement by statement
    tk = dict(new=[], drop=[], takes=[])
    try:
        tsrc = read(repo, "src/token_set.rs")
        i = tsrc.index("impl Drop for Token")
        body = re.sub(r"\s+", "", fn_body(tsrc[i:], "fn drop"))
        if body == "let_=self.0.try_send(());":
            tk["drop"] = ["TDTrySendIgnore"]
        else:
            raise ValueError("Token::drop %r" % body[:60])
        j = tsrc.index("impl TokenSet")
        ts = tsrc[j:]
        body = re.sub(r"\s+", "", fn_body(ts, "pub fn new"))
        m = re.fullmatch(r"let\(sender,receiver\)=sync_channel\((\w+)\);for_in0\.\.(\w+)\{sender\.try_send\(\(\)\)\.unwrap\(\);\}Self\(sender,receiver\)", body)
        if not m or m.group(1) != "size" or m.group(2) != "size":
            raise ValueError("TokenSet::new %r" % body[:80])
        tk["new"] = ["TNChannelOfSize", "TNFillTrySendUnwrap", "TNSelf"]
        for fn, pat in (("pub async fn async_wait_token", r"self\.1\.async_recv\(\)\.await\.unwrap\(\);Token\(self\.0\.clone\(\)\)"),
                        ("pub fn wait_token", r"self\.1\.recv\(\)\.unwrap\(\);Token\(self\.0\.clone\(\)\)"),
                        ("pub fn wait_token_timeout", r"matchself\.1\.recv_timeout\(timeout\)\{Ok\(\(\)\)=>Ok\(Token\(self\.0\.clone\(\)\)\),Err\(RecvTimeoutError::Timeout\)=>Err\(TimeOut\),Err\(RecvTimeoutError::Disconnected\)=>unreachable!\(\),\}")):
            body = re.sub(r"\s+", "", fn_body(ts, fn + "("))
            if not re.fullmatch(pat, body):
                raise ValueError("%s %r" % (fn, body[:80]))
            tk["takes"].append("TTRecvThenCloneSender")
    except Exception as e:   # noqa
        P.append("src/token_set.rs: cannot translate (%s)" % e)
        tk = dict(new=[], drop=[], takes=[])
    L += ["(* src/token_set.rs: TokenSet::new, Token::drop and the three take functions (async_wait_token, wait_token,",
          "   wait_token_timeout), statement by statement *)",
          "Definition src_ts_new : list ts_new_stmt := [%s]." % "; ".join(tk["new"]),
          "Definition src_ts_drop : list ts_drop_stmt := [%s]." % "; ".join(tk["drop"]),
          "Definition src_ts_takes : list ts_take_stmt := [%s]." % "; ".join(tk["takes"]), ""]

    # ---- src/headers.rs: HeaderList::{add, get_only, get_all, remove_only, remove_all} -- loop shapes, the comparison,
    #      the Vec method that takes a header out
    hd = dict(cmp="", rm="")
    try:
        hsrc = read(repo, "src/headers.rs")
        i = hsrc.index("impl HeaderList")
        hs = hsrc[i:]
        flat = lambda name: re.sub(r"\s+", "", fn_body(hs, "pub fn " + name))
        CMP = r"\.name\.([a-z_]+)\(name\.as_ref\(\)\)"
        m = re.fullmatch(r"self\.0\.push\(Header::new\(name\.as_ref\(\)\.try_into\(\)\.unwrap\(\),value\)\);", flat("add"))
        if not m:
            raise ValueError("add: push(Header::new(name.try_into().unwrap(), value))")
        m1 = re.fullmatch(r"letmutvalue=None;forheaderin&self\.0\{ifheader" + CMP + r"\{ifvalue\.is_some\(\)\{returnNone;\}value=Some\(&header\.value\);\}\}value", flat("get_only"))
        m2 = re.fullmatch(r"letmutheaders=Vec::new\(\);forheaderin&self\.0\{ifheader" + CMP + r"\{headers\.push\(&header\.value\);\}\}headers", flat("get_all"))
        m3 = re.fullmatch(r"letmutiter=self\.remove_all\(name\)\.into_iter\(\);match\(iter\.next\(\),iter\.next\(\)\)\{\(Some\(value\),None\)=>Some\(value\),_=>None,\}", flat("remove_only"))
        m4 = re.fullmatch(r"letmutvalues=Vec::new\(\);letmutn=0;whilen<self\.0\.len\(\)\{ifself\.0\[n\]" + CMP + r"\{letheader=self\.0\.([a-z_]+)\(n\);values\.push\(header\.value\);\}else\{n\+=1;\}\}values", flat("remove_all"))
        if not (m1 and m2 and m3 and m4):
            raise ValueError("loop shape of %s" % ", ".join(n for n, mm in (("get_only", m1), ("get_all", m2), ("remove_only", m3), ("remove_all", m4)) if not mm))
        cmps = {m1.group(1), m2.group(1), m4.group(1)}
        if len(cmps) != 1:
            raise ValueError("different comparisons %r" % cmps)
        hd = dict(cmp=cmps.pop(), rm=m4.group(2))
    except Exception as e:   # noqa
        P.append("src/headers.rs HeaderList: cannot translate (%s)" % e)
        hd = dict(cmp="eq_ignore_ascii_case", rm="remove")
    L += ["(* src/headers.rs HeaderList: the loops have the shapes Model/Headers.v transcribes (checked by the translator);",
          "   the name comparison they all use and the Vec method by which remove_all takes a header out *)",
          "Definition src_hdr_compare : list N := %s." % coq_bytes(hd["cmp"]),
          "Definition src_hdr_remove_method : list N := %s." % coq_bytes(hd["rm"]), ""]

    # ---- src/head.rs: Head::try_read after read_head_bytes, statement by statement; literals of the two line parsers
    tr, trlit = [], None
    try:
        hs = read(repo, "src/head.rs")
        t = re.sub(r"\s+", "", fn_body(hs, "pub fn try_read"))
        FORMS = [
            (r"lethead=Self::read_head_bytes\(buf\)\?;", lambda m: "TRReadHeadBytes"),
            (r"letmutlines=head\.split\(\|b\|\*b==b'(\\?.)'\)\.map\(trim_trailing_cr\);",
             lambda m: "TRSplitLinesTrimCr %d" % rust_unescape(m.group(1))[0]),
            (r"letrequest_line=lines\.next\(\)\.ok_or\(HeadError::(\w+)\)\?;",
             lambda m: "TRFirstLineOr %s" % {"MissingRequestLine": "true"}.get(m.group(1), "false")),
            (r"let\(method,url\)=Self::parse_request_line\(request_line\)\?;", lambda m: "TRParseRequestLine"),
            (r"letmutheaders=HeaderList::new\(\);", lambda m: "TRNewHeaders"),
            (r"forlineinlines\{letheader=Self::parse_header_line\(line\)\?;headers\.push\(header\);\}", lambda m: "TRForLinesParsePush"),
            (r"Ok\(Self\{method,url,headers,\}\)$", lambda m: "TROkSelf"),
        ]
        while t:
            for pat, mk in FORMS:
                m = re.match(pat, t)
                if m:
                    tr.append(mk(m)); t = t[m.end():]
                    break
            else:
                raise ValueError("try_read statement %r" % t[:70])
        ph = re.sub(r"\s+", "", fn_body(hs, "fn parse_header_line"))
        m = re.search(r"letvalue_bytes=trim_whitespace\(value_bytes\);if!value_bytes\.iter\(\)\.all\(\|&b\|b==b'(\\?.)'\|\|\(b'(\\?.?)'\.\.=b'(\\?.)'\)\.contains\(&b\)\)\{returnErr\(HeadError::MalformedHeader\);\}", ph)
        if not m:
            raise ValueError("parse_header_line: the field-value byte test")
        pr = re.sub(r"\s+", "", fn_body(hs, "fn parse_request_line"))
        m2 = re.search(r"if!url_string\.starts_with\('(.)'\)\{returnErr\(HeadError::MalformedPath\);\}", pr)
        m3 = re.search(r'ifproto_bytes!=b"([^"]*)"\{returnErr\(HeadError::UnsupportedProtocol\);\}Ok\(\(method,url\)\)$', pr)
        if not (m2 and m3):
            raise ValueError("parse_request_line: the path / protocol tests")
        trlit = (rust_unescape(m.group(1))[0], (rust_unescape(m.group(2)) or b' ')[0], rust_unescape(m.group(3))[0], m2.group(1).encode(), m3.group(1).encode())
    except Exception as e:   # noqa
        P.append("src/head.rs try_read: cannot translate (%s)" % e)
        tr, trlit = [], (0, 0, 0, b"", b"")
    L += ["(* src/head.rs Head::try_read, statement by statement; the byte test of parse_header_line (b == tab || (lo..=hi).contains(b)),",
          "   the first character parse_request_line demands of the target and the protocol text it demands *)",
          "Definition src_try_read : list tr_stmt := [%s]." % "; ".join(tr),
          "Definition src_fv_tab : N := %d." % trlit[0], "Definition src_fv_lo : N := %d." % trlit[1], "Definition src_fv_hi : N := %d." % trlit[2],
          "Definition src_target_first : list N := %s." % coq_bytes(trlit[3]),
          "Definition src_protocol : list N := %s." % coq_bytes(trlit[4]), ""]


    # ---- src/head.rs: read_http_head (the read loop) and read_head_bytes (the delimiter search)
    rh, rhb = [], None
    try:
        hs = read(repo, "src/head.rs")
        t = re.sub(r"\s+", "", fn_body(hs, "pub async fn read_http_head"))
        m = re.fullmatch(r"loop\{(.*)\}", t)
        if not m:
            raise ValueError("read_http_head: not a single loop")
        t = m.group(1)
        RHE = {"HeadTooLong": "RHEHeadTooLong", "Disconnected": "RHEDisconnected", "Truncated": "RHETruncated"}
        FORMS = [
            (r"matchHead::try_read\(buf\)\{Ok\(head\)=>returnOk\(head\),Err\(HeadError::Truncated\)=>\{\}Err\(e\)=>returnErr\(e\.into\(\)\),\}",
             lambda m: "RHTryRead"),
            (r"ifbuf\.writable\(\)\.is_empty\(\)\{returnErr\(HttpError::(\w+)\);\}", lambda m: "RHReturnIfFull %s" % RHE.get(m.group(1), "RHEOther")),
            (r"matchstream\.read\(buf\.writable\(\)\)\.await\{Err\(\.\.\)\|Ok\(0\)ifbuf\.is_empty\(\)=>returnErr\(HttpError::(\w+)\),"
             r"Err\(\.\.\)\|Ok\(0\)=>returnErr\(HttpError::(\w+)\),Ok\(n\)=>buf\.wrote\(n\),\}",
             lambda m: "RHRead %s %s" % (RHE.get(m.group(1), "RHEOther"), RHE.get(m.group(2), "RHEOther"))),
        ]
        while t:
            for pat, mk in FORMS:
                mm = re.match(pat, t)
                if mm:
                    rh.append(mk(mm)); t = t[mm.end():]
                    break
            else:
                raise ValueError("read_http_head statement %r" % t[:70])
        b = re.sub(r"\s+", "", fn_body(hs, "fn read_head_bytes"))
        m = re.fullmatch(r'lethead_len=find_slice\(b"((?:[^"\\]|\\.)*)",buf\.readable\(\)\)\.ok_or\(HeadError::Truncated\)\?;'
                         r"lethead_bytes_with_delim=buf\.try_read_exact\(head_len\+(\d+)\)\.unwrap\(\);"
                         r"lethead_bytes=&head_bytes_with_delim\[0\.\.head_len\];Ok\(head_bytes\)", b)
        if not m:
            raise ValueError("read_head_bytes")
        rhb = (rust_unescape(m.group(1)), int(m.group(2)))
    except Exception as e:   # noqa
        P.append("src/head.rs read_http_head: cannot translate (%s)" % e)
        rh, rhb = [], (b"", 0)
    L += ["(* src/head.rs read_http_head: the body of its loop; read_head_bytes: the delimiter searched for and how many bytes",
          "   beyond the head are consumed *)",
          "Definition src_read_http_head : list rh_stmt := [%s]." % "; ".join(rh),
          "Definition src_head_delim : list N := %s." % coq_bytes(rhb[0]),
          "Definition src_head_delim_consumed : N := %d." % rhb[1], ""]


    # ---- src/head.rs: the two regex literals
    rx = []
    try:
        src = open(os.path.join(repo, "src/head.rs")).read()
        lits = re.findall(r'regex!\(\s*br"([^"]*)"\s*\)', src)
        if len(lits) != 2:
            raise ValueError("%d regex literals" % len(lits))
        rx = [parse_regex(x) for x in lits]
    except Exception as e:   # noqa
        P.append("src/head.rs: cannot translate the regex literals (%s)" % e)
        rx = ["REps", "REps"]
    L += ["(* src/head.rs: the request-line and field-line patterns (safe_regex full match) *)",
          "Definition src_request_line_regex : regex :=\n  %s." % rx[0],
          "Definition src_field_line_regex : regex :=\n  %s." % rx[1], ""]

    items = [("chunk", "src/util.rs"), ("event_queue", "src/response.rs event_stream"), ("conn_buf", "src/http_conn.rs HttpConn.buf"), ("conn_guards", "src/http_conn.rs state guards"),
             ("time", "src/time.rs"), ("content_type", "src/content_type.rs"), ("log_prio", "src/log/logger.rs log()"),
             ("event_fmt", "src/event.rs"), ("regex", "src/head.rs: cannot translate the regex"), ("cookie", "src/cookie.rs"), ("request", "src/request.rs"),
             ("json", "src/log/tag_value.rs"), ("jsonl", "src/log/logger.rs write_jsonl"), ("writer", "src/log/log_file_writer.rs"), ("headers", "src/headers.rs"), ("pfs", "src/log/prefix_file_set.rs"), ("token_set", "src/token_set.rs"), ("write_response", "src/http_conn.rs write_response"), ("conn_loop", "src/http_conn.rs handle_http_conn"), ("resp_head", "src/response.rs write_http_response"), ("accept", "src/accept.rs accept_loop"), ("try_read", "src/head.rs try_read"), ("read_body", "src/http_conn.rs read_body"), ("read_head", "src/head.rs read_http_head"), ("spawn", "src/lib.rs spawn"), ("copy_async", "src/util.rs copy_async")]
    L.append("(* what the translator could not read, per item (0 everywhere = the translation is complete) *)")
    for key, prefix in items:
        L.append("Definition src_problems_%s : nat := %d." % (key, sum(1 for p in P if p.startswith(prefix))))
    L.append("Definition src_translation_problems : nat := %d." % len(P))
    return "\n".join(L) + "\n", P


def _render_leap_rust(chain, last):
    s = ""
    for (mod, val) in chain:
        s += "if year %% %d == 0 { %s } else " % (mod, val)
    if last in ("true", "false"):
        s += "{ %s }" % last
    else:
        s += "{ year %% %s == 0 }" % re.search(r"Z.rem y (\d+)", last).group(1)
    # the source nests `else if`: "if a {x} else if b {y} else {z}"
    return s


def pre_proof():
    txt, problems = translate(vlib.REPO)
    path = os.path.join(vlib.COQ, "theories", "Generated", "SourceParams.v")
    if not os.path.exists(path) or open(path).read() != txt:
        open(path, "w").write(txt)
    return problems


if __name__ == "__main__":
    txt, problems = translate(sys.argv[1] if len(sys.argv) > 1 else vlib.REPO)
    sys.stdout.write(txt)
    for p in problems:
        print("PROBLEM:", p, file=sys.stderr)
