"""C06 -- response serialisation (write_http_response): case generator and evidence rules.

cases
  resp <close 0|1> <code> <ctype> H<k> <name> <value> ... <body> w:<wops> <pend>
     ctype  none | v<idx 0..15> | s<hex> (ContentType::Str) | S<hex> (ContentType::String)
     body   static:<data> | str:<data> | vec:<data> | file:<declared>:<data> | tmp:<declared>:<data>
            | filemissing:<n> | tmpmissing:<n> | filedir:<n> | es:<hex|e>,.. | drop | getbody
     data   x<hex> | g<seed>_<len> | z<hexbyte>_<len>
     obs    <ok|HttpError variant> <wire, run-length token> rp=<reason phrase> ct=<content-type text>
  rp <code>  /  ct <idx>   dump of the real reason_phrase / ContentType::as_str tables (every run,
                           exhaustively); the oracle evaluates the model's hypotheses on them
"""
RULE = ("corpus (D6 witnesses) first; the reason-phrase table for ALL codes 100..999 and ALL 16 fixed content types; "
        "then structured responses: status x content type x 0..20 extra fields (names over all tchar, values over "
        "printable ASCII + HTAB) x body variants static/str/vec/file/tempfile/event-stream with sizes "
        "{0,1,65535,65536,65537,200k,1MiB+1,3MiB} x short-write schedules with interleaved Pending; colliding field "
        "names in every letter case, multiplicity 1 and 2, on both body kinds; declared length shorter / longer than "
        "the file; missing and unreadable files; a separate out-of-domain stream (values with edge blanks or control "
        "bytes, non-token names, codes outside 100..999, non-Normal kinds). Non-trivial = refused, failed, or written "
        "with at least one user field or a non-empty body.")
ASSUMPTIONS = [
    "reason_phrase(code) and ContentType::as_str() are CR/LF-free printable text (checked on the real tables on every run: cases rp/ct)",
    "AsciiString holds only ASCII, so the ISO-8859-1 conversion of header values is the identity",
    "async_fs::File reads deliver the file's bytes in order (read sizes are not modelled; results are proved independent of them)",
    "Event::Message(text) with CR/LF-free text is read from the stream as 'data: ' text LF (C11 owns the event encoder)",
    "Poll::Pending with an immediate wake does not change what is written (exercised by the pend flag)",
]
EXHAUSTIVE = {"quick": False, "thorough": False}

TCHAR_SYMS = "!#$%&'*+-.^_`|~"
NAMES3 = ["content-type", "content-length", "transfer-encoding"]


def tok(s):
    if isinstance(s, str):
        s = s.encode("latin1")
    return "x" + s.hex()


def resp(close, code, ctype, headers, body, w=(), pend=0):
    h = " ".join("%s %s" % (tok(n), tok(v)) for n, v in headers)
    return "resp %d %d %s H%d %s%s w:%s %d" % (close, code, ctype, len(headers), h + " " if headers else "", body,
                                               ",".join(str(x) for x in w), pend)


def casemix(rng, s):
    return "".join(c.upper() if rng.random() < 0.5 else c.lower() for c in s)


def rand_name(rng):
    alphabet = "abcdefghijklmnopqrstuvwxyzABCDEFGHIJKLMNOPQRSTUVWXYZ0123456789" + TCHAR_SYMS
    r = rng.random()
    if r < 0.15:
        return rng.choice(TCHAR_SYMS) + "".join(rng.choice(alphabet) for _ in range(rng.randint(0, 5)))
    if r < 0.3:
        return rng.choice(["x-a", "X-A", "set-cookie", "cache-control", "location", "connection", "content-encoding",
                           "content-typ", "content-type2", "xcontent-length", "transfer-encodin", "Content-Disposition"])
    return "".join(rng.choice(alphabet) for _ in range(rng.randint(1, 12)))


def rand_value(rng):
    inner = [chr(c) for c in range(32, 127)] + ["\t"]
    edge = [chr(c) for c in range(33, 127)]
    n = rng.choice([0, 1, 1, 2, 3, 8, 20, rng.randint(0, 60)])
    if n == 0:
        return ""
    if n == 1:
        return rng.choice(edge)
    return rng.choice(edge) + "".join(rng.choice(inner) for _ in range(n - 2)) + rng.choice(edge)


def rand_ctype(rng):
    r = rng.random()
    if r < 0.25:
        return "none"
    if r < 0.75:
        return "v%d" % rng.randint(0, 15)
    text = rng.choice(["text/x", "a/b; charset=UTF-8", "application/vnd.x+json", "x", "a b\tc", "", rand_value(rng)])
    return ("s" if rng.random() < 0.5 else "S") + text.encode("latin1").hex()


def rand_small_data(rng, n=None):
    if n is None:
        n = rng.choice([0, 1, 2, 5, 17, rng.randint(0, 300)])
    if n <= 40 and rng.random() < 0.6:
        return "x" + bytes(rng.choice([13, 10, 48, 0, 255, 58, 32, rng.randint(0, 255)]) for _ in range(n)).hex()
    return "g%d_%d" % (rng.randint(0, 10**6), n)


def rand_ascii_data(rng, n):
    return "x" + bytes(rng.choice([10, 13, 32, 48] + list(range(33, 127))) for _ in range(n)).hex()


def rand_body(rng, size=None):
    r = rng.random()
    n = size
    if r < 0.2:
        return "vec:" + rand_small_data(rng, n)
    if r < 0.35:
        return "static:" + rand_small_data(rng, n)
    if r < 0.45:
        return "str:" + (rand_ascii_data(rng, n if n is not None else rng.randint(0, 40)) if (n or 0) <= 300 else "z41_%d" % n)
    if r < 0.65:
        d = rand_small_data(rng, n)
        ln = dlen(d)
        decl = rng.choice([ln, ln, ln, max(ln - 1, 0), ln + 1, 0, ln // 2, ln + 100])
        return "%s:%d:%s" % (rng.choice(["file", "tmp"]), decl, d)
    if r < 0.7:
        return rng.choice(["filemissing:%d", "tmpmissing:%d", "filedir:%d"]) % rng.choice([0, 1, 5, 70000])
    k = rng.choice([0, 1, 2, 3, 5])
    items = []
    for _ in range(k):
        t = "".join(chr(rng.randint(32, 126)) for _ in range(rng.choice([0, 1, 5, 30])))
        items.append(t.encode().hex() if t else "e")
    if k and rng.random() < 0.15:
        # an event at / over the read-buffer limit of copy_chunked_async: 65521 bytes still fit, 65522 make the source fail
        items.insert(rng.randint(0, len(items)), rng.choice(["B65521", "B65522", "B70000"]))
    return "es:" + ",".join(items)


def dlen(d):
    return (len(d) - 1) // 2 if d[0] == "x" else int(d.split("_")[1])


def rand_w(rng, small=True):
    r = rng.random()
    if r < 0.4:
        return []
    if r < 0.6 and small:
        return [1] * 700
    return [rng.choice([1, 2, 3, 7, 16, 100, 4096, 65536, rng.randint(1, 100000)]) for _ in range(rng.randint(1, 40))]


def gen(rng, tier):
    quick = tier != "thorough"
    cases = []
    # ---- the real tables, exhaustively
    for c in range(100, 1000):
        cases.append("rp %d" % c)
    for i in range(16):
        cases.append("ct %d" % i)
    # two overlapping responses of the same file: the first stalls mid-body while the second is written
    for size, stall in ((100000, 50000), (3000000, 70000), (12000000, 50000)) if quick else ((100000, 50000), (100000, 100), (3000000, 70000), (3000000, 2000000), (12000000, 50000), (12000000, 9000000), (20000000, 300)):
        cases.append("dual %d %d" % (size, stall))
    # ---- boundaries of Appendix A
    for code in (100, 199, 200, 999):
        for ct in ("none", "v0", "v15", "s" + b"x/y".hex(), "S" + b"x/y".hex()):
            for close in (0, 1):
                cases.append(resp(close, code, ct, [("x-a", "b")], "vec:x6869"))
    for i in range(16):
        cases.append(resp(i % 2, 200, "v%d" % i, [], "str:x6869", w=[1] * 200))
    for n in (0, 1, 65535, 65536, 65537):
        for kind in ("vec", "static", "file", "tmp"):
            d = "g%d_%d" % (n, n)
            body = "%s:%s" % (kind, d) if kind in ("vec", "static") else "%s:%d:%s" % (kind, n, d)
            cases.append(resp(0, 200, "v11", [("x-a", "b")], body, w=rng.choice([[], [65536, 1], [3, 100000]]), pend=rng.choice([0, 2])))
    big = [200000, 1048577, 3145728] if quick else [200000, 1048577, 3145728, 200000, 1048577, 3145728]
    for j, n in enumerate(big):
        kind = ["vec", "file", "static", "tmp"][j % 4]
        d = "g%d_%d" % (n, n)
        body = "%s:%s" % (kind, d) if kind in ("vec", "static") else "%s:%d:%s" % (kind, n, d)
        cases.append(resp(j % 2, 200, "v11", [], body, w=rng.choice([[], [65536] * 5, [1, 70000, 3]]), pend=rng.choice([0, 2])))
    # declared length != file length
    for kind in ("file", "tmp"):
        for ln, decl in ((5, 4), (5, 6), (5, 0), (0, 1), (5, 1), (70000, 69999), (70000, 70001), (65536, 65537), (1, 2**40)):
            cases.append(resp(0, 200, "none", [], "%s:%d:g1_%d" % (kind, decl, ln)))
    for b in ("filemissing:0", "filemissing:5", "tmpmissing:5", "filedir:5", "filedir:0", "drop", "getbody"):
        cases.append(resp(0, 200, "v13", [("x-a", "b")], b))
    # ---- colliding names: every letter-case pattern sampled, multiplicity 1 and 2, both body kinds, ctype set / not
    ncoll = 12 if quick else 200
    for name in NAMES3:
        variants = [name, name.upper(), name.title()] + [casemix(rng, name) for _ in range(ncoll)]
        for nm in variants:
            for mult in (1, 2):
                for body in ("vec:x6869", "es:6162", "file:2:x6869"):
                    for ct in ("none", "v13"):
                        hs = [("x-a", "1")] + [(nm if k == 0 else casemix(rng, name), rng.choice(["2", "chunked", "text/plain", "5"])) for k in range(mult)] + [("x-b", "2")]
                        rng.shuffle(hs)
                        cases.append(resp(rng.randint(0, 1), 200, ct, hs, body))
    # near misses must NOT be refused
    for nm in ("content-typ", "content-type2", "xcontent-length", "content_length", "transfer-encodin", "transfer-encodings", "connection", "Connection"):
        cases.append(resp(1, 200, "v13", [(nm, "close")], "vec:x6869"))
        cases.append(resp(0, 200, "none", [(nm, "1")], "es:6162"))
    # ---- structured random stream
    nrand = 2500 if quick else 120000
    for _ in range(nrand):
        code = rng.choice([100, 101, 199, 200, 204, 301, 304, 404, 418, 500, 503, 599, 999, rng.randint(100, 999), rng.randint(100, 999)])
        k = rng.choice([0, 0, 1, 2, 3, 5, 8, 20])
        hs = [(rand_name(rng), rand_value(rng)) for _ in range(k)]
        if rng.random() < 0.06:
            hs.insert(rng.randint(0, len(hs)), (casemix(rng, rng.choice(NAMES3)), rand_value(rng)))
        cases.append(resp(rng.randint(0, 1), code, rand_ctype(rng), hs, rand_body(rng), w=rand_w(rng), pend=rng.choice([0, 0, 2])))
    if not quick:
        # every status code x every content type (none, 16 variants, Str, String)
        cts = ["none"] + ["v%d" % i for i in range(16)] + ["s" + b"a/b".hex(), "S" + b"a/b".hex()]
        for code in range(100, 1000):
            for ct in cts:
                cases.append(resp(code % 2, code, ct, [("x-a", "b")], "vec:x6869"))
    # ---- out-of-domain (malformed) stream: only model = implementation is compared here
    nmal = 300 if quick else 5000
    for _ in range(nmal):
        r = rng.random()
        hs = [(rand_name(rng), rand_value(rng)) for _ in range(rng.randint(0, 2))]
        code = 200
        if r < 0.3:
            hs.append((rand_name(rng), rng.choice([" x", "x ", "\tx", " ", "a\x01b", "a\x7fb", "\x00", "a\rb", "a\nb", "a\r\nx-injected: 1"])))
        elif r < 0.5:
            hs.append((rng.choice(["a b", "a:b", "a(b", "", "a\x7f", "\"q\"", "a,b", "a/b", "[x]"]), "v"))
        elif r < 0.8:
            code = rng.choice([0, 1, 9, 10, 99, 1000, 9999, 65535])
        else:
            hs = hs + [(casemix(rng, "connection"), rng.choice(["close", "keep-alive"]))]
        cases.append(resp(rng.randint(0, 1), code, rand_ctype(rng), hs, rand_body(rng), w=rand_w(rng)))
    return cases


def _split(c):
    t = c.split()
    if t[0] != "resp":
        return None
    k = int(t[4][1:])
    hs = [(bytes.fromhex(t[5 + 2 * i][1:]), bytes.fromhex(t[6 + 2 * i][1:])) for i in range(k)]
    body = t[5 + 2 * k]
    return dict(close=int(t[1]), code=int(t[2]), ctype=t[3], hs=hs, body=body, w=t[6 + 2 * k], pend=int(t[7 + 2 * k]))


def _body_len(body):
    kind, _, arg = body.partition(":")
    if kind in ("vec", "static", "str"):
        return dlen(arg)
    if kind in ("file", "tmp"):
        return dlen(arg.split(":", 1)[1])
    if kind == "es":
        return len([x for x in arg.split(",") if x])
    return 0


def classify(c, model):
    s = _split(c)
    if s is None:
        return c.split()[0] + "-table"
    kind = s["body"].split(":")[0]
    n = _body_len(s["body"])
    size = "0" if n == 0 else "<=300" if n <= 300 else "<=65535" if n <= 65535 else "<=65537" if n <= 65537 else "big"
    coll = any(nm.lower() in (b"content-type", b"content-length", b"transfer-encoding") for nm, _ in s["hs"])
    ct = s["ctype"][0] if s["ctype"] != "none" else "n"
    return "%s:%s:%s:ct=%s:h%s%s" % (model.split()[0] if model else "?", kind, size, ct,
                                      "0" if not s["hs"] else "1-3" if len(s["hs"]) <= 3 else "4+", ":collide" if coll else "")


def nontrivial(c, model):
    s = _split(c)
    if s is None:
        return True
    return (not model.startswith("ok")) or bool(s["hs"]) or _body_len(s["body"]) > 0


def extra_evidence(results):
    codes, cts, letter_cases, mult2 = set(), set(), set(), 0
    short = longer = 0
    for r in results:
        s = _split(r[1])
        if s is None:
            continue
        codes.add(s["code"])
        cts.add(s["ctype"] if s["ctype"][0] == "v" or s["ctype"] == "none" else s["ctype"][0])
        names = [nm for nm, _ in s["hs"] if nm.lower() in (b"content-type", b"content-length", b"transfer-encoding")]
        for nm in names:
            letter_cases.add(nm)
        if len(names) >= 2:
            mult2 += 1
        kind, _, arg = s["body"].partition(":")
        if kind in ("file", "tmp"):
            decl, d = arg.split(":", 1)
            if int(decl) > dlen(d): short += 1
            if int(decl) < dlen(d): longer += 1
    return dict(boundary_hits=dict(status_codes_seen=len(codes), boundary_codes=[c for c in (100, 199, 200, 999) if c in codes],
                                   content_types_seen=sorted(cts), colliding_name_spellings=len(letter_cases),
                                   colliding_multiplicity_2=mult2, file_shorter_than_declared=short, file_longer_than_declared=longer),
                tables_dumped=dict(reason_phrases=sum(1 for r in results if r[1].startswith("rp ")),
                                   content_types=sum(1 for r in results if r[1].startswith("ct "))))


def _mk(s):
    h = " ".join("x%s x%s" % (n.hex(), v.hex()) for n, v in s["hs"])
    return "resp %d %d %s H%d %s%s %s %d" % (s["close"], s["code"], s["ctype"], len(s["hs"]), h + " " if s["hs"] else "", s["body"], s["w"], s["pend"])


def shrink(c):
    s = _split(c)
    if s is None:
        return
    for i in range(len(s["hs"])):
        t = dict(s); t["hs"] = s["hs"][:i] + s["hs"][i + 1:]
        yield _mk(t)
    if s["w"] != "w:":
        t = dict(s); t["w"] = "w:"; yield _mk(t)
        first = s["w"][2:].split(",")[0]
        if s["w"] != "w:" + first:
            t = dict(s); t["w"] = "w:" + first; yield _mk(t)
        if s["w"] != "w:1":
            t = dict(s); t["w"] = "w:1"; yield _mk(t)
    if s["pend"]:
        t = dict(s); t["pend"] = 0; yield _mk(t)
    if s["close"]:
        t = dict(s); t["close"] = 0; yield _mk(t)
    if s["ctype"] != "none":
        t = dict(s); t["ctype"] = "none"; yield _mk(t)
    if s["body"] not in ("vec:x", "vec:x61"):
        for b in ("vec:x", "vec:x61"):
            t = dict(s); t["body"] = b; yield _mk(t)
    if s["code"] != 200:
        t = dict(s); t["code"] = 200; yield _mk(t)
    for i, (n, v) in enumerate(s["hs"]):
        if len(v) > 1:
            t = dict(s); t["hs"] = s["hs"][:i] + [(n, v[:1])] + s["hs"][i + 1:]; yield _mk(t)


def neighbours(c, rng):
    s = _split(c)
    if s is None:
        return []
    out = []
    for body in ("vec:x", "vec:x6869", "es:6162", "file:2:x6869", "file:3:x6869", "static:g1_65537"):
        for ct in ("none", "v13"):
            for close in (0, 1):
                t = dict(s); t["body"] = body; t["ctype"] = ct; t["close"] = close
                out.append(_mk(t))
    for name in NAMES3:
        for mult in (1, 2):
            t = dict(s); t["hs"] = s["hs"] + [(name.encode(), b"1")] * mult
            out.append(_mk(t))
    return out
