"""C17 -- every log line is one valid JSON object that preserves the tag values:
case generator, evidence rules, shrinker."""
import struct

RULE = ("'ev' cases: one LogEvent::new(level, tags).write_jsonl per case, 0..20 tags, names and string values over "
        "all escape classes (C0 controls, quote, backslash, DEL, C1, U+2028/9, BMP edges, astral, JSON-looking "
        "break-out text), every integer variant at min/max/0/-1 and random, f32/f64 by bit pattern (0, -0, subnormal, "
        "max, NaN payloads, +-inf, random), bool, null/None/Some; 'chars lo n' cases: n events each carrying the "
        "one-character string U+lo+i (thorough: every scalar value, exhaustive); 'resp' cases: the "
        "log_response path (event taken from the global logger channel, then write_jsonl). "
        "Non-trivial = the event has at least one tag (distinct by full case text).")
ASSUMPTIONS = [
    "float_text_grammar: Rust's Display for a finite f32/f64 prints -?(0|[1-9][0-9]*)(.[0-9]+)? and 'NaN'/'inf'/'-inf' otherwise "
    "(Section hypothesis of the theorems; evaluated by the driver on every float text the harness observed)",
    "Rust's float Display denotes the value (shortest round-trip printing) -- not modelled; the theorem is about the text",
    "time_text_ok: the 20-character time member is printable text without quote/backslash/control (calendar model is C16); "
    "evaluated by the oracle on every implementation line",
    "integer Display prints the decimal numeral of the mathematical value (std), all widths",
    "TagValue::Float built by hand from an arbitrary string (public variant in log::internal) is outside the claim",
    "fmt::Write into Vec<u8> emits the UTF-8 encoding of the written chars (std); the driver decodes with the extracted strict utf8_decode",
]
EXHAUSTIVE = {"quick": False, "thorough": True}

BOUNDARY = [0x0, 0x1, 0x8, 0x9, 0xA, 0xC, 0xD, 0x1F, 0x20, 0x22, 0x2F, 0x5C, 0x7F, 0x80, 0x9F, 0xA0, 0xAD, 0x200B, 0x2028, 0x2029,
            0xD7FF, 0xE000, 0xFEFF, 0xFFFD, 0xFFFE, 0xFFFF, 0x10000, 0x1F600, 0xE0001, 0x10FFFF]
INT_RANGES = {
    "i8": (-2**7, 2**7 - 1), "i16": (-2**15, 2**15 - 1), "i32": (-2**31, 2**31 - 1), "i64": (-2**63, 2**63 - 1),
    "i128": (-2**127, 2**127 - 1), "u8": (0, 2**8 - 1), "u16": (0, 2**16 - 1), "u32": (0, 2**32 - 1),
    "u64": (0, 2**64 - 1), "u128": (0, 2**128 - 1), "usize": (0, 2**64 - 1),
}
F64_SPECIAL = [0x0, 0x8000000000000000, 0x1, 0x8000000000000001, 0x000FFFFFFFFFFFFF, 0x0010000000000000,
               0x7FEFFFFFFFFFFFFF, 0xFFEFFFFFFFFFFFFF, 0x7FF0000000000000, 0xFFF0000000000000,
               0x7FF8000000000000, 0xFFF8000000000000, 0x7FF0000000000001, 0x7FFFFFFFFFFFFFFF,
               0x3FF0000000000000, 0xBFF0000000000000, 0x3FB999999999999A, 0x3CB0000000000000,
               0x4340000000000000, 0x433FFFFFFFFFFFFF, 0x7E37E43C8800759C, 0x01A56E1FC2F8F359, 0x3FD5555555555555]
F32_SPECIAL = [0x0, 0x80000000, 0x1, 0x80000001, 0x007FFFFF, 0x00800000, 0x7F7FFFFF, 0xFF7FFFFF, 0x7F800000, 0xFF800000,
               0x7FC00000, 0xFFC00000, 0x7F800001, 0x3F800000, 0x3DCCCCCD, 0x34000000, 0x4B800000, 0x7149F2CA]
BREAKOUT = ['"', '\\', '\\"', '","x":"y', '"}\n{"a":"', '\n', '\r\n', '\\u0000', '\\n', '"}', '",', ':', '{', '}', '\\u{1}',
            'NaN', 'inf', '-inf', 'null', 'true', '"time_ns":0}', ' ', ' ', '\x7f', '\x00', '\x1b[0m', '퟿', '']
NAMES = ["msg", "k", "code", "path", "http_method", "a b", "", "x\"y", "n\\", "t\tn", "é", "名前", "\U0001F600", "time", "level",
         "time_ns", "k\x01", "k\n", "request_body_len", "K"]


def utok(s):
    return "u" + ",".join(str(ord(c)) if isinstance(c, str) else str(c) for c in s)


def rand_scalar(rng):
    r = rng.random()
    if r < 0.25:
        return rng.choice(BOUNDARY)
    if r < 0.45:
        return rng.randint(0x20, 0x7E)
    if r < 0.60:
        return rng.randint(0, 0x1F)
    if r < 0.70:
        return rng.choice([0x22, 0x5C, 0x2F, 0x0A, 0x0D, 0x09, 0x08, 0x0C])
    if r < 0.80:
        return rng.randint(0x7F, 0x7FF)
    if r < 0.90:
        c = rng.randint(0x800, 0xFFFF)
        return c if not (0xD800 <= c <= 0xDFFF) else 0xFFFD
    return rng.randint(0x10000, 0x10FFFF)


def rand_string(rng, maxlen=12):
    r = rng.random()
    if r < 0.12:
        base = [ord(c) for c in rng.choice(BREAKOUT)]
        if rng.random() < 0.5:
            base = [rand_scalar(rng)] + base + [rand_scalar(rng)]
        return base
    n = rng.choice([0, 1, 1, 2, 3, 5, 8, maxlen, rng.randint(0, 40)])
    return [rand_scalar(rng) for _ in range(n)]


def rand_name(rng):
    if rng.random() < 0.7:
        return [ord(c) for c in rng.choice(NAMES)]
    return rand_string(rng, 6)


def rand_int(rng):
    ty = rng.choice(list(INT_RANGES))
    lo, hi = INT_RANGES[ty]
    r = rng.random()
    if r < 0.5:
        v = rng.choice([lo, hi, 0, -1 if lo < 0 else 1, lo + 1, hi - 1])
    elif r < 0.75:
        v = rng.randint(lo, hi)
    else:
        v = rng.randint(max(lo, -1000), min(hi, 1000))
    return "%s:%d" % (ty, v)


def rand_float(rng):
    r = rng.random()
    if rng.random() < 0.5:
        if r < 0.5:
            return "f64:%d" % rng.choice(F64_SPECIAL)
        if r < 0.8:
            return "f64:%d" % rng.getrandbits(64)
        # "ordinary" values
        x = rng.choice([rng.uniform(-1000, 1000), rng.randint(-10**6, 10**6) / 100.0, 10.0 ** rng.randint(-30, 30), float(rng.randint(-50, 50))])
        return "f64:%d" % struct.unpack("<Q", struct.pack("<d", x))[0]
    if r < 0.5:
        return "f32:%d" % rng.choice(F32_SPECIAL)
    if r < 0.8:
        return "f32:%d" % rng.getrandbits(32)
    x = rng.choice([rng.uniform(-1000, 1000), 10.0 ** rng.randint(-30, 30), float(rng.randint(-50, 50))])
    return "f32:%d" % struct.unpack("<I", struct.pack("<f", x))[0]


def rand_value(rng):
    r = rng.random()
    if r < 0.50:
        return ("s:" if rng.random() < 0.85 else "ss:") + utok(rand_string(rng))
    if r < 0.68:
        return rand_int(rng)
    if r < 0.84:
        return rand_float(rng)
    if r < 0.90:
        return "b:%d" % rng.randint(0, 1)
    if r < 0.94:
        return rng.choice(["none", "null"])
    return "some:" + rng.choice(["s:" + utok(rand_string(rng)), "b:1", "i64:%d" % rng.randint(-2**63, 2**63 - 1), "u64:%d" % rng.getrandbits(64)])


def ev(level, tags):
    return "ev %s %d%s" % (level, len(tags), "".join(" %s %s" % (utok(n), v) for n, v in tags))


def fixed_cases():
    cases = []
    K = [ord("k")]
    # every boundary code point: alone as a value, inside a value, as a name, next to a quote
    for c in BOUNDARY:
        cases.append(ev("info", [(K, "s:" + utok([c]))]))
        cases.append(ev("info", [(K, "s:" + utok([0x61, c, 0x62])), ([c], "s:" + utok([c, 0x22]))]))
        cases.append(ev("error", [([0x6E, c], "ss:" + utok([0x5C, c]))]))
    for b in BREAKOUT:
        cases.append(ev("debug", [(K, "s:" + utok(b)), ([ord(x) for x in b], "b:1")]))
    # every integer type at min / max / 0 / -1 (or 1)
    for ty, (lo, hi) in INT_RANGES.items():
        for v in [lo, hi, 0, -1 if lo < 0 else 1]:
            cases.append(ev("info", [(K, "%s:%d" % (ty, v))]))
    for bits in F64_SPECIAL:
        cases.append(ev("info", [(K, "f64:%d" % bits)]))
    for bits in F32_SPECIAL:
        cases.append(ev("info", [(K, "f32:%d" % bits)]))
    for v in ["b:0", "b:1", "none", "null", "some:b:0", "some:s:u34", "some:i64:-9223372036854775808", "some:u64:18446744073709551615"]:
        cases.append(ev("info", [(K, v)]))
    for lvl in ["error", "info", "debug"]:
        cases.append(ev(lvl, []))
    # 0..20 tags, and repeated names
    for k in range(0, 21):
        cases.append(ev("info", [([0x74, 48 + i // 10, 48 + i % 10], "u8:%d" % i) for i in range(k)]))
    cases.append(ev("info", [([ord(c) for c in "msg"], "s:u97"), ([ord(c) for c in "msg"], "s:u98")]))
    return cases


def rand_response(rng, rid):
    code = rng.choice([200, 204, 301, 400, 404, 413, 500, 503, 599, rng.randint(100, 999)])
    blen = rng.choice(["-", "0", "1", str(rng.randint(0, 70000))])
    return "%d %s %d" % (code, blen, rid)


def rand_handler_result(rng, rid, floats=True):
    """ok <response> | err <msg|-> <bt> <k> tags (none | some <response>)   -- see harness/src/logshared.rs"""
    if rng.random() < 0.4:
        return "ok " + rand_response(rng, rid)
    msg = "-" if rng.random() < 0.3 else utok(rand_string(rng))
    k = rng.choice([0, 0, 1, 2, 3, 6])
    tags = []
    for _ in range(k):
        v = rand_value(rng)
        while not floats and v.startswith("f"):
            v = rand_value(rng)
        tags.append((rand_name(rng), v))
    tail = "none" if rng.random() < 0.5 else "some " + rand_response(rng, rid)
    return "err %s %d %d%s %s" % (msg, rng.randint(0, 1), k, "".join(" %s %s" % (utok(a), v) for a, v in tags), tail)


def resp_cases(rng, n):
    """log_response path"""
    return ["resp " + rand_handler_result(rng, i + 1) for i in range(n)]


def gen(rng, tier):
    cases = fixed_cases()
    quick = tier != "thorough"
    # the single-character sweep
    if quick:
        for lo in range(0, 0x100, 64):
            cases.append("chars %d 64" % lo)
        edges = [0x7C0, 0x800, 0x2000, 0xD7C0, 0xDFC0, 0xE000, 0xFDC0, 0xFFC0]
        for p in range(1, 17):
            edges += [p * 0x10000 - 64, p * 0x10000, p * 0x10000 + rng.randrange(0, 0x10000 - 64, 64)]
        for lo in edges:
            cases.append("chars %d 64" % min(lo, 0x110000 - 64))
        for _ in range(40):
            cases.append("chars %d 64" % rng.randrange(0, 0x110000 - 64))
    else:
        for lo in range(0, 0x110000, 64):
            cases.append("chars %d 64" % lo)
    # random events (about 3.3 string values or names per event)
    n = 6500 if quick else 250000
    for _ in range(n):
        k = rng.choice([0, 1, 1, 2, 2, 3, 4, 6, 10, 20, rng.randint(0, 20)])
        tags = [(rand_name(rng), rand_value(rng)) for _ in range(k)]
        cases.append(ev(rng.choice(["error", "info", "debug"]), tags))
    cases += resp_cases(rng, 600 if quick else 20000)
    # long values and names (a limit on the line or value length, if one is ever added, must not cut inside an escape
    # sequence): plain runs of every length around 1 KiB .. 64 KiB boundaries followed by an escaped character, long runs
    # of characters that need escapes, a long value followed by further tags
    K = [ord("k")]
    for n in (1020, 4090):
        for d in range(0, 8):
            for tail in ([0x22], [0x0A], [0x1F, 0x22]):
                cases.append(ev("info", [(K, "s:" + utok([0x61] * (n + d) + tail)), ([ord("z")], "b:1")]))
    for n in range(8185, 8194) if quick else list(range(8180, 8200)) + list(range(16376, 16390)):
        for tail in ([0x22], [0x5C], [0x01]):
            cases.append(ev("info", [(K, "s:" + utok([0x61] * n + tail)), ([ord("z")], "b:1")]))
    # events with a given time: the epoch itself, the first second after it, digit boundaries of the nanosecond count,
    # 2^63 / 2^64 nanoseconds, the year 9999
    for (sec, ns) in ((0, 0), (0, 1), (0, 999999999), (0, 100000000), (0, 99999999), (1, 0), (1, 1), (9, 999999999), (10, 0),
                      (999999999, 999999999), (9223372036, 854775807), (9223372036, 854775808), (18446744073, 709551615),
                      (18446744073, 709551616), (253402300799, 999999999), (1700000000, 5), (1700000000, 50)):
        cases.append("evt %d %d info 0" % (sec, ns))
        cases.append("evt %d %d error 1 %s %s" % (sec, ns, utok(K), "s:" + utok([0x61, 0x22])))
    # the same events as the file log writer writes them (LogFileWriter with max_write_bytes at its 64 KiB minimum):
    # small ones, and lines longer than max_write_bytes (they must come out whole)
    def fev(level, tags):
        return "file" + ev(level, tags)[2:]
    cases.append(fev("info", [(K, "s:" + utok([0x61, 0x22, 0x0A, 0x1F600]))]))
    cases.append(fev("error", [(K, "s:" + utok([0x61] * 3000 + [0x22])), ([ord("z")], "u128:340282366920938463463374607431768211455")]))
    for n in (65400, 65536, 70000) if quick else (65400, 65470, 65536, 65537, 70000, 131073, 200000):
        cases.append(fev("info", [(K, "s:" + utok([0x61] * n + [0x22, 0x5C])), ([ord("z")], "b:1")]))
    for n in (1364, 1365, 1366, 1367) if quick else (1364, 1365, 1366, 1367, 2731, 4096, 8192):
        cases.append(ev("error", [(K, "s:" + utok([0x01] * n)), ([ord("z")], "u8:1")]))
        cases.append(ev("error", [(K, "s:" + utok([0x22] * (3 * n)))]))
        cases.append(ev("debug", [([0x6E] * (6 * n) + [0x5C], "s:" + utok([0x5C] * 3))]))
    return cases


def classify(case, model):
    t = case.split()
    if t[0] == "chars":
        lo = int(t[1])
        return "chars:plane%d" % (lo >> 16)
    if t[0] == "resp":
        return "resp:" + t[1]
    if t[0] == "evt":
        return "evt:given-time"
    k = int(t[2])
    kinds = set(x.split(":")[0] for x in t[4::2])
    kinds = set("int" if (x[0] in "iu" and x[1:].isdigit()) or x == "usize" else x for x in kinds)
    return "%s:tags%s:%s" % (t[0], "0" if k == 0 else "1-3" if k <= 3 else "4-10" if k <= 10 else "11-20", "+".join(sorted(kinds)))


def nontrivial(case, model):
    t = case.split()
    if t[0] == "ev":
        return int(t[2]) > 0
    return True


def extra_evidence(results):
    """Hits per Appendix-A boundary."""
    hits = {}
    def hit(k, n=1):
        hits[k] = hits.get(k, 0) + n
    bset = set(BOUNDARY)
    for r in results:
        t = r[1].split()
        if t[0] == "chars":
            lo, n = int(t[1]), int(t[2])
            for c in BOUNDARY:
                if lo <= c < lo + n:
                    hit("U+%04X" % c)
        elif t[0] == "ev":
            for v in t[4::2]:
                ty, _, arg = v.partition(":")
                if ty in ("s", "ss") and arg.startswith("u") and len(arg) > 1:
                    for c in set(int(x) for x in arg[1:].split(",")) & bset:
                        hit("U+%04X" % c)
                elif ty in INT_RANGES:
                    lo, hi = INT_RANGES[ty]
                    if int(arg) == lo:
                        hit(ty + ".min")
                    if int(arg) == hi:
                        hit(ty + ".max")
                elif ty in ("f64", "f32"):
                    b = int(arg)
                    w = 64 if ty == "f64" else 32
                    eb, mb = (11, 52) if w == 64 else (8, 23)
                    e = (b >> mb) & ((1 << eb) - 1)
                    m = b & ((1 << mb) - 1)
                    if e == (1 << eb) - 1:
                        hit(ty + (".nan" if m else ".inf" if not (b >> (w - 1)) else ".-inf"))
                    elif e == 0 and m == 0:
                        hit(ty + (".-0" if b >> (w - 1) else ".0"))
                    elif e == 0:
                        hit(ty + ".subnormal")
    return {"boundary_hits": dict(sorted(hits.items()))}


def _split_ev(t):
    lvl, k = t[1], int(t[2])
    tags = [(t[3 + 2 * i], t[4 + 2 * i]) for i in range(k)]
    return lvl, tags


def shrink(case):
    t = case.split()
    if t[0] == "chars":
        lo, n = int(t[1]), int(t[2])
        if n > 1:
            h = n // 2
            yield "chars %d %d" % (lo, h)
            yield "chars %d %d" % (lo + h, n - h)
        return
    if t[0] == "resp":
        if t[1] == "err":
            k = int(t[4])
            tags = [(t[5 + 2 * i], t[6 + 2 * i]) for i in range(k)]
            tail = t[5 + 2 * k:]
            for j in range(k):
                rest = tags[:j] + tags[j + 1:]
                yield " ".join(t[:4]) + " %d%s %s" % (len(rest), "".join(" %s %s" % x for x in rest), " ".join(tail))
            if t[2] != "-":
                yield " ".join(t[:2] + ["-"] + t[3:])
            if t[3] == "1":
                yield " ".join(t[:3] + ["0"] + t[4:])
        return
    if t[0] != "ev":
        return        # file / evt cases are small already
    lvl, tags = _split_ev(t)
    def mk(tags):
        return "ev %s %d%s" % (lvl, len(tags), "".join(" %s %s" % x for x in tags))
    for j in range(len(tags)):
        yield mk(tags[:j] + tags[j + 1:])
    for j, (n, v) in enumerate(tags):
        if n != "u107":
            yield mk(tags[:j] + [("u107", v)] + tags[j + 1:])
        ty, _, arg = v.partition(":")
        if ty in ("s", "ss") and arg.startswith("u") and "," in arg:
            cs = arg[1:].split(",")
            for i in range(len(cs)):
                yield mk(tags[:j] + [(n, "%s:u%s" % (ty, ",".join(cs[:i] + cs[i + 1:])))] + tags[j + 1:])


def neighbours(case, rng):
    t = case.split()
    out = []
    if t[0] == "chars":
        lo = int(t[1])
        for d in (-64, 64):
            if 0 <= lo + d <= 0x110000 - 64:
                out.append("chars %d 64" % (lo + d))
    elif t[0] == "ev":
        lvl, tags = _split_ev(t)
        for (n, v) in tags:
            out.append("ev %s 1 %s %s" % (lvl, n, v))
            out.append("ev %s 1 u107 %s" % (lvl, v))
    return out
