"""C20 -- status helpers and error-to-response mapping.

The finite tables are REGENERATED from the repository source on every run (pre_proof): a small
translator reads the `_NNN` constructors of src/response.rs, the enum / is_server_error /
description / From<HttpError> for Response of src/http_error.rs and the `close` rule of
src/http_conn.rs and writes coq/theories/Generated/StatusTables.v.  The theorems of
Properties/C20.v are re-checked against that file; the correspondence then validates the
translator exhaustively (every constructor, every variant, every status code 100..999 through a
real connection)."""
import os, re, sys
sys.path.insert(0, os.path.dirname(os.path.dirname(os.path.abspath(__file__))))
import vlib

RULE = ("exhaustive: every `_NNN` constructor found in src/response.rs by regex, every HttpError variant found in "
        "src/http_error.rs x payload texts (random markers, CR/LF, path-like), every status code 100..999 written "
        "through a real HttpConn over loop-back; non-trivial = every case (each is a distinct table cell / payload)")
ASSUMPTIONS = ["the translator props/c20.py (regex-based) reads the tables correctly; validated exhaustively by the correspondence run",
               "spec classes of the 28 error variants are hand-written from the documentation (Spec/ErrorClasses.v)"]
EXHAUSTIVE = {"quick": True, "thorough": True}
MARKED = True   # the connection loop under test prints "ERROR ..." to stdout; observation lines carry the @@ mark
TRUSTED_EXTRA = ["translator props/c20.py: regenerates Generated/StatusTables.v from src/response.rs, src/http_error.rs, src/http_conn.rs on every run"]

def coq_bytes(s):
    return "[" + ";".join(str(b) for b in s.encode("latin1")) + "]"

def strip_comments(src):
    return re.sub(r"//[^\n]*", "", src)

def rust_unescape(lit):
    out = []
    i = 0
    while i < len(lit):
        c = lit[i]
        if c == "\\":
            n = lit[i + 1]
            out.append({"n": "\n", "r": "\r", "t": "\t", "\\": "\\", '"': '"', "0": "\0"}.get(n, n))
            i += 2
        else:
            out.append(c); i += 1
    return "".join(out)

def parse_sources(repo):
    resp = strip_comments(open(os.path.join(repo, "src/response.rs")).read())
    herr = strip_comments(open(os.path.join(repo, "src/http_error.rs")).read())
    conn = strip_comments(open(os.path.join(repo, "src/http_conn.rs")).read())
    problems = []
    # --- constructors named *_NNN
    ctors = []
    for m in re.finditer(r"pub fn ([a-z_0-9]*_(\d{3}))\s*\(([^)]*)\)\s*->\s*Self\s*\{", resp):
        name = m.group(1)
        # body up to the matching brace
        i = m.end(); depth = 1
        while depth and i < len(resp):
            depth += {"{": 1, "}": -1}.get(resp[i], 0); i += 1
        body = resp[m.end():i]
        mm = re.search(r"(?:Response|Self)::(?:new|text|html)\(\s*(\d+)", body)
        if not mm:
            problems.append("cannot translate constructor %s" % name)
            continue
        ws = re.findall(r"\.with_status\(\s*(\d+)", body)
        code = int(ws[-1]) if ws else int(mm.group(1))
        ctors.append((name, code, m.group(3).strip()))
    # --- enum
    em = re.search(r"pub enum HttpError\s*\{(.*?)\n\}", herr, re.S)
    variants = []
    for mm in re.finditer(r"^\s*([A-Z][A-Za-z0-9_]*)\s*(\([^)]*\))?\s*,", em.group(1), re.M):
        variants.append((mm.group(1), bool(mm.group(2))))
    names = [n for n, _ in variants]
    # --- is_server_error
    def fn_body(src, sig):
        i = src.index(sig)
        i = src.index("{", i) + 1
        depth = 1; j = i
        while depth:
            depth += {"{": 1, "}": -1}.get(src[j], 0); j += 1
        return src[i:j - 1]
    ise = fn_body(herr, "pub fn is_server_error")
    server = {}
    for arm in re.finditer(r"((?:\|?\s*HttpError::[A-Za-z0-9_]+(?:\(\.\.\))?\s*)+)=>\s*(true|false)", ise):
        for v in re.findall(r"HttpError::([A-Za-z0-9_]+)", arm.group(1)):
            server[v] = (arm.group(2) == "true")
    # --- description
    dsc = fn_body(herr, "pub fn description")
    desc = {}
    for arm in re.finditer(r"HttpError::([A-Za-z0-9_]+)(\([^)]*\))?\s*=>\s*\{?\s*(format!\(\s*\"((?:[^\"\\]|\\.)*)\"\s*\)|\"((?:[^\"\\]|\\.)*)\"\.to_string\(\))", dsc):
        v = arm.group(1)
        if arm.group(4) is not None:
            fmt = rust_unescape(arm.group(4))
            mm = re.match(r"^(.*)\{kind:\?\}: \{s\}$", fmt, re.S)
            if not mm:
                problems.append("cannot translate description format of %s: %r" % (v, fmt))
                continue
            desc[v] = ("fmt", mm.group(1))
        else:
            desc[v] = ("lit", rust_unescape(arm.group(5)))
    # --- From<HttpError> for Response
    i = herr.index("impl From<HttpError> for Response")
    frm = fn_body(herr[i:], "fn from")
    resp_of = {}
    for arm in re.finditer(r"((?:\|?\s*HttpError::[A-Za-z0-9_]+(?:\(\.\.\))?\s*)+)=>\s*(Response::text\(\s*(\d+)\s*,\s*(e\.description\(\)|\"((?:[^\"\\]|\\.)*)\")\s*\)|Response::drop_connection\(\))", frm):
        for v in re.findall(r"HttpError::([A-Za-z0-9_]+)", arm.group(1)):
            if arm.group(2).startswith("Response::drop"):
                resp_of[v] = ("drop",)
            elif arm.group(4).startswith("e.description"):
                resp_of[v] = ("text", int(arm.group(3)), None)
            else:
                resp_of[v] = ("text", int(arm.group(3)), rust_unescape(arm.group(5)))
    for v in names:
        for tbl, what in ((server, "is_server_error"), (desc, "description"), (resp_of, "From<HttpError> for Response")):
            if v not in tbl:
                problems.append("variant %s: no arm found in %s" % (v, what))
    # --- close rule
    mm = re.search(r"let close = \((\d+)\.\.=(\d+)\)\.contains\(&response\.code\);", conn)
    if mm:
        close = (int(mm.group(1)), int(mm.group(2)))
    else:
        problems.append("cannot translate the `close` rule of HttpConn::write_response")
        close = None
    return dict(ctors=ctors, variants=variants, server=server, desc=desc, resp=resp_of, close=close, problems=problems)

def render(t):
    L = ["(* GENERATED by props/c20.py from the repository source on every run -- do not edit. *)",
         "From SV Require Import Base.Bytes Model.Tables.", "Import ListNotations.", "",
         "Definition ctor_table : list (bytes * N) := ["]
    L.append(";\n".join("  (%s, %d)  (* %s *)" % (coq_bytes(n), c, n) for n, c, _ in t["ctors"]))
    L.append("].\n")
    L.append("Definition err_table : list err_entry := [")
    ents = []
    for v, pl in t["variants"]:
        if v not in t["server"] or v not in t["desc"] or v not in t["resp"]:
            continue
        d = t["desc"][v]
        dsc = "DLiteral %s" % coq_bytes(d[1]) if d[0] == "lit" else "DFormat %s" % coq_bytes(d[1])
        r = t["resp"][v]
        if r[0] == "drop":
            rs = "RDrop"
        elif r[2] is None:
            rs = "RText %d BDescription" % r[1]
        else:
            rs = "RText %d (BLiteral %s)" % (r[1], coq_bytes(r[2]))
        ents.append("  {| e_name := %s (* %s *); e_payload := %s; e_server := %s; e_desc := %s; e_resp := %s |}" % (
            coq_bytes(v), v, "true" if pl else "false", "true" if t["server"][v] else "false", dsc, rs))
    L.append(";\n".join(ents))
    L.append("].\n")
    lo, hi = t["close"] if t["close"] else (1, 0)
    L.append("Definition close_lo : N := %d.\nDefinition close_hi : N := %d.\n" % (lo, hi))
    L.append("Definition translation_problems : nat := %d.\n" % len(t["problems"]))
    return "\n".join(L)

_last = {}

def pre_proof():
    t = parse_sources(vlib.REPO)
    _last.update(t)
    path = os.path.join(vlib.COQ, "theories", "Generated", "StatusTables.v")
    txt = render(t)
    if not os.path.exists(path) or open(path).read() != txt:
        open(path, "w").write(txt)
    return t["problems"]

ERRKINDS = ["NotFound", "PermissionDenied", "InvalidData", "UnexpectedEof", "Other", "ConnectionRefused", "ConnectionReset", "ConnectionAborted", "NotConnected", "AddrInUse", "AddrNotAvailable", "BrokenPipe", "AlreadyExists", "WouldBlock", "InvalidInput", "TimedOut", "WriteZero", "Interrupted", "Unsupported", "OutOfMemory", "StorageFull", "QuotaExceeded", "FileTooLarge", "ReadOnlyFilesystem", "DirectoryNotEmpty", "IsADirectory", "NotADirectory", "ResourceBusy", "Deadlock", "TooManyLinks", "InvalidFilename", "ArgumentListTooLong", "HostUnreachable", "NetworkUnreachable", "NetworkDown", "NotSeekable", "StaleNetworkFileHandle", "CrossesDevices", "ExecutableFileBusy"]
PAYLOADS = ["/etc/passwd", "/var/cache/upload/1234abcd", "No such file or directory (os error 2)", "zq7Kx\r\nSet-Cookie: evil=1",
            "\r\n\r\nHTTP/1.1 200 OK", "permission denied: C:\\secret\\file.txt", "\u00e9\u00e8 caf\u00e9 non-ascii", "", "xy",
            "HttpError::ErrorReadingFile", "internal server Error!"]

def gen(rng, tier):
    t = _last if _last else parse_sources(vlib.REPO)
    cases = []
    for n, c, params in t["ctors"]:
        cases.append("ctor x%s" % n.encode().hex())
    # constructors that take a text (a location, a message): the status is the constructor's own whatever the text is
    TEXTS = ["", "/", "/next?msg=two\twords", "/a b", "/x\r\nSet-Cookie: a=b", "\x7f", "/%0d%0a", "http://other.example/", "/" + "p" * 300, "\t", "\x01"]
    for n in ("redirect_301", "redirect_303", "unprocessable_entity_422"):     # (also when the translator could not read them)
        for tx in TEXTS:
            cases.append("ctor x%s x%s" % (n.encode().hex(), tx.encode().hex()))
    pls = list(PAYLOADS)
    for _ in range(6 if tier == "quick" else 200):
        ln = rng.randint(4, 40)
        pls.append("".join(rng.choice("abcdefghijklmnopqrstuvwxyz/\\ .:-_\r\n\t\"'%") for _ in range(ln)))
    for v, pl in t["variants"]:
        if pl:
            # every io::ErrorKind the toolchain knows x a few payload texts; the full payload list for the first five
            for k in range(len(ERRKINDS)):
                for p in (pls if k < 5 else pls[:3] + [rng.choice(pls)]):
                    cases.append("err x%s %d x%s" % (v.encode().hex(), k, p.encode("utf-8").hex()))
        else:
            cases.append("err x%s 0 x" % v.encode().hex())
    for code in range(100, 1000):
        cases.append("conn %d" % code)
    # the close marking must not depend on what the handler put into the response: user-supplied header fields,
    # in particular a `connection` field of its own (any case, any value)
    def hx(t):
        return "x" + t.encode().hex()
    user = [("connection", "keep-alive"), ("Connection", "Keep-Alive"), ("CONNECTION", "upgrade"),
            ("x-a", "b"), ("keep-alive", "timeout=5"), ("cache-control", "no-store")]
    for code in [100, 199, 200, 204, 301, 404, 499, 500, 501, 502, 503, 504, 550, 598, 599, 600, 999]:
        for (n, v) in user:
            cases.append("conn %d %s %s" % (code, hx(n), hx(v)))
        cases.append("conn %d %s %s %s %s" % (code, hx("x-a"), hx("b"), hx("Connection"), hx("keep-alive")))
    for _ in range(300 if tier == "quick" else 5000):
        code = rng.choice([rng.randint(100, 999), rng.randint(480, 620)])
        hs = [rng.choice(user) for _ in range(rng.randint(1, 3))]
        cases.append("conn %d %s" % (code, " ".join("%s %s" % (hx(n), hx(v)) for n, v in hs)))
    # the error path of the connection loop: a request-reading error is answered with its mapped response; a 5xx among
    # them must carry the close marking like any other 5xx
    reqs = [("UnsupportedProtocol", "GET / HTTP/1.0\r\n\r\n"), ("UnsupportedProtocol", "GET /a HTTP/2\r\nhost: x\r\n\r\n"),
            ("MalformedRequestLine", "BAD\r\n\r\n"), ("MalformedRequestLine", "GET  / HTTP/1.1\r\n\r\n"),
            ("MalformedPath", "GET x HTTP/1.1\r\n\r\n"), ("MalformedHeaderLine", "GET / HTTP/1.1\r\nbad\r\n\r\n"),
            ("HeadTooLong", "GET / HTTP/1.1\r\nx: " + "a" * 9000), ("InvalidContentLength", "POST / HTTP/1.1\r\ncontent-length: x\r\n\r\n"),
            ("InvalidContentLength", "POST / HTTP/1.1\r\ncontent-length: 1\r\ncontent-length: 1\r\n\r\na"),
            ("UnsupportedTransferEncoding", "POST / HTTP/1.1\r\ntransfer-encoding: deflate\r\n\r\n"),
            ("MalformedCookieHeader", "GET / HTTP/1.1\r\ncookie: bad\r\n\r\n"), ("Truncated", "GET / HT")]
    for (v, b) in reqs:
        cases.append("reqconn x%s x%s" % (v.encode().hex(), b.encode().hex()))
    # codes outside 100..999 are not in the property's range but exercise the close rule's edges
    for code in (0, 1, 99, 1000, 65535):
        cases.append("conn %d" % code)
    return cases

def classify(case, model):
    return case.split()[0]

def nontrivial(case, model):
    return True

def extra_evidence(results):
    return dict(translated_constructors=len(_last.get("ctors", [])), translated_error_variants=len(_last.get("variants", [])),
                translation_problems=_last.get("problems", []))
