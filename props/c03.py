"""C03 -- message framing comes only from the headers: case generator and evidence rules.

case syntax:  seq <x stream bytes> s<k1,k2,..>
  the stream is the concatenation of 1..8 rendered messages; the schedule gives the number of bytes the
  scripted reader hands out per read (cycled; 0 = one Pending; empty = all that is available).
"""
import itertools

RULE = ("'seq' cases: (a) the cross product of the quantifier's classes -- method class x Content-Length field multiset x "
        "Transfer-Encoding field multiset x Expect x Content-Type (all known media types, parameters, unknown) x Cookie class -- "
        "each as one message followed by a second message on the same stream (full product in thorough, seeded sample + "
        "all pairs in quick); (b) random sequences of 1..8 messages with random fragmentation, bodies in the buffer / "
        "straddling / in the stream / longer than the 8192-byte buffer / around small_body_len; (c) the Appendix-A boundary "
        "list; (e) a sample of all of these sent to a real server over loop-back (handler call log vs. messages read); (d) purity groups: several messages with the same field list but different methods, targets and bodies on one stream. Non-trivial = at least one message whose outcome depends on a framing or derived field (an error, a body, "
        "a content type or a cookie), distinct by full case text.")
ASSUMPTIONS = [
    "str::split / str::trim (ASCII white space 0x09-0x0D, 0x20) / splitn(2) / u64::from_str as transcribed in Model/RustStr.v",
    "futures-lite take / chain / read_to_end and FixedBuf's AsyncRead deliver 1..min(limit, available) bytes per read and never look past the limit",
    "the head of every message is taken as Head::try_read parsed it (C01/C02 are responsible for the head); header values are HTAB/SP/VCHAR (C02, after D2)",
    "64-bit usize; known-length bodies longer than small_body_len (64 KiB) are not read into memory (handle_http_conn_once) and end the sequence",
]
EXHAUSTIVE = {"quick": False, "thorough": True}
MARKED = True   # the harness marks its observation lines with "@@" (the server under test prints to stdout)

def tok(b):
    return "x" + b.hex()

def render(method, target, fields, body=b""):
    head = method + b" " + target + b" HTTP/1.1\r\n"
    for n, v in fields:
        head += n + b": " + v + b"\r\n"
    return head + b"\r\n" + body

def case(stream, sched):
    return "seq %s s%s" % (tok(stream), ",".join(str(k) for k in sched))

METHODS = [b"POST", b"PUT", b"GET", b"DELETE"]
METHODS_EXTRA = [b"HEAD", b"post", b"Put", b"PATCH", b"OPTIONS", b"POSTX", b"PU"]

TWO64 = 1 << 64
# Content-Length field multisets: list of values (each becomes one field)
CL_CLASSES = [
    [], [b"0"], [b"1"], [b"5"], [b"005"], [b"%d" % (TWO64 - 1)], [b"65536"], [b"65537"],
    [b"+5"], [b"-0"], [b"-5"], [b"+"], [b"5 5"], [b"abc"], [b"5x"], [b"0x10"], [b"5.0"], [b""],
    [b"%d" % TWO64], [b"%d" % (TWO64 + 5)], [b"99999999999999999999999999"], [b"00000000000000000000000005"],
    [b"5", b"5"], [b"5", b"6"], [b"0", b"0"], [b"5", b"x"], [b"5", b"5", b"5"], [b"", b"5"],
    # white space that is NOT optional white space of a field line, and control bytes, around the number: the field
    # line is malformed (400), the value is never "repaired" into a length
    [b"\x0c5"], [b"5\x0c"], [b"\x0b5"], [b"5\x0b"], [b"\t5\t"], [b"5 \t"], [b"\x005"], [b"5\x7f"], [b"5\x1f"], [b"\x855"], [b"5\xa0"],
]
TE_CLASSES = [
    [], [b"chunked"], [b"gzip"], [b"gzip, chunked"], [b"gzip,chunked"], [b"gzip ,\tchunked"], [b"chunked, gzip"],
    [b"identity"], [b"deflate"], [b"Chunked"], [b"GZIP"], [b", chunked ,"], [b""], [b","], [b"chunked, chunked"],
    [b"gzip, gzip"], [b"gzip, chunked, x"], [b"x, chunked"], [b"chunked", b"chunked"], [b"gzip", b"chunked"],
    [b"", b"chunked"], [b"", b""], [b"chunked;q=1"],
    [b"chunked\x0c"], [b"\x0cchunked"], [b"chunked\x0b"], [b"gzip,\x0cchunked"], [b"chunked\t"], [b"\x00chunked"], [b"chunked\xa0"],
]
EXPECT_CLASSES = [[], [b"100-continue"], [b"100-Continue"], [b"100-continue", b"100-continue"], [b"other"]]
KNOWN_MT = [b"text/css", b"text/csv", b"text/event-stream", b"application/x-www-form-urlencoded", b"image/gif",
            b"text/html", b"text/javascript", b"image/jpeg", b"application/json", b"text/markdown",
            b"multipart/form-data", b"application/octet-stream", b"application/pdf", b"text/plain", b"image/png",
            b"image/svg+xml"]
CT_CLASSES = ([[]] + [[m] for m in KNOWN_MT] +
              [[b"text/plain; charset=utf-8"], [b"text/plain;charset=x"], [b"text/plain ; x"], [b"Text/Plain"],
               [b"application/json;"], [b"multipart/form-data; boundary=----x"], [b""], [b"; x=1"], [b";"],
               [b"application/xml"], [b"text/plai"], [b"text/plainx"], [b"text/html", b"text/html"],
               [b"text/html", b"application/json"]])
COOKIE_CLASSES = [[], [b"a=1"], [b"a=1; b=2"], [b"b=2; a=1; a=3"], [b"a=1", b"a=2; c"], [b"a"], [b"a=1;;b=2"], [b"=x; a=="],
                  [b" ; "], [b"a=1", b"b=x=y"]]

def mixcase(rng, name):
    r = rng.random()
    if r < 0.4:
        return name
    if r < 0.6:
        return name.lower()
    if r < 0.8:
        return name.upper()
    return bytes((c ^ 0x20) if (65 <= c <= 90 or 97 <= c <= 122) and rng.random() < 0.5 else c for c in name)

def build_fields(rng, cl, te, ex, ct, ck, shuffle=True, extra=True):
    fields = []
    for v in cl:
        fields.append((mixcase(rng, b"Content-Length"), v))
    for v in te:
        fields.append((mixcase(rng, b"Transfer-Encoding"), v))
    for v in ex:
        fields.append((mixcase(rng, b"Expect"), v))
    for v in ct:
        fields.append((mixcase(rng, b"Content-Type"), v))
    for v in ck:
        fields.append((mixcase(rng, b"Cookie"), v))
    if extra:
        for _ in range(rng.choice([0, 0, 1, 2])):
            fields.append((rng.choice([b"Host", b"X-A", b"Accept", b"Content-Lengt", b"Content-Length-X", b"Expected", b"X-Transfer-Encoding"]),
                           rng.choice([b"x", b"5", b"chunked", b"a, b", b""])))
    if shuffle:
        rng.shuffle(fields)
    return fields

SCHEDS = [[], [1], [2], [3, 1], [7], [64], [0, 1], [5, 0, 9], [1000], [8192], [100000], [1, 1, 1, 50], [13, 0, 0, 2]]

def rand_sched(rng):
    if rng.random() < 0.5:
        return rng.choice(SCHEDS)
    return [rng.choice([0, 1, 1, 2, 3, 5, 7, 16, 64, 300, 1000, 8192, 100000]) for _ in range(rng.randint(1, 8))]

FOLLOW = [render(b"GET", b"/next", [(b"X-Next", b"1")]),
          render(b"POST", b"/next", [(b"Content-Length", b"3")], b"abc"),
          render(b"GET", b"/n", [])]

def cross_case(rng, method, cl, te, ex, ct, ck, body=None, light=False):
    fields = build_fields(rng, cl, te, ex, ct, ck, extra=not light)
    if body is None:
        body = rng.choice([b"hello", b"hello", b"", b"h", b"hello world", b"GET /smuggled HTTP/1.1\r\n\r\n"])
    stream = render(method, rng.choice([b"/", b"/a/b?q=1", b"/x"]), fields, body)
    if rng.random() < 0.85:
        stream += FOLLOW[2] if light else rng.choice(FOLLOW)
    return case(stream, rand_sched(rng))

def valid_message(rng, small=True):
    """a well-formed message, mostly Content-Length framed so that a sequence goes on"""
    r = rng.random()
    method = rng.choice(METHODS + METHODS_EXTRA[:2])
    if r < 0.70:
        n = rng.choice([0, 0, 1, 2, 5, 17, 100, 300]) if small else rng.choice([8000, 8192, 8193, 9000, 20000])
        body = bytes(rng.choice(b"abcdefghijklmnopqrstuvwxyz \r\n:GETPOST/") for _ in range(n))
        if n == 0 and rng.random() < 0.5:
            cl = [] if method not in (b"POST", b"PUT") else [b"0"]
        else:
            cl = [rng.choice([b"%d", b"%d", b"0%d", b"000%d"]) % n]
        fields = build_fields(rng, cl, [], [], rng.choice(CT_CLASSES[:24]), rng.choice(COOKIE_CLASSES[:5]))
        return render(method, rng.choice([b"/", b"/p", b"/a?b=c"]), fields, body)
    if r < 0.85:
        # bodiless method without framing headers
        method = rng.choice([b"GET", b"DELETE", b"HEAD", b"OPTIONS"])
        fields = build_fields(rng, [], [], [], rng.choice(CT_CLASSES[:5]), rng.choice(COOKIE_CLASSES[:5]))
        return render(method, b"/g", fields, b"")
    # anything from the classes (often ends the sequence)
    cl = rng.choice(CL_CLASSES)
    te = rng.choice(TE_CLASSES[:8] + [[]] * 8)
    fields = build_fields(rng, cl, te, rng.choice(EXPECT_CLASSES), rng.choice(CT_CLASSES), rng.choice(COOKIE_CLASSES))
    return render(method, b"/z", fields, rng.choice([b"", b"hello", b"0123456789"]))

def gen(rng, tier):
    cases = []
    # ---- (c) Appendix-A boundaries, every one with a further message behind the body and three fragmentations
    for cl in CL_CLASSES:
        for method in (b"POST", b"GET"):
            for sched in ([], [1], [3, 0, 2]):
                fields = [(b"Content-Length", v) for v in cl]
                cases.append(case(render(method, b"/", fields, b"hello") + FOLLOW[0], sched))
    for te in TE_CLASSES:
        for cl in ([], [b"5"]):
            for method in (b"POST", b"GET"):
                fields = [(b"Transfer-Encoding", v) for v in te] + [(b"Content-Length", v) for v in cl]
                cases.append(case(render(method, b"/", fields, b"hello") + FOLLOW[0], rng.choice(SCHEDS)))
    for method in METHODS + METHODS_EXTRA:
        for ex in EXPECT_CLASSES:
            cases.append(case(render(method, b"/", [(b"Expect", v) for v in ex], b"hello"), rng.choice(SCHEDS)))
    # body fully in the buffer / straddling / fully in the stream / longer than the buffer / around small_body_len
    for n in (1, 5, 100, 8000, 8192, 8193, 20000, 65535, 65536, 65537):
        body = bytes((i * 7 + 3) % 251 for i in range(n))
        msg = render(b"POST", b"/big", [(b"Content-Length", b"%d" % n)], body)
        for sched in ([], [1], [len(msg) - n], [len(msg) - n + 2], [8192], [3, 0, 4000]):
            if n > 9000 and sched == [1]:
                continue
            cases.append(case(msg + FOLLOW[1] + FOLLOW[0], sched))
    # bodies longer than small_body_len are received into a file when the handler asks for them: complete, with bytes
    # behind them, and cut by the client's end-of-stream at 0 / 1 / half / 65536 / len-1 (must be Truncated, never a
    # shorter body)
    for n in (65537, 70000, 131073):
        full = bytes((i * 11 + 5) % 253 for i in range(n))
        for have in (0, 1, n // 2, 65536, n - 1, n, n + 7):
            body = full[:have] if have <= n else full + b"GET / H"
            cases.append(case(render(b"POST", b"/up", [(b"Content-Length", b"%d" % n)], body), rng.choice([[], [8192], [3, 0, 4000]])))
    # truncated bodies
    for n in (1, 5, 6, 50):
        cases.append(case(render(b"POST", b"/", [(b"Content-Length", b"%d" % n)], b"hello"), rng.choice(SCHEDS)))
    # ---- (f) long field lists: the framing field behind (or before) k other fields -- a field list is read as a whole,
    #      wherever the framing field stands (k up to what an 8 KiB head holds)
    for k in (1, 15, 16, 17, 31, 32, 33, 63, 64, 65, 99, 100, 101, 127, 128, 129, 255, 256, 257, 511, 512, 513, 700):
        fillers = [(b"X-%d" % (j % 50), b"%d" % j) for j in range(k)]
        for framing, body in (([(b"Content-Length", b"5")], b"hello"), ([(b"Transfer-Encoding", b"chunked")], b"5\r\nhello\r\n0\r\n\r\n"),
                              ([(b"Content-Length", b"5x")], b"hello"), ([(b"Content-Length", b"5"), (b"Content-Length", b"6")], b"hello"),
                              ([(b"Transfer-Encoding", b"br")], b"hello"), ([(b"Expect", b"100-continue"), (b"Content-Length", b"5")], b"hello")):
            for fields in (fillers + framing, framing[:1] + fillers + framing[1:], fillers[:k // 2] + framing + fillers[k // 2:]):
                cases.append(case(render(b"POST", b"/many", fields, body) + FOLLOW[0], rng.choice([[], [8192], [3, 0, 4000]])))
    # ---- (a) cross product
    if tier == "thorough":
        for method, cl, te, ex, ct in itertools.product(METHODS, CL_CLASSES, TE_CLASSES, EXPECT_CLASSES, CT_CLASSES):
            cases.append(cross_case(rng, method, cl, te, ex, ct, rng.choice(COOKIE_CLASSES), light=True))
        for method, cl, te, ck in itertools.product(METHODS_EXTRA, CL_CLASSES, TE_CLASSES, COOKIE_CLASSES):
            cases.append(cross_case(rng, method, cl, te, rng.choice(EXPECT_CLASSES), rng.choice(CT_CLASSES), ck, light=True))
    else:
        # all pairs of (CL class, TE class) x method, all pairs (CL, CT), (TE, Expect); then a seeded sample
        for method, cl, te in itertools.product(METHODS, CL_CLASSES, TE_CLASSES):
            cases.append(cross_case(rng, method, cl, te, rng.choice(EXPECT_CLASSES), rng.choice(CT_CLASSES), rng.choice(COOKIE_CLASSES)))
        for cl, ct in itertools.product(CL_CLASSES, CT_CLASSES):
            cases.append(cross_case(rng, rng.choice(METHODS), cl, rng.choice(TE_CLASSES[:4]), [], ct, []))
        for te, ex, method in itertools.product(TE_CLASSES, EXPECT_CLASSES, METHODS):
            cases.append(cross_case(rng, method, rng.choice(CL_CLASSES[:8]), te, ex, [], []))
        for ck, ct in itertools.product(COOKIE_CLASSES, CT_CLASSES):
            cases.append(cross_case(rng, rng.choice(METHODS), rng.choice(CL_CLASSES[:5]), [], [], ct, ck))
        for _ in range(5000):
            cases.append(cross_case(rng, rng.choice(METHODS + METHODS_EXTRA), rng.choice(CL_CLASSES), rng.choice(TE_CLASSES),
                                    rng.choice(EXPECT_CLASSES), rng.choice(CT_CLASSES), rng.choice(COOKIE_CLASSES)))
    # ---- (d) purity groups: 2..5 messages on one stream with the SAME field list (Content-Length framed) but
    #      different methods, targets, body bytes and positions: the derived fields must coincide
    for _ in range(1500 if tier == "quick" else 10000):
        n = rng.choice([0, 1, 3, 8])
        fields = build_fields(rng, [b"%d" % n], rng.choice([[], [], [], [b"gzip"]]) if n == 0 else [],
                              rng.choice(EXPECT_CLASSES), rng.choice(CT_CLASSES), rng.choice(COOKIE_CLASSES[:5] + COOKIE_CLASSES[8:]))
        stream = b""
        for j in range(rng.randint(2, 5)):
            body = bytes(rng.choice(b"abcxyz;=, \r\n") for _ in range(n))
            stream += render(rng.choice(METHODS + METHODS_EXTRA), rng.choice([b"/", b"/p?x=1", b"/q"]), fields, body)
        cases.append(case(stream, rand_sched(rng)))
    # ---- (b) random message sequences with random fragmentation
    nseq = 6000 if tier == "quick" else 60000
    for i in range(nseq):
        k = rng.randint(1, 8)
        big = (i % 200 == 0)
        stream = b"".join(valid_message(rng, small=not (big and j == 0)) for j in range(k))
        if rng.random() < 0.05:
            stream = stream[:rng.randint(0, len(stream))]          # cut anywhere: truncated head or body
        cases.append(case(stream, rand_sched(rng)))
    # ---- (e) loop-back: a sample of the streams above is also sent to a real server (HttpServerBuilder::spawn) whose
    #      handler logs what it is handed; the log must be what the messages read in memory imply
    pool = [c for c in cases if len(c) < 6000]
    # ---- (b2) pipelines longer than the 8 KiB connection buffer: 8 messages sized so that one read
    #      fills the buffer to its end and stops inside the head of a later message (the buffer must
    #      be compacted between messages); cut positions 1..40 bytes into that head
    def sized(method, path, total):
        ln = total - len(render(method, path, [(b"Content-Length", b"0000")], b""))
        return render(method, path, [(b"Content-Length", b"%04d" % ln)], bytes(97 + (i % 7) for i in range(ln)))
    for k in range(12 if tier == "quick" else 300):
        cut = rng.randint(1, 40)                 # bytes of the last head that fit at the buffer end
        sizes = [1170] * 6 + [8192 - cut - 6 * 1170]
        parts = [sized(rng.choice([b"POST", b"PUT"]), b"/p%d" % j, sz) for j, sz in enumerate(sizes)]
        parts.append(sized(b"POST", b"/last", 600))
        stream = b"".join(parts) + FOLLOW[0]
        for sched in ([], [8192], [4096]):
            cases.append(case(stream, sched))
    # a pending body the handler never asks for (Expect: 100-continue, Content-Length above small_body_len, answered 200),
    # sent by the client after a pause and starting with bytes that look like a request: framing comes from the headers,
    # so those bytes are body, never a request (loop-back only: the handler log must show the one request)
    expect_loops = []
    for n in (65537, 70000) if tier == "quick" else (65537, 70000, 100000, 131073):
        head = render(b"POST", b"/up", [(b"Expect", b"100-continue"), (b"Content-Length", b"%d" % n)], b"")
        smug = b"GET /smuggled HTTP/1.1\r\n\r\n"
        body = smug + bytes((i * 13 + 1) % 251 for i in range(n - len(smug)))
        expect_loops.append("loop" + case(head + body, [len(head), 999999, 0])[3:])
        expect_loops.append("loop" + case(head + body, [len(head), 999999, len(smug), 999999, 0])[3:])
    nloop = 400 if tier == "quick" else 6000
    loops = ["loop" + c[3:] for c in pool[:120]] + ["loop" + rng.choice(pool)[3:] for _ in range(nloop)]
    return cases + loops + expect_loops

def _msgs(model):
    return [m.strip() for m in model.split(" ; ")]

def _kind(m):
    if " R err head" in m or m.startswith("HE"):
        return "headfail"
    if " R err " in m:
        return "err-" + m.split(" R err ")[1].split()[0]
    if " R ok " in m:
        body = [t for t in m.split() if t.startswith("body=")]
        kind = [t for t in m.split() if t.startswith("kind=")]
        b = body[0][5:].split(":")[0] if body else "?"
        k = kind[0][5:].split(":")[0] if kind else "?"
        return "ok-%s-%s" % (k, b)
    return "other"

def classify(case_line, model):
    ms = _msgs(model.split(" ;; ")[0])
    if case_line.startswith("loop"):
        return "loopback:msgs=%s" % (len(ms) if len(ms) < 4 else "4+")
    n = len(ms)
    return "msgs=%s:first=%s" % (n if n < 4 else "4+", _kind(ms[0]))

def nontrivial(case_line, model):
    for m in _msgs(model):
        k = _kind(m)
        if k.startswith("err-") or k.startswith("ok-known") or k.startswith("ok-unknown"):
            return True
        if " R ok " in m and (" ct=None " not in m or " ck 0 " not in m):
            return True
    return False

def extra_evidence(results):
    """Appendix-A boundary hit counts, read off the model observations"""
    hits = {}
    def hit(k):
        hits[k] = hits.get(k, 0) + 1
    for (prof, c, i, m, v) in results:
        for msg in _msgs(m):
            hit(_kind(msg))
            if " cl=0 " in msg: hit("cl=0")
            if " cl=1 " in msg: hit("cl=1")
            if " cl=18446744073709551615 " in msg: hit("cl=2^64-1")
            if " gz=1 " in msg and " ch=1 " in msg: hit("gzip+chunked")
            if " ex=1 " in msg: hit("expect")
            if " ct=S:" in msg: hit("ct-unknown")
        if len(_msgs(m)) > 1: hit("further-message-after-body")
    return dict(boundary_hits=hits)

def _hexsplit(case_line):
    t = case_line.split()
    return bytes.fromhex(t[1][1:]), t[2]

def shrink(case_line):
    t = case_line.split()
    if t[0] not in ("seq", "loop"):
        return
    if t[0] == "loop":
        # first try the in-memory form of the same case, then shrink keeping the kind
        yield "seq " + " ".join(t[1:])
        for c in shrink("seq " + " ".join(t[1:])):
            yield "loop" + c[3:]
        return
    stream, sched = _hexsplit(case_line)
    if sched != "s":
        yield "seq %s s" % tok(stream)
        yield "seq %s s1" % tok(stream)
    k = stream.find(b"\r\n\r\n")
    if k < 0:
        return
    head, rest = stream[:k], stream[k + 4:]
    lines = head.split(b"\r\n")
    # drop the first message altogether
    if rest:
        yield "seq %s %s" % (tok(rest), sched)
    # cut what follows the head
    for cut in (0, 5, len(rest) // 2):
        if cut < len(rest):
            yield "seq %s %s" % (tok(head + b"\r\n\r\n" + rest[:cut]), sched)
    # a second head behind the first message: drop what follows it
    k2 = rest.find(b"\r\n\r\n")
    if k2 >= 0 and k2 + 4 < len(rest):
        yield "seq %s %s" % (tok(head + b"\r\n\r\n" + rest[:k2 + 4]), sched)
    # drop one header line
    for j in range(1, len(lines)):
        h2 = b"\r\n".join(lines[:j] + lines[j + 1:])
        yield "seq %s %s" % (tok(h2 + b"\r\n\r\n" + rest), sched)
    # simplify the request line
    parts = lines[0].split(b" ")
    if len(parts) == 3 and parts[1] != b"/":
        yield "seq %s %s" % (tok(b"\r\n".join([parts[0] + b" / " + parts[2]] + lines[1:]) + b"\r\n\r\n" + rest), sched)
    # lower-case / canonical field names
    for j in range(1, len(lines)):
        if b":" in lines[j]:
            n, v = lines[j].split(b":", 1)
            canon = n.lower()
            if canon != n:
                yield "seq %s %s" % (tok(b"\r\n".join(lines[:j] + [canon + b":" + v] + lines[j + 1:]) + b"\r\n\r\n" + rest), sched)

def neighbours(case_line, rng):
    """same stream under every simple schedule, and with each header line dropped"""
    stream, sched = _hexsplit(case_line)
    kind = case_line.split()[0]
    for s in SCHEDS:
        yield kind + case(stream, s)[3:]
    for c in shrink(case_line):
        yield c
