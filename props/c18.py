"""C18 -- log events carry the right tags and reach the installed logger exactly once:
program generator (threads x actions x global order), evidence rules, shrinker."""

RULE = ("'prog'/'child' cases: 1..8 real threads execute a generated program over {add thread tag, clear, error/info/debug "
        "with 0..6 tags, internal log, log_response, log_request_and_response (as one call, or opened and closed around "
        "other actions of the handler), install logger, drop guard, drop receiver} in a fixed global order (turn-taking, "
        "so the linearisation is known); after every step all channel loggers are drained and every received event is "
        "rendered with write_jsonl; 'child' cases run in a fresh process because they log to the stdout default logger, "
        "whose output is captured; 'free' cases: threads run unsynchronised with one installed logger, per-thread event "
        "subsequences compared. Non-trivial = the program contains at least one logging call.")
ASSUMPTIONS = [
    "LEVEL = partial: the model treats one call as one atomic step on the global logger (std::sync::Mutex is linearizable; "
    "global_logger() holds the lock across the send) and THREAD_LOCAL_TAGS as a per-thread map (thread_local! isolation) -- "
    "both are guarantees of Rust std, assumed, and exercised only by the real-thread runs of the correspondence",
    "std::sync::mpsc::SyncSender::send delivers the value exactly once to the receiver, or fails when the receiver is gone (std)",
    "the channel never fills: a full sync_channel would block the caller (the harness drains after every step; capacity 4096)",
    "Vec::sort_by_key is a stable sort (std); the model uses the unique stable sort by the priority key",
    "duration_ms (elapsed wall time) is canonicalised to 0 on both sides; Backtrace is captured with RUST_BACKTRACE unset (text '<disabled>')",
    "request paths in the cases are taken from a pool on which the url crate's path() is the identity",
    "the stdout default logger prints '<time> <level> <tags>' (start_stdout_logger_thread); its timestamp is not compared",
]
EXHAUSTIVE = {"quick": False, "thorough": False}
MARKED = True   # the stdout default logger of the code under test may print; observation lines carry the @@ mark
HARNESS_TIMEOUT_S = {"quick": 240}   # the quick run needs about 20 s; beyond this the code under test hangs

PRIO_NAMES = ["msg", "http_method", "path", "request_body_len", "request_body", "response_body_len"]
OTHER_NAMES = ["code", "request_id", "k", "x", "a b", "K", "é", "n\"q", "", "user", "zz", "msg2", "Path"]
METHODS = ["GET", "POST", "PUT", "DELETE", "X-Y"]
PATHS = ["/", "/a", "/a/b", "/index.html", "/x-y_z.~1", "/A/B/C/"]
STRINGS = ["", "a", "hello world", "q\"uote", "back\\slash", "nl\n", "\x01", "é", "\U0001F600", "}{", "\",\"x\":\"y", "pending"]


def utok(s):
    return "u" + ",".join(str(ord(c)) for c in s)


def xtok(s):
    return "x" + s.encode("ascii").hex()


def rand_name(rng):
    r = rng.random()
    if r < 0.35:
        return rng.choice(PRIO_NAMES)
    return rng.choice(OTHER_NAMES)


def rand_value(rng):
    r = rng.random()
    if r < 0.45:
        return "s:" + utok(rng.choice(STRINGS))
    if r < 0.75:
        ty = rng.choice(["i8", "i64", "u8", "u64", "u128", "i128", "usize"])
        hi = {"i8": 127, "i64": 2**63 - 1, "u8": 255, "u64": 2**64 - 1, "u128": 2**128 - 1, "i128": 2**127 - 1, "usize": 2**64 - 1}[ty]
        lo = -hi - 1 if ty[0] == "i" else 0
        return "%s:%d" % (ty, rng.choice([lo, hi, 0, 1, rng.randint(lo, hi)]))
    if r < 0.9:
        return "b:%d" % rng.randint(0, 1)
    return rng.choice(["none", "null"])


def rand_tags(rng, maxk=6):
    k = rng.choice([0, 0, 1, 1, 2, 3, maxk])
    out = []
    for _ in range(k):
        n = rand_name(rng)
        out.append((n, rand_value(rng)))
        if rng.random() < 0.15:   # two tags of equal priority / equal name
            out.append((n, rand_value(rng)))
    out = out[:maxk]
    return "%d%s" % (len(out), "".join(" %s %s" % (utok(n), v) for n, v in out))


def rand_response(rng, rid):
    code = rng.choice([200, 204, 301, 400, 404, 500, 503, rng.randint(100, 999)])
    if rng.random() < 0.12:
        return "%d g%d %d" % (rng.choice([0, 0, code]), rng.choice([0, 1, 65536, 10**9]), rid)   # get_body_and_reprocess
    return "%d %s %d" % (code, rng.choice(["-", "0", "1", str(rng.randint(0, 5000))]), rid)


def rand_hr(rng, rid):
    if rng.random() < 0.45:
        return "ok " + rand_response(rng, rid)
    msg = "-" if rng.random() < 0.3 else utok(rng.choice(STRINGS))
    tail = "none" if rng.random() < 0.5 else "some " + rand_response(rng, rid)
    return "err %s %d %s %s" % (msg, rng.randint(0, 1), rand_tags(rng, 3), tail)


def rand_request(rng):
    return "%s %s %d %s" % (xtok(rng.choice(METHODS)), xtok(rng.choice(PATHS)), rng.randint(0, 2**64 - 1),
                            rng.choice(["-", "0", str(rng.randint(0, 10**6))]))


class Sim:
    """Tracks what the generator needs: is a logger installed (else the step logs to the stdout default)."""
    def __init__(self):
        self.some = False
        self.guards = 0
        self.needs_child = False

    def step(self, op, arg=None):
        if op in ("log", "raw", "lr", "we", "wr") and not self.some:
            self.needs_child = True
        elif op == "inst" and not self.some:
            self.some = True
            self.guards += 1
        elif op == "drop" and self.guards > 0:
            self.guards -= 1
            self.some = False


def mode_of(steps):
    sim = Sim()
    for (_t, a) in steps:
        sim.step(a.split()[0])
    return "child" if sim.needs_child else "prog"


def render(nthreads, steps, mode=None):
    return "%s %d%s" % (mode or mode_of(steps), nthreads, "".join(" ; %d %s" % (t, a) for t, a in steps))


def gen_program(rng, nthreads, nsteps, install_first, free=False):
    steps = []
    inside = [False] * nthreads
    rid = [1]
    def nxt():
        rid[0] += 1
        return rid[0]
    if install_first:
        steps.append((rng.randrange(nthreads), "inst %d" % rng.randint(1, 3)))
    if free:
        for t in range(nthreads):
            steps.append((t, "add %s u8:%d" % (utok("tid"), t)))
    for _ in range(nsteps):
        t = rng.randrange(nthreads)
        r = rng.random()
        if inside[t] and r < 0.25:
            steps.append((t, "we " + rand_hr(rng, nxt())))
            inside[t] = False
        elif r < 0.22:
            steps.append((t, "add %s %s" % (utok(rand_name(rng)), rand_value(rng))))
        elif r < 0.27:
            steps.append((t, "clear"))
            if free:
                steps.append((t, "add %s u8:%d" % (utok("tid"), t)))
        elif r < 0.50:
            steps.append((t, "log %s %s %s" % (rng.choice(["error", "info", "debug"]), utok(rng.choice(STRINGS)), rand_tags(rng))))
        elif r < 0.56:
            steps.append((t, "raw %s %s" % (rng.choice(["error", "info", "debug"]), rand_tags(rng))))
        elif r < 0.64:
            steps.append((t, "lr " + rand_hr(rng, nxt())))
        elif r < 0.72 and not free:
            steps.append((t, "wr %s %s" % (rand_request(rng), rand_hr(rng, nxt()))))
        elif r < 0.80 and not inside[t]:
            steps.append((t, "wb " + rand_request(rng)))
            inside[t] = True
            if free:
                steps.append((t, "add %s u8:%d" % (utok("tid"), t)))
        elif free:
            steps.append((t, "log info %s 0" % utok("f")))
        elif r < 0.87:
            steps.append((t, "inst %d" % rng.randint(1, 4)))
        elif r < 0.94:
            steps.append((t, "drop"))
        else:
            steps.append((t, "gone %d" % rng.randint(1, 4)))
    for t in range(nthreads):
        if inside[t]:
            steps.append((t, "we " + rand_hr(rng, nxt())))
    return steps


def fixed_cases():
    cs = []
    # each priority name as a call tag and as a thread tag, reversed order, and duplicates
    call = "6" + "".join(" %s s:%s" % (utok(n), utok(n[:2])) for n in reversed(PRIO_NAMES))
    cs.append(render(1, [(0, "inst 1"), (0, "log info %s %s" % (utok("m"), call))]))
    steps = [(0, "inst 1")] + [(0, "add %s u8:%d" % (utok(n), i)) for i, n in enumerate(reversed(PRIO_NAMES))]
    steps += [(0, "add %s u8:9" % utok("k")), (0, "raw debug 2 %s b:1 %s b:0" % (utok("z"), utok("path"))), (0, "log error %s 0" % utok("x"))]
    cs.append(render(1, steps))
    # thread tags added before / after an install; isolation between two threads; receiver dropped
    cs.append(render(2, [(0, "add %s u8:0" % utok("t0")), (1, "inst 1"), (1, "add %s u8:1" % utok("t1")), (0, "log info %s 0" % utok("a")),
                         (1, "log info %s 0" % utok("b")), (0, "clear"), (0, "log info %s 0" % utok("c")), (1, "log info %s 0" % utok("d"))]))
    cs.append(render(2, [(0, "inst 1"), (1, "inst 2"), (0, "log info %s 0" % utok("a")), (1, "gone 1"), (0, "log info %s 0" % utok("b")),
                         (1, "lr ok 200 0 5"), (1, "wr %s %s 1 0 ok 200 0 6" % (xtok("GET"), xtok("/"))), (0, "drop"), (1, "inst 2"),
                         (0, "log info %s 0" % utok("c")), (1, "drop"), (1, "drop")]))
    # wrapper: Ok / Err with response / Err without; starts clean; leaves its tags behind
    for hr in ["ok 201 3 7", "err %s 0 1 %s b:1 some 404 - 8" % (utok("bad"), utok("why")), "err - 1 0 none", "err %s 1 0 none" % utok("boom"),
               "ok 0 g1000 9", "err - 0 0 some 0 g65536 10", "ok 200 g0 11"]:
        cs.append(render(1, [(0, "inst 1"), (0, "add %s u8:1" % utok("old")), (0, "wr %s %s 42 - %s" % (xtok("POST"), xtok("/a/b"), hr)),
                             (0, "log info %s 0" % utok("after"))]))
        cs.append(render(2, [(1, "inst 1"), (0, "add %s u8:1" % utok("old")), (0, "wb %s %s 42 10" % (xtok("PUT"), xtok("/a"))),
                             (0, "log debug %s 0" % utok("in")), (1, "log debug %s 0" % utok("other")), (0, "add %s u8:2" % utok("h")),
                             (0, "we " + hr), (0, "log info %s 0" % utok("after"))]))
    # no logger installed: the stdout default; then an install replaces it; drop; default again
    cs.append(render(2, [(0, "add %s s:%s" % (utok("k"), utok("v\"w"))), (0, "log info %s 1 %s i64:-5" % (utok("hi"), utok("n"))),
                         (1, "raw error 0"), (1, "inst 1"), (0, "log debug %s 0" % utok("x")), (1, "drop"), (0, "lr ok 200 1 3"),
                         (1, "wr %s %s 7 - err - 0 0 none" % (xtok("GET"), xtok("/")))]))
    cs.append(render(1, [(0, "drop"), (0, "inst 1"), (0, "inst 1"), (0, "drop"), (0, "drop"), (0, "gone 2"), (0, "inst 2"), (0, "log info %s 0" % utok("s")), (0, "drop")]))
    return cs


def gen(rng, tier):
    quick = tier != "thorough"
    cases = fixed_cases()
    for _ in range(1600 if quick else 60000):
        nth = rng.choice([1, 2, 2, 3, 4, 8, rng.randint(1, 8)])
        steps = gen_program(rng, nth, rng.choice([4, 8, 12, 20, 40]), install_first=True)
        if mode_of(steps) == "prog" or rng.random() < 0.1:
            cases.append(render(nth, steps))
    for _ in range(160 if quick else 3000):
        nth = rng.choice([1, 2, 3, 8])
        cases.append(render(nth, gen_program(rng, nth, rng.choice([3, 6, 12]), install_first=rng.random() < 0.3)))
    # the stdout default being started by a first logging call while another thread installs a logger
    cases += ["race %d" % k for k in ((192, 384) if quick else (192, 384, 1920, 1920, 3840))]
    for _ in range(60 if quick else 20000):
        nth = rng.choice([2, 3, 4, 8])
        cases.append(render(nth, gen_program(rng, nth, rng.choice([10, 40, 120]), install_first=False, free=True), mode="free"))
    return cases


def parse(case):
    t = case.split()
    mode, nth = t[0], int(t[1])
    steps, cur = [], []
    for x in t[2:]:
        if x == ";":
            if cur:
                steps.append((int(cur[0]), " ".join(cur[1:])))
            cur = []
        else:
            cur.append(x)
    if cur:
        steps.append((int(cur[0]), " ".join(cur[1:])))
    return mode, nth, steps


def classify(case, model):
    if case.startswith("race"):
        return "race:install-vs-first-use"
    mode, nth, steps = parse(case)
    ops = set(a.split()[0] for _, a in steps)
    return "%s:threads%s:%s" % (mode, nth if nth <= 2 else "3-8", "+".join(sorted(ops & {"gone", "drop", "wb", "wr", "lr"})))


def nontrivial(case, model):
    if case.startswith("race"):
        return True
    _, _, steps = parse(case)
    return any(a.split()[0] in ("log", "raw", "lr", "we", "wr") for _, a in steps)


def extra_evidence(results):
    hits = {}
    def hit(k):
        hits[k] = hits.get(k, 0) + 1
    for r in results:
        mode, nth, steps = parse(r[1])
        hit("mode." + mode)
        installed = False
        for t, a in steps:
            w = a.split()
            if w[0] == "inst":
                installed = True
            if w[0] == "add":
                hit("thread-tag-%s-install" % ("after" if installed else "before"))
            if w[0] == "gone":
                hit("receiver-dropped")
            for n in PRIO_NAMES:
                if utok(n) in w[1:]:
                    hit("name." + n)
            names = [x for x in w if x.startswith("u") and not x.startswith("u8:") and not x.startswith("u64:") and not x.startswith("u128:") and not x.startswith("usize:")]
            if len(names) != len(set(names)):
                hit("equal-priority-pair")
    return {"boundary_hits": dict(sorted(hits.items()))}


def shrink(case):
    mode, nth, steps = parse(case)
    free = mode == "free"
    for j, (t, a) in enumerate(steps):
        op = a.split()[0]
        if op in ("we",) or (free and a.startswith("add u116,105,100 ")):
            continue   # free mode identifies the thread of an event by its tid tag: keep those steps
        rest = steps[:j] + steps[j + 1:]
        if op == "wb":
            # remove the matching we of the same thread too
            for k in range(j, len(rest)):
                if rest[k][0] == t and rest[k][1].split()[0] == "we":
                    rest = rest[:k] + rest[k + 1:]
                    break
        if rest:
            yield render(nth, rest, mode="free" if free else None)
    # fewer threads: map the highest thread onto thread 0 is NOT behaviour preserving; instead drop a whole thread
    for t in range(nth):
        if free:
            break
        rest = [(x, a) for (x, a) in steps if x != t]
        if rest and len(rest) < len(steps):
            yield render(nth, rest, mode="free" if free else None)


def neighbours(case, rng):
    return []
LEVEL = "partial"   # for the orchestrator / MANIFEST: std guarantees (Mutex, mpsc, thread_local!) are assumed, see ASSUMPTIONS
