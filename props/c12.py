"""C12 -- connection limit never exceeded, slots conserved: case generator and evidence rules."""
import os
import acc_gen
from acc_gen import Book, HANDLER_KINDS, IDLE_KINDS, valid, shrink, classify

RULE = ("'pool' cases: every well-formed API sequence over {take, try-take-with-timeout, drop i} of exactly the stated depth "
        "(all shorter ones are its prefixes) for pool sizes 1-3, exhaustively, plus random longer ones for size 4; 'acc' cases: "
        "servlin::internal::accept_loop driven directly over loop-back sockets with a conn_handler that keeps or drops the Token on "
        "command, 2-3x as many clients as slots; 'srv' cases: HttpServerBuilder::max_conns(n).spawn(gated handler), every "
        "connection-ending kind of the quantifier. After every history all live connections are ended and n+1 fresh clients knock: "
        "exactly n must be served at once. Non-trivial = the history reaches the limit (a take times out / the gauge equals n).")
ASSUMPTIONS = [
    "level partial: the theorems are about the transition system of Model/Accept.v; that every way a connection task ends really "
    "drops its Token is Rust ownership + executor behaviour, observed by the 'srv' scenarios for the listed ending kinds, not proved",
    "executor fairness and wake-ups inside safina (sync_channel, timers) are runtime facts; a scenario step waits up to 2.5 s for the "
    "forecast observation and a deviating case is re-measured (3 deviations in a row are reported, fewer are logged as inconclusive)",
    "std::sync::mpsc::sync_channel(n) holds at most n units and try_send fails exactly when it is full (the model's `put`)",
    "accept() failures (EMFILE) are injected only in the thorough tier by lowering RLIMIT_NOFILE inside the harness process; other "
    "accept errors are not injected; the `error(..).unwrap()` in the EMFILE arm (panics if the logger has stopped) is not exercised",
    "the handler gauge counts connections whose handler has been entered; a connection admitted but silent is invisible to it "
    "(the direct 'acc' surface sees every admitted connection)",
]
EXHAUSTIVE = {"quick": False, "thorough": False}
# when an internal signature (accept_loop, TokenSet) changes and c12 no longer builds, the full-server
# scenarios still run: they use only the public API
FALLBACK_BIN = "c12srv"


def fallback_supports(case):
    return case.startswith("srv ")


os.environ["SV_TIMING_LOG"] = acc_gen.timing_log_path("C12")


def pool_sequences(n, depth):
    out = []
    def rec(prefix, live, d):
        if d == 0:
            out.append("pool %d %s" % (n, " ".join(prefix)))
            return
        for op in ("T", "Y"):
            rec(prefix + [op], min(n, live + 1), d - 1)
        for i in range(live):
            rec(prefix + ["D%d" % i], live - 1, d - 1)
    rec([], 0, depth)
    return out


def random_acc(rng, n, full, length, with_revoke=False):
    b = Book(n, full)
    cmds = []
    maxclients = rng.choice([2 * n, 3 * n])
    for _ in range(length):
        choices = []
        if b.nclients < maxclients:
            choices += ["c"] * 3
        if full:
            for k in b.handlers():
                # with pipelined followers already in the server's buffer only endings in which the SERVER closes
                # end the connection for good (otherwise it goes on with the buffered request)
                kinds = ["err500", "panic", "drop"] if k in b.unread else HANDLER_KINDS
                choices += ["l%d" % k, "e%d:%s" % (k, rng.choice(kinds))]
                if k not in b.unread and rng.random() < 0.2:
                    choices += ["b%d:2" % k]
            for k in b.idle():
                choices += ["q%d" % k, "e%d:%s" % (k, rng.choice(IDLE_KINDS))]
                if rng.random() < 0.3:
                    choices += ["b%d:%d" % (k, rng.choice([2, 3]))]
        else:
            for k in b.tokens():
                choices += ["e%d" % k] * 2
        if not choices:
            break
        c = rng.choice(choices)
        cmds.append(c)
        if c == "c":
            b.connect()
        elif c[0] == "e":
            b.end(int(c[1:].split(":")[0]))
        elif c[0] == "l":
            b.release(int(c[1:]))
        elif c[0] == "q":
            b.request(int(c[1:]))
        elif c[0] == "b":
            b.request(int(c[1:].split(":")[0]), int(c.split(":")[1]))
    return "%s %d %s" % ("srv" if full else "acc", n, " ".join(cmds))


def gen(rng, tier):
    open(os.environ["SV_TIMING_LOG"], "w").close()
    cases = []
    depth = 6 if tier == "quick" else 8
    for n in (1, 2, 3):
        cases += pool_sequences(n, depth)
    # pool size 4, invalid drops, longer random sequences
    for _ in range(300 if tier == "quick" else 5000):
        n = rng.choice([1, 2, 3, 4])
        live, ops = 0, []
        for _ in range(rng.randint(4, 16)):
            r = rng.random()
            if r < 0.45 or live == 0:
                ops.append(rng.choice("TY")); live = min(n, live + 1)
            elif r < 0.95:
                ops.append("D%d" % rng.randrange(live)); live -= 1
            else:
                ops.append("D%d" % (live + rng.randint(0, 2)))   # no such token: nothing happens
        cases.append("pool %d %s" % (n, " ".join(ops)))
    # accept loop driven directly
    for n in (1, 2, 3, 4):
        cases.append("acc %d %s" % (n, " ".join(["c"] * (3 * n))))                      # 3x clients, nobody leaves
        cases.append("acc %d %s %s" % (n, " ".join(["c"] * (2 * n)), " ".join("e%d" % k for k in range(2 * n))))   # FIFO drain
        cases.append("acc %d %s %s" % (n, " ".join(["c"] * n), " ".join("e%d" % k for k in reversed(range(n)))))   # LIFO
    for _ in range(60 if tier == "quick" else 1500):
        cases.append(random_acc(rng, rng.choice([1, 2, 3, 4]), False, rng.randint(4, 14)))
    # full server: every ending kind at the limit, then random mixes
    for n in (1, 2):
        for kind in HANDLER_KINDS:
            cases.append("srv %d %s e0:%s" % (n, " ".join(["c"] * (n + 1)), kind))
        for kind in IDLE_KINDS:
            cases.append("srv %d %s l0 e0:%s" % (n, " ".join(["c"] * (n + 1)), kind))
    # the server ends a connection whose request body it never read (error / panic / drop answered on an upload
    # head) while the client stays connected and silent: the slot must come back all the same
    for n in (1, 2):
        for kind in ("err500", "panic", "drop", "okclose", "abort", "reset"):
            # okclose: the handler answers 200 without the body, the client reads the answer and goes away
            cases.append("srv %d %s e0:%s" % (n, " ".join(["C"] + ["c"] * n), kind))
            cases.append("srv %d %s l0 Q0 e0:%s" % (n, " ".join(["c"] * (n + 1)), kind))
    cases.append("srv 2 C C c c e0:err500 e1:drop l2 e2:close")
    cases.append("srv 3 c c c c c c c e0:panic e1:drop e2:err500 l3 e3:malformed e4:abort")
    cases.append("srv 4 c c c c c c c c l0 l1 q0 e1:aborthead e2:okclose e3:abort l0 e0:abortbody")
    for _ in range(40 if tier == "quick" else 1200):
        cases.append(random_acc(rng, rng.choice([1, 2, 3, 4]), True, rng.randint(4, 14)))
    # accept() failing with EMFILE for 3.7 s (7 retry rounds) while a client knocks: afterwards the slot count is whole
    cases.append("acc 2 c f7 e0 c c")
    # the same while the global logger's queue is full: logging the failure must not cost the accept loop
    cases += ["acc 2 c G1 e0 c c", "acc 1 G2 c"]
    # a failed accept while a connection is live, then more clients than slots: the failure neither costs nor creates a slot
    cases += ["acc 2 c f1 c c", "acc 3 c c f1 c c c", "acc 1 c f1 c e0 c"]
    # tokens 0, 1, 2 end in three different ways (dropped; dropped while their thread panics; dropped on another thread)
    cases += ["acc 3 c c c c c c e1 e0 e2 c", "acc 2 c c e1 c e0 c"]
    if tier == "thorough":
        cases += ["acc 1 f4 c", "acc 1 f12 c", "acc 2 f16 c"]
        # accept() failing with EMFILE while a client knocks (descriptor limit lowered for 0.7 s)
        for n in (1, 2):
            cases.append("acc %d f1 c" % n)
            cases.append("acc %d c f1 e0 c c" % n)
    cases = [c for c in cases if valid(c) or c.startswith("pool")]
    return cases


def nontrivial(case, model):
    return acc_gen.reaches_limit(case, model)


def neighbours(case, rng):
    t = case.split()
    if t[0] == "pool":
        return
    full = t[0] == "srv"
    for _ in range(200):
        yield random_acc(rng, int(t[1]), full, rng.randint(3, 12))


def extra_evidence(results):
    inc, rep = 0, 0
    try:
        for l in open(os.environ["SV_TIMING_LOG"]):
            if l.startswith("inconclusive"):
                inc += 1
            elif l.startswith("reproduced-3x"):
                rep += 1
    except OSError:
        pass
    hits = {"pool size 1": 0, "pool size 2": 0, "pool size 3": 0, "pool size 4": 0, "take at 0 available": 0,
            "accept error then success": 0, "gauge reached n": 0}
    kinds = {}
    for (prof, c, i, m, v) in results:
        t = c.split()
        if t[0] == "pool":
            hits["pool size %s" % t[1]] = hits.get("pool size %s" % t[1], 0) + 1
            if " T" in " " + i.split(";")[0]:
                hits["take at 0 available"] += 1
        else:
            if any(x[0] == "f" for x in t[2:]):
                hits["accept error then success"] += 1
            if acc_gen.reaches_limit(c, i):
                hits["gauge reached n"] += 1
            for x in t[2:]:
                if ":" in x:
                    k = x.split(":")[1]
                    kinds[k] = kinds.get(k, 0) + 1
    return dict(level_claimed="partial", timing_inconclusive=inc, timing_reproduced_3x=rep, boundary_hits=hits,
                connection_ending_kinds=kinds,
                accept_failure_injection=("EMFILE by RLIMIT_NOFILE inside the harness (thorough tier only)"))
