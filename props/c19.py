"""C19 -- file log writer and PrefixFileSet: case generator and evidence rules.

Two case families (syntax: harness/src/bin/c19.rs):
  set ...     PrefixFileSet driven directly over a temp dir with synthetic mtimes
  writer ...  LogFileWriter::start_writer_thread fed with events of chosen sizes, pre-existing
              directory entries, restarts; the directory is read back at every `snap`/`X`.
"""
import math

PROFILES = ["release", "debug"]
RULE = ("'set' cases: PrefixFileSet::new over 0-7 synthetic directory entries (matching / byte-prefix-only / "
        "non-matching / directory / equal mtimes) followed by 3-14 random push / delete_oldest / delete_older_than / "
        "delete_oldest_while_over_max_len calls with budgets and ages on and next to every boundary; 'writer' cases: "
        "configurations of the quantifier (and some outside it), event sizes 96 B..70 KiB, 0-6 pre-existing entries, "
        "0-3 restarts, directory snapshot after every event (short cases) or every 25-400 events. Non-trivial = at "
        "least one file was deleted (set cases) / at least one rotation and one deletion happened (writer cases); "
        "distinct by full case text.")
ASSUMPTIONS = [
    "clock_monotone: SystemTime::now() is non-decreasing (Section hypothesis of the writer theorems)",
    "the model runs the heap order (mtime, then path) of the D18 repair; on a tree without that repair equal mtimes "
    "are reported as suffix-hole-equal-mtimes-D18 (c19_equal_mtimes_hole_refuted / c19_equal_mtimes_fixed)",
    "before a restart the harness gives the generated files distinct increasing mtimes (real file systems have "
    "coarse timestamps; whether names then order the files is the open multi-run gap of c19_survivors_are_suffix_partial)",
    "the directory is modified by the writer only (closed world): remove_file/create/write never fail",
    "all sizes and both byte limits are below 2^63 (Vec lengths are at most isize::MAX)",
    "BinaryHeap pops an element of minimal mtime; which one among equals is unspecified (all schedules quantified)",
    "one clock reading per event: LogFile.created of a file made by a rotation equals that event's `now`",
]
TRUSTED_EXTRA = [
    "C19: the serialised event is an opaque line; its length is what servlin's own write_jsonl produces (C17 covers the text)",
    "C19: order of generated files on disk = order of the time_ns of their first line",
]

KIB = 1024
S0 = 105          # length of the "Starting log writer" line, used only to aim boundary cases
MIN_EV = 96


def tok(s):
    return "x" + s.encode("latin1").hex()


# ------------------------------------------------------------------------------------------ set cases

def gen_set_case(rng, big=False):
    prefix = rng.choice(["server.log", "server.log", "a", "log.", "srv"])
    pool_t = [0, 1, 2, 3, 5, 5, 7, 7, 7, 9, 12]
    names = []
    cand = [prefix + ".1", prefix + ".2", prefix + "2", prefix + "2.old", prefix, prefix[:-1] or "q", "other",
            "zz" + prefix, prefix + ".dir", prefix.upper() + ".9", prefix + "-x", prefix + "."]
    rng.shuffle(cand)
    t = ["set", tok(prefix)]
    nfiles = rng.choice([0, 1, 1, 2, 3, 4, 5, 5, 6, 7])
    state = {}   # name -> (size, mtime) of matching regular files known to the set (python mirror, for aiming only)
    allnames = set()
    for nm in cand[:nfiles]:
        if nm in allnames:
            continue
        allnames.add(nm)
        isdir = nm.endswith(".dir") and rng.random() < 0.8
        size = rng.choice([0, 1, 10, 50, 100, 100, 200, rng.randint(0, 300)])
        if big and rng.random() < 0.3:
            size = rng.choice([2 ** 31, 2 ** 32 + 5, 2 ** 33])
        mt = rng.choice(pool_t)
        t += ["F", tok(nm), "d" if isdir else "f", str(size), str(mt)]
        if not isdir and nm.startswith(prefix):
            state[nm] = (size, mt)
    t.append("N")
    nops = rng.randint(3, 14)
    pushed = 0
    for _ in range(nops):
        r = rng.random()
        total = sum(s for s, _ in state.values())
        if r < 0.3:
            nm = (prefix + ".p%d" % pushed) if rng.random() < 0.85 else ("pushed%d" % pushed)
            pushed += 1
            size = rng.choice([0, 1, 10, 50, 100, 100, 200, rng.randint(0, 300)])
            mt = rng.choice(pool_t + [13, 14, 15])
            ln = size if rng.random() < 0.9 else rng.choice([0, size + 1, 2 * size, 2 ** 40])
            t += ["F", tok(nm), "f", str(size), str(mt), "P", tok(nm), str(mt), str(ln)]
            state[nm] = (ln, mt)
        elif r < 0.42:
            t.append("D")
            if state:
                # mirror: drop one minimal (choice irrelevant for aiming)
                k = min(state, key=lambda n: state[n][1])
                del state[k]
        elif r < 0.68:
            now = rng.choice([5, 8, 10, 12, 15, 20])
            if state and rng.random() < 0.6:
                # threshold exactly at / next to an existing mtime
                mt = rng.choice([m for _, m in state.values()])
                dur = now - mt + rng.choice([-1, 0, 0, 1])
                if dur < 0:
                    dur = 0
            else:
                dur = rng.randint(0, 14)
            t += ["A", str(now), str(dur)]
            thr = max(now - dur, 0)
            for k in [k for k in state if state[k][1] < thr]:
                del state[k]
        elif r < 0.95:
            if total > 0 and rng.random() < 0.7:
                # budget on / next to a partial sum of the oldest files
                acc, marks = 0, [0, total, max(total - 1, 0), total + 1]
                for k in sorted(state, key=lambda n: (-state[n][1], n)):
                    acc += state[k][0]
                    marks += [acc, max(acc - 1, 0), acc + 1]
                mx = rng.choice(marks)
            else:
                mx = rng.choice([0, 1, 50, 100, 150, 300, 1000, 2 ** 63])
            t += ["W", str(mx)]
            while sum(s for s, _ in state.values()) > mx and state:
                k = min(state, key=lambda n: state[n][1])
                del state[k]
        else:
            t.append("N")
            # mirror not maintained across a rescan of claimed lengths; good enough for aiming
    return " ".join(t)


# ------------------------------------------------------------------------------------------ writer cases

def sim_writer(mw, mk, cur, closed, n):
    """python mirror of one loop iteration (size only), used for aiming and for snapshots' cadence"""
    rotated = False
    if cur + n > mw:
        closed.append(cur)
        cur = 0
        rotated = True
    budget = max(mk - cur - n, 0)
    deleted = 0
    while sum(closed) > budget and closed:
        closed.pop(0)
        deleted += 1
    return cur + n, rotated, deleted


def ev_size(rng, lo=MIN_EV, hi=60 * KIB):
    r = rng.random()
    if r < 0.15:
        return rng.randint(lo, max(200, 2 * lo))
    if r < 0.2:
        return hi
    return int(math.exp(rng.uniform(math.log(lo), math.log(hi))))


def pre_entries(rng, k, old_ok=True):
    """k pre-existing directory entries; ages are far from the 60 s keep-age boundary"""
    out = []
    used = set()
    ages = [rng.choice([3000, 9000, 20000, 130000, 200000, 900000, 7200000]) for _ in range(k)]
    # distinct ages (distinct mtimes)
    seen = set()
    for i in range(k):
        while ages[i] in seen:
            ages[i] += 37
        seen.add(ages[i])
    for i in range(k):
        kind = rng.choice("ggggppqoord")
        idx = i
        label = "%s%d" % (kind, idx)
        if label in used:
            continue
        used.add(label)
        size = rng.choice([0, 1, 100, 5000, 40000, 65536, 70000, 200000, rng.randint(1, 300000)])
        out += ["E", label, str(size), str(ages[i])]
    return out


def gen_writer_case(rng, nev, mw, mk, ka=0, npre=0, restarts=0, snap_every=1, sizes=None, mk2=None):
    t = ["writer"] + pre_entries(rng, npre)
    t += ["S", str(mw), str(mk), str(ka), "0", "snap"]
    cuts = sorted(rng.sample(range(1, max(nev, 2)), min(restarts, max(nev - 1, 0)))) if restarts else []
    for i in range(nev):
        n = sizes[i] if sizes else ev_size(rng)
        t.append("e%d" % n)
        if (i + 1) % snap_every == 0 and i + 1 < nev and (i + 1) not in cuts:
            t.append("snap")
        if (i + 1) in cuts:
            gap = rng.choice([2000, 10000, 25000, 130000, 300000])
            m2 = mk2 if mk2 else mk
            t += ["X", str(gap), "S", str(mw), str(m2), str(ka), "0", "snap"]
    t.append("snap")
    return " ".join(t)


def aimed_sizes(rng, mw, mk):
    """event sizes that put file.len + event on max_write (and +1) and the closed total on the
    deletion budget (and +1); computed with the python mirror assuming the start line is S0 bytes"""
    sizes = []
    cur, closed = S0, []
    def add(n):
        nonlocal cur
        sizes.append(n)
        cur, _, _ = sim_writer(mw, mk, cur, closed, n)
    add(mw - 36)                 # rotates: current file holds exactly this event
    add(30000 if mw - 36 + 30000 > mw else MIN_EV)
    # fill the current file exactly to max_write, then one more byte next time
    room = mw - cur
    if room >= MIN_EV:
        add(room)                # file.len + event = max_write: no rotation
    add(MIN_EV)                  # rotates
    room = mw - cur
    if room + 1 >= MIN_EV:
        add(room + 1)            # file.len + event = max_write + 1: rotation
    # closed total exactly on the budget: choose n with sum(closed)+cur' = mk - n  (cur' after possible rotation)
    for delta in (0, 1):
        for _ in range(3):
            add(ev_size(rng, 2000, 30000))
        tot = sum(closed)
        # event that does not rotate: budget = mk - cur - n ; want tot = budget (+delta over)
        n = mk - cur - tot + delta
        if MIN_EV <= n <= mw - cur:
            add(n)
        else:
            # event that rotates: closed' = tot + cur, budget = mk - n
            n = mk - tot - cur + delta
            if n >= MIN_EV and cur + n > mw:
                add(n)
    for _ in range(6):
        add(ev_size(rng))
    return sizes


def gen(rng, tier):
    cases = []
    quick = tier != "thorough"
    # ---- set cases
    for _ in range(1500 if quick else 60000):
        cases.append(gen_set_case(rng))
    for _ in range(20 if quick else 300):
        cases.append(gen_set_case(rng, big=True))
    # ---- writer cases
    grid_mw = [64 * KIB, 128 * KIB, 1024 * KIB]
    grid_k = [1, 2, 3.5, 10]
    # boundary-aimed, snapshot after every event
    for mw in ([64 * KIB, 128 * KIB] if quick else grid_mw):
        for k in ([1, 2, 3.5] if quick else grid_k):
            mk = int(mw * k)
            sz = aimed_sizes(rng, mw, mk)
            cases.append(gen_writer_case(rng, len(sz), mw, mk, sizes=sz, npre=rng.choice([0, 1, 3])))
    # short random cases: every config of the grid once, pre-existing entries, restarts, keep-age on/off
    combos = [(mw, k) for mw in grid_mw for k in grid_k]
    reps = 1 if quick else 6
    for _ in range(reps):
        for (mw, k) in combos:
            mk = int(mw * k)
            big = mw >= 1024 * KIB
            nev = rng.randint(20, 60) if not big else rng.randint(60, 120)
            cases.append(gen_writer_case(rng, nev, mw, mk, ka=rng.choice([0, 60]), npre=rng.choice([0, 1, 2, 5, 6]),
                                         restarts=rng.choice([0, 1, 2, 3]), snap_every=1 if not big else 7,
                                         sizes=[ev_size(rng, 2000, 60 * KIB) for _ in range(nev)]))
    # restart right after a rotation; restart with a smaller keep budget
    for mw, mk in [(64 * KIB, 64 * KIB), (64 * KIB, 128 * KIB)]:
        cases.append("writer E g0 5000 9000 S %d %d 0 0 snap e40000 e40000 X 2000 S %d %d 0 0 snap e40000 snap e30000 snap e500 snap"
                     % (mw, mk, mw, mk))
        cases.append("writer S %d %d 0 0 e60000 e60000 e60000 e60000 snap X 2000 S %d %d 0 0 snap e100 snap e60000 snap"
                     % (mw, 4 * mw, mw, mw))
    # outside the quantifier (Appendix A): keep budget below the current file / below one event
    cases.append("writer S 131072 65536 0 0 snap e60000 snap e20000 snap e1000 snap e60000 snap e60000 snap")
    cases.append("writer E g0 100 9000 S 65536 65536 0 0 snap e70000 snap e200 snap e66000 snap e65536 snap")
    cases.append("writer E g1 70000 9000 E g2 65000 8000 E o0 99999 5000 S 65536 65536 0 0 snap e100 snap")
    # D18: pre-existing log files with EQUAL mtimes (equal ages), names in creation order
    for mk in (100000, 70000, 40000):
        cases.append("writer E g0 30000 9000 E g1 30000 9000 E p2 30000 9000 E g3 30000 9000 E o4 30000 9000 "
                     "S 65536 %d 0 0 snap e100 snap e30000 snap e30000 snap e60000 snap" % mk)
    # keep-age 60 s, expired files of an earlier run, total far under max_keep, small NON-rotating events,
    # snapshot after each: the purge by age must happen at every event, not only when a file is rotated
    for mw, mk in [(64 * KIB, 640 * KIB), (128 * KIB, 1280 * KIB), (1024 * KIB, 10240 * KIB)]:
        ents = []
        for i in range(rng.randint(2, 5)):
            ents += ["E", "%s%d" % (rng.choice("ggpq"), i), str(rng.choice([100, 5000, 30000])),
                     str(rng.choice([130000, 200000, 900000, 7200000]) + 37 * i)]
        ents += ["E", "g7", "300", "20000", "E", "o8", "100", "7200000"]
        evs = []
        for _ in range(rng.randint(3, 6)):
            evs += ["e%d" % rng.randint(MIN_EV, 2000), "snap"]
        cases.append("writer " + " ".join(ents) + " S %d %d 60 0 snap " % (mw, mk) + " ".join(evs))
        # the same after a restart: the files of the first run are stamped 130 s / 300 s old
        cases.append("writer S %d %d 60 0 e5000 e%d e3000 X %d S %d %d 60 0 snap " % (mw, mk, min(mw - 100, 66000), rng.choice([130000, 300000]), mw, mk)
                     + " ".join(evs))
    # keep-age: old pre-existing files go at the first event, young ones stay
    cases.append("writer E g0 100 7200000 E g1 100 130000 E g2 100 20000 E p3 100 200000 E o4 100 7200000 S 65536 655360 60 0 snap e100 snap e100 snap")
    # rotation by age, and an event that waited 1.3 s between being built and reaching the writer (write age 1 s):
    # the file it finds is too old by the writer's clock, whatever time the event itself carries
    cases.append("writer S 65536 131072 0 1 snap e300 snap H 1300 e%d snap e300 snap" % ev_size(rng, 100, 2000))
    # long streams
    if quick:
        cases.append(gen_writer_case(rng, 2000, 64 * KIB, int(64 * KIB * 3.5), npre=3, restarts=2, snap_every=100))
        cases.append(gen_writer_case(rng, 400, 128 * KIB, 128 * KIB, ka=60, npre=5, restarts=1, snap_every=25))
    else:
        for (mw, k) in combos:
            for nev in (100, 1000, 5000, 20000):
                # the extracted model appends to Coq lists: long files (1 MiB) make it quadratic
                if nev == 20000 and (mw, k) not in [(64 * KIB, 1), (64 * KIB, 3.5), (128 * KIB, 2)]:
                    continue
                if nev == 5000 and mw >= 1024 * KIB and k != 10:
                    continue
                cases.append(gen_writer_case(rng, nev, mw, int(mw * k), ka=rng.choice([0, 60]), npre=rng.choice([0, 2, 5]),
                                             restarts=rng.choice([0, 1, 3, 6]), snap_every=max(nev // 40, 1)))
        # rotation by age needs real seconds: write age 1 s, sleeps of 1.3 s
        for _ in range(4):
            t = ["writer", "S", "65536", "131072", "0", "1", "snap"]
            for b in range(4):
                for _ in range(rng.randint(1, 5)):
                    t.append("e%d" % ev_size(rng, 100, 20000))
                t += ["snap", "Z", "1300"]
            t += ["e500", "snap"]
            cases.append(" ".join(t))
    return cases


# ------------------------------------------------------------------------------------------ evidence

def classify(case, model):
    t = case.split()
    if t[0] == "set":
        ops = set(x for x in t[2:] if x in ("P", "D", "A", "W"))
        return "set:" + "".join(sorted(ops)) + (":panic" if model.endswith("panic") else "")
    nev = sum(1 for x in t if x[0] == "e" and x[1:].isdigit())
    nre = t.count("X")
    npre = t.count("E")
    return "writer:ev<=%d:restarts=%d:pre=%s" % (10 ** len(str(max(nev, 1))), nre, "0" if npre == 0 else ("1-2" if npre <= 2 else "3+"))


def nontrivial(case, model):
    t = case.split()
    if t[0] == "set":
        # some listing shrank
        counts = [int(x[1:]) for x in model.split() if x.startswith("L") and x[1:].isdigit()]
        return any(b < a for a, b in zip(counts, counts[1:]))
    snaps = model.split("|")[1:]
    nfiles = [s.count("[") for s in snaps]
    firsts = []
    for s in snaps:
        i = s.find("[")
        firsts.append(s[i:i + 24] if i >= 0 else "")
    rotated = any(n >= 2 for n in nfiles)
    deleted = any(a != b and a and b for a, b in zip(firsts, firsts[1:]))
    return rotated and deleted


def extra_evidence(results):
    b = {"file.len+event=max_write (no rotation) / +1 (rotation) aimed cases": 0, "keep budget < current file": 0,
         "pre-existing entries": 0, "restart": 0, "keep-age on": 0, "set: equal mtimes present": 0,
         "set: delete_oldest on empty (documented panic)": 0}
    for r in results:
        c = r[1].split()
        if c[0] == "writer":
            if "E" in c:
                b["pre-existing entries"] += 1
            if "X" in c:
                b["restart"] += 1
            for i, x in enumerate(c):
                if x == "S":
                    if int(c[i + 2]) < int(c[i + 1]):
                        b["keep budget < current file"] += 1
                    if c[i + 3] != "0":
                        b["keep-age on"] += 1
                    break
        else:
            mts = [c[i + 4] for i, x in enumerate(c) if x == "F"]
            if len(set(mts)) < len(mts):
                b["set: equal mtimes present"] += 1
            if r[3].endswith("panic"):
                b["set: delete_oldest on empty (documented panic)"] += 1
    b["file.len+event=max_write (no rotation) / +1 (rotation) aimed cases"] = sum(
        1 for r in results if r[1].startswith("writer") and (" e%d " % (65536 - 36)) in r[1] or (" e%d " % (131072 - 36)) in r[1])
    return {"boundary_hits": b}


# ------------------------------------------------------------------------------------------ shrinking

def _split_set(t):
    """-> prefix tokens, list of op token groups"""
    head, ops, i = t[:2], [], 2
    while i < len(t):
        k = {"F": 5, "N": 1, "P": 4, "D": 1, "A": 3, "W": 2}[t[i]]
        ops.append(t[i:i + k])
        i += k
    return head, ops


def _split_writer(t):
    ops, i = [], 1
    while i < len(t):
        k = {"E": 4, "S": 5, "snap": 1, "X": 2, "Z": 2, "H": 2}.get(t[i], 1)
        ops.append(t[i:i + k])
        i += k
    return ops


def shrink(case):
    t = case.split()
    if t[0] == "set":
        head, ops = _split_set(t)
        for j in range(len(ops)):
            if ops[j][0] == "N" and j == min(i for i, o in enumerate(ops) if o[0] == "N"):
                continue
            rest = ops[:j] + ops[j + 1:]
            # a P needs its F
            if ops[j][0] == "F" and any(o[0] == "P" and o[1] == ops[j][1] for o in rest):
                continue
            if rest:
                yield " ".join(head + [x for o in rest for x in o])
        return
    ops = _split_writer(t)
    # drop a restart (X gap S ...), drop chunks of events, drop single ops, then make events smaller
    for j, o in enumerate(ops):
        if o[0] == "X" and j + 1 < len(ops) and ops[j + 1][0] == "S":
            rest = ops[:j] + ops[j + 2:]
            yield "writer " + " ".join(x for o2 in rest for x in o2)
    evs = [j for j, o in enumerate(ops) if o[0][0] == "e" and o[0][1:].isdigit()]
    for frac in (2, 4, 8):
        n = len(evs) // frac
        if n >= 1:
            for start in range(0, len(evs), n):
                drop = set(evs[start:start + n])
                rest = [o for j, o in enumerate(ops) if j not in drop]
                yield "writer " + " ".join(x for o2 in rest for x in o2)
    for j, o in enumerate(ops):
        if o[0] == "S":
            continue          # events need a running writer
        if o[0] == "X":
            continue
        if o[0] == "snap" and j == len(ops) - 1:
            continue
        rest = ops[:j] + ops[j + 1:]
        yield "writer " + " ".join(x for o2 in rest for x in o2)
    for j in evs:
        n = int(ops[j][0][1:])
        for m in (MIN_EV, n // 2, n - 1000):
            if MIN_EV <= m < n:
                rest = ops[:j] + [["e%d" % m]] + ops[j + 1:]
                yield "writer " + " ".join(x for o2 in rest for x in o2)


def neighbours(case, rng):
    t = case.split()
    out = []
    if t[0] == "set":
        for _ in range(200):
            out.append(gen_set_case(rng))
    else:
        for _ in range(6):
            mw = rng.choice([64 * KIB, 128 * KIB])
            mk = int(mw * rng.choice([1, 2, 3.5]))
            sz = aimed_sizes(rng, mw, mk)
            out.append(gen_writer_case(rng, len(sz), mw, mk, sizes=sz, npre=rng.choice([0, 2, 5]), restarts=rng.choice([0, 1])))
    return out
