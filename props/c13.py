"""C13 -- graceful shutdown: case generator and evidence rules."""
import os
import acc_gen
from acc_gen import Book, HANDLER_KINDS, IDLE_KINDS, valid, shrink, classify

HARNESS_BIN = "c13"
# when an internal signature (accept_loop, TokenSet) changes and c13 no longer builds, the full-server
# scenarios still run: they use only the public API
FALLBACK_BIN = "c13srv"


def fallback_supports(case):
    return case.startswith("srv ")

RULE = ("'acc' cases: accept_loop driven directly, the permit revoked at every position of base histories (before any "
        "connection, below the limit, at the limit, with clients waiting in the backlog), pool sizes 1-4; 'srv' cases: the full "
        "server with the revocation injected at each phase of a connection's life {no connection, idle keep-alive, head partially "
        "received, handler running, body upload in progress, all slots occupied by idle connections} x 1..max_conns connections in "
        "mixed phases, followed by the follow-ups that distinguish the outcomes (gate opened, one further request, a second "
        "further request, 2-3 pipelined requests in ONE client write before / after the revocation, a connect after the stop). Observed: stopped signal (2.5 s bound per step), listener refusing "
        "connects, complete responses read by the clients, connections closed by the server. Non-trivial = the case contains a "
        "revocation with at least one live connection.")
ASSUMPTIONS = [
    "level partial: 'bounded time' is proved as 'at most 4 steps of the accept task, which is never blocked once the permit is "
    "revoked'; that the executor runs the task and wakes it on revocation (permit crate, safina) is observed, not proved",
    "timing verdicts are three-valued: a step waits up to 2.5 s for the forecast observation; a deviating case is re-measured and "
    "only 3 deviations in a row are reported; fewer are logged as inconclusive in this evidence file",
    "one 500 ms error sleep may precede the stop when accept() has just failed (not injected here; C12 thorough injects EMFILE)",
    "the phase 'response being written' is exercised only as the transient between handler return and the next loop head "
    "(a write blocked on a non-reading client is not staged)",
    "the boolean oracles cover the stop signal, the listener, accept-after-stop (oracle_c13_acc) and 'after the revocation every "
    "completed response is followed by the server closing that connection' (oracle_c13_conn), both proved sound for all scenarios; "
    "that a running handler's response is complete is additionally tied to the implementation by equality of the response counts",
    "an open connection on which the client never sends again stays open after the stop (the statement's 'at most one further request')",
]
EXHAUSTIVE = {"quick": False, "thorough": False}
os.environ["SV_TIMING_LOG"] = acc_gen.timing_log_path("C13")

PHASES = ["idle", "handler", "partial", "upload", "pending"]


def staged(n, phases, followups, rng=None):
    """n slots; one client per entry of `phases` brought into that phase, then revoke, then follow-ups."""
    cmds = []
    nc = len(phases)
    # connect everybody; the first n are admitted (their handlers are entered), the rest wait
    cmds += ["c"] * nc
    admitted = list(range(min(n, nc)))
    state = {}
    for k in admitted:
        ph = phases[k]
        if ph == "handler":
            state[k] = "H"
        else:
            cmds.append("l%d" % k)       # answer the first request: idle keep-alive
            state[k] = "I"
            if ph == "partial":
                cmds.append("p%d" % k); state[k] = "P"
            elif ph == "upload":
                cmds.append("u%d" % k); state[k] = "P"
    cmds.append("r")
    if followups >= 1:
        for k in admitted:
            if state[k] == "H":
                cmds.append("l%d" % k)           # the running handler's answer must arrive, then close
            elif state[k] in ("I", "P"):
                cmds.append("q%d" % k)           # one further request is served ...
                cmds.append("l%d" % k)           # ... completely, then the connection is closed
    if followups >= 2:
        for k in admitted:
            cmds.append("q%d" % k)               # a second further request is not served
        cmds.append("c")                         # a connect after the stop is not served
    return "srv %d %s" % (n, " ".join(cmds))


def insert_revoke(case, pos):
    t = case.split()
    return " ".join(t[:2] + t[2:2 + pos] + ["r"] + t[2 + pos:])


def gen(rng, tier):
    open(os.environ["SV_TIMING_LOG"], "w").close()
    cases = []
    # direct accept loop: revoke at every position of base histories
    for n in (1, 2, 3, 4):
        bases = ["acc %d" % n,
                 "acc %d %s" % (n, " ".join(["c"] * n)),
                 "acc %d %s" % (n, " ".join(["c"] * (n + 2))),
                 "acc %d %s e0 c" % (n, " ".join(["c"] * (n + 1)))]
        if n > 1:
            bases.append("acc %d c" % n)
        for b in bases:
            L = len(b.split()) - 2
            for pos in range(L + 1):
                c = insert_revoke(b, pos)
                # after the revocation: a further connect and the end of a held connection change nothing
                cases.append(c)
                if valid(c + " c"):
                    cases.append(c + " c")
    # revoked while accept() has been failing (EMFILE) for e retry rounds: the stop must not wait for a pause that
    # grew with the number of failures
    cases.append("acc 2 c F7")
    # an upload with Expect: 100-continue whose handler is running when the permit is revoked and then asks for the body:
    # 100 Continue, the body and the complete final response still go through (x = such a client, y<k> = its handler
    # answers "get the body first")
    cases += ["srv 2 x y0", "srv 2 x r y0", "srv 1 x r y0 c", "srv 2 c x r l0 y1", "srv 3 x x r y1 y0"]
    # an idle connection that sends "OPTIONS *" pings after the revocation: it is closed like every other connection
    cases += ["srv 2 c l0 r e0:optstar c", "srv 1 c l0 e0:optstar c c", "srv 2 c c l0 l1 r e1:optstar e0:optstar"]
    # stopping must not wait for the logger: a global logger whose queue is full and undrained is installed first
    cases += ["acc 2 c L r", "acc 1 L c c r c", "acc 3 L r"]
    if tier == "thorough":
        cases += ["acc 1 F1", "acc 1 F3", "acc 2 F4", "acc 3 c c c c F9 c", "acc 2 F12", "acc 2 F16"]
    # full server: each phase x 1..n connections (uniform), all slots idle, mixed phases
    for n in (1, 2, 3):
        cases.append("srv %d r" % n)
        cases.append("srv %d r c" % n)
        for ph in PHASES[:4]:
            for k in range(1, n + 1):
                for fu in (0, 1, 2):
                    cases.append(staged(n, [ph] * k, fu))
        # more clients than slots: the waiting ones are never served
        cases.append(staged(n, ["idle"] * (n + 2), 2))
        cases.append(staged(n, ["handler"] * (n + 1), 1))
    # pipelined bursts: k complete requests in ONE client write on an open connection, before and
    # after the revocation; after it at most one further request may be served, then EOF
    for n in (1, 2):
        for j in (2, 3):
            cases.append("srv %d c l0 r b0:%d l0" % (n, j))            # idle connection, burst after the stopped signal
            cases.append("srv %d c l0 r b0:%d l0 c" % (n, j))
            cases.append("srv %d c l0 b0:%d r l0" % (n, j))            # burst received, then revoked while its first request runs
            cases.append("srv %d c b0:%d r l0" % (n, j))               # slow in-flight request + pipelined followers, then revoke
            cases.append("srv %d c r b0:%d l0" % (n, j))               # revoke while the handler runs, followers arrive afterwards
            cases.append("srv %d c b0:%d l0 l0 r l0" % (n, j))         # no revocation until the burst is half served
    cases.append("srv 2 c c l0 r b0:2 b1:2 l0 l1")
    cases.append("srv 2 c c c l0 l1 b0:3 r b1:2 l0 l1")
    cases.append("srv 1 c l0 p0 r b0:2 l0")                            # half a head, revoke, the rest + one more in one write
    # one open idle connection (or half a head) far below the limit: the signal must still come
    for n in (2, 3, 4):
        cases.append("srv %d c l0 r" % n)
        cases.append("srv %d c l0 p0 r" % n)
        cases.append("srv %d c l0 u0 r" % n)
    nmix = 40 if tier == "quick" else 1500
    for _ in range(nmix):
        n = rng.choice([1, 2, 3, 4])
        k = rng.randint(1, n + 1)
        cases.append(staged(n, [rng.choice(PHASES[:4]) for _ in range(k)], rng.choice([0, 1, 2])))
    # revocation at a random point of a random C12-style history
    import c12
    for _ in range(30 if tier == "quick" else 1500):
        full = rng.random() < 0.5
        base = c12.random_acc(rng, rng.choice([1, 2, 3]), full, rng.randint(2, 9))
        L = len(base.split()) - 2
        c = insert_revoke(base, rng.randint(0, L))
        if valid(c):
            cases.append(c)
    cases = [c for c in cases if valid(c)]
    os.environ["SV_TIMING_LOG"] = acc_gen.timing_log_path("C13")
    return list(dict.fromkeys(cases))


def nontrivial(case, model):
    t = case.split()
    if "r" not in t[2:]:
        return False
    pos = t[2:].index("r")
    return "c" in t[2:2 + pos]


def neighbours(case, rng):
    t = case.split()
    cmds = [c for c in t[2:] if c != "r"]
    for pos in range(len(cmds) + 1):
        c = " ".join(t[:2] + cmds[:pos] + ["r"] + cmds[pos:])
        if valid(c):
            yield c


def extra_evidence(results):
    inc, rep = 0, 0
    try:
        for l in open(acc_gen.timing_log_path("C13")):
            if l.startswith("inconclusive"):
                inc += 1
            elif l.startswith("reproduced-3x"):
                rep += 1
    except OSError:
        pass
    hits = {"revoke before any connection": 0, "revoke with all slots held": 0, "revoke with clients in the backlog": 0,
            "revoke while a handler runs": 0, "revoke with a partial head / upload": 0, "connect after stop": 0,
            "further request after revoke": 0, "pipelined burst after revoke": 0, "pipelined burst before revoke": 0}
    for (prof, c, i, m, v) in results:
        t = c.split()
        if "r" not in t[2:]:
            continue
        pos = t[2:].index("r")
        before, after = t[2:2 + pos], t[3 + pos:]
        n = int(t[1])
        if "c" not in before:
            hits["revoke before any connection"] += 1
        nconn = before.count("c") - sum(1 for x in before if x[0] == "e")
        if nconn >= n:
            hits["revoke with all slots held"] += 1
        if nconn > n:
            hits["revoke with clients in the backlog"] += 1
        if t[0] == "srv" and before.count("c") > sum(1 for x in before if x[0] in "le"):
            hits["revoke while a handler runs"] += 1
        if any(x[0] in "pu" for x in before):
            hits["revoke with a partial head / upload"] += 1
        if "c" in after:
            hits["connect after stop"] += 1
        if any(x[0] in "qb" for x in after):
            hits["further request after revoke"] += 1
        if any(x[0] == "b" for x in after):
            hits["pipelined burst after revoke"] += 1
        if any(x[0] == "b" for x in before):
            hits["pipelined burst before revoke"] += 1
    return dict(level_claimed="partial", timing_inconclusive=inc, timing_reproduced_3x=rep, boundary_hits=hits)
