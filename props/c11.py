"""C11 -- server-sent events: case generator and evidence rules."""
import itertools

RULE = ("'sse' cases: Response::event_stream(); the copy future (body.async_reader() -> copy_chunked_async -> recording writer) is "
        "polled by hand between sender steps. (1) every well-formed interleaving of {send a, send b on sender 0/1, clone 0, "
        "disconnect, drop, writer poll, client gone} up to the stated depth, exhaustively; (2) the content space of DESIGN Appendix A "
        "(empty, LF / CRLF / lone CR inside and at the ends, leading space / colon, non-ASCII, 65528 / 65529 encoded bytes, custom "
        "types); (3) queue lengths 49 / 50 / 51, send after disconnect, clone then drop the original, last sender dropped with a "
        "non-empty queue, client loss; (4) random longer mixes. Every case ends with: poll to quiescence, drop all senders, poll to "
        "the end. Non-trivial = at least one event block reaches the wire.")
ASSUMPTIONS = [
    "known finding D9: blocks lack the terminating blank line; every C11 clause other than 'the stream as sent dispatches' is "
    "checked on the de-chunked stream with the dispatch line supplied at chunk ends (each chunk is one block: proved)",
    "text is compared as UTF-8 bytes; the event-stream parser of Spec/Sse.v works on bytes (CR, LF, colon, space are ASCII and "
    "never occur inside a multi-byte sequence); BOM handling, `id`/`retry` fields and reconnection are outside the statement",
    "data containing CR is recovered newline-normalised (CRLF / CR become LF): inherent to the format, stated in c11_block_parses_back",
    "the channel of safina::sync is assumed linearizable; lost wake-ups when several senders drop concurrently are outside the model "
    "(the thorough tier's multi-threaded stress over loop-back observes order and counts, it proves nothing)",
    "known finding D17 (class kf_c11_oversize_event): an event whose encoding exceeds the 65528-byte read buffer makes "
    "Event::write_to fail with WriteZero; copy_chunked_async returns ReaderErr, the stream ends without terminating chunk and the "
    "event plus everything queued behind it is never delivered although the senders reported connected; the lossless clauses are "
    "proved for every history outside the class (c11_lossless_modulo_oversize) and refuted inside it "
    "(c11_oversize_event_lost_refuted; witness 'sse S0,m,R65522:61 S0,m,x62 W' in the corpus)",
    "one `W` step allows exactly one read of the EventReceiver (a harness-side wrapper returns Pending afterwards), i.e. the writer "
    "task is simply not scheduled further; the real server's writer interleaves with senders at the same granularity; `W<k>` allows up to k reads in one poll (a burst) and equals k writer polls of the model; a `w<k>` prefix makes the recording writer accept at most k bytes per call (short writes), which write_all must make invisible",
]
EXHAUSTIVE = {"quick": False, "thorough": False}
MARKED = True   # the stress scenario runs the full server, whose connection task prints to stdout

def hx(b):
    if isinstance(b, str):
        b = b.encode("utf-8")
    return "x" + b.hex()

EV_A = "m," + hx("a")
EV_B = "c," + hx("t") + "," + hx("l1\nl2")

CONTENTS = ["", "\n", "a\n", "a\rb", "a\r\nb", "\r", "\r\n", "\n\n", "a\n\nb", " lead", ":colon", "data: x", "event: evil",
            "x\revent: evil", "x\nevent: evil", "id: 7", "a\r", "\ra", "é€\U0001F600", "tab\there", "a" * 300,
            "l1\nl2\nl3", "\r\r", "\n\r", "\r\n\r\n", "a\n\r\nb\rc"]
TYPES = ["t", "", "a:b", " sp", "é", "message", "data"]


def interleavings(alphabet, depth):
    """all well-formed sequences of exactly `depth` steps (prefixes are covered by the per-step observations)"""
    out = []
    def rec(prefix, handles, nxt, d):
        if d == 0:
            out.append("sse " + " ".join(prefix))
            return
        for a in alphabet:
            k = a[0]
            if k in "SCDX":
                i = int(a[1:].split(",")[0])
                if i not in handles:
                    continue
            if k == "C":
                if nxt >= 3:
                    continue
                rec(prefix + [a], handles | {nxt}, nxt + 1, d - 1)
            elif k == "X":
                rec(prefix + [a], handles - {i}, nxt, d - 1)
            else:
                rec(prefix + [a], handles, nxt, d - 1)
    rec([], frozenset([0]), 1, depth)
    return out


def gen(rng, tier):
    cases = []
    full = ["S0," + EV_A, "S0," + EV_B, "S1," + EV_A, "C0", "D0", "D1", "X0", "X1", "W", "G"]
    small = ["S0," + EV_A, "S1," + EV_B, "C0", "D0", "X0", "W"]
    tiny = ["S0," + EV_A, "S1," + EV_B, "C0", "X0", "W"]
    if tier == "quick":
        cases += interleavings(full, 4)
        cases += interleavings(small, 6)
    else:
        cases += interleavings(full, 5)
        cases += interleavings(small, 7)
        cases += interleavings(tiny, 8)
    # content space
    for d in CONTENTS:
        cases.append("sse S0,m,%s W" % hx(d))
        cases.append("sse S0,c,%s,%s W S0,m,%s W" % (hx("t"), hx(d), hx("after")))
    for t in TYPES:
        cases.append("sse S0,c,%s,%s W" % (hx(t), hx("d1\nd2")))
    # near the 64 KiB read buffer: "data: " + n + "\n" = 65528 / 65529; multi-line and custom variants
    cases.append("sse S0,m,R65521:61 W S0,m,x62 W")
    cases.append("sse S0,m,R65522:61 S0,m,x62 W")
    cases.append("sse S0,m,R32000:61+x0a+R33513:62 W")        # 6+32000+1 + 6+33513+1 = 65527
    cases.append("sse S0,m,R32000:61+x0a+R33514:62 W")        # 65528
    cases.append("sse S0,m,R32000:61+x0a+R33515:62 W S0,m,x63 W")   # 65529: too big
    cases.append("sse S0,c,x74,R65512:61 W")                  # 9 + 65519 = 65528
    cases.append("sse S0,c,x74,R65513:61 W")                  # 65529
    cases.append("sse S0,m,R21000:c3a9 W")                    # non-ASCII, 42007 bytes
    # CRLF line ends inside the data count as ONE terminator each: events that fit exactly / by one byte although an
    # estimate that counts CR and LF separately would not
    cases.append("sse S0,m,R8190:610d0a+x61 W S0,m,x62 W")                        # 8191 lines of 'a': 8 * 8191 = 65528
    cases.append("sse S0,m,R8189:610d0a+x61 W S0,m,x62 W")                        # 65520
    cases.append("sse S0,m,R32000:61+x0d0a+R33500:62+x0d0a+R7:63 W S0,m,x64 W")   # 3 lines, 65528
    cases.append("sse S0,m,R32000:61+x0d0a+R33500:62+x0d0a+R6:63 W S0,m,x64 W")   # 65527
    cases.append("sse S0,c,x74,R32000:61+x0d0a+R33491:62 W S0,m,x64 W")           # custom type: 9 + 32007 + 33498 = 65514
    cases.append("sse S0,m,R400:610d+R400:0a61 W")                               # lone CRs and LFs, no CRLF pair
    # the writer task is scheduled once while several events are queued (W<k> = up to k reads in one poll): events that
    # together exceed the 65528-byte read buffer, small bursts, bursts ending in the last sender's drop
    cases.append("sse S0,m,R40000:61 S0,m,R40000:62 W2 S0,m,x63 W")
    cases.append("sse S0,m,R65000:61 S0,m,R600:62 S0,m,x63 W3")
    cases.append("sse S0,m,R30000:61 S0,m,R30000:62 S0,m,R30000:63 W5")
    cases.append("sse S0,%s S0,%s S0,%s W3 S0,%s X0 W4" % (EV_A, EV_B, EV_A, EV_B))
    cases.append("sse S0,%s S0,%s W9" % (EV_A, EV_B))
    cases.append("sse C0 S0,%s S1,%s X0 X1 W9" % (EV_A, EV_B))
    for k in (2, 3, 7, 50):
        cases.append("sse " + " ".join(["S0,m," + hx("e%d" % i) for i in range(k)]) + " W%d" % k)
    # short writes: the writer accepts at most k bytes per call (w<k> prefix)
    for wk in (1, 2, 5, 7, 4096):
        cases.append("sse w%d S0,%s W S0,%s S0,%s W W" % (wk, EV_A, EV_B, EV_A))
        cases.append("sse w%d S0,m,R3000:61+x0a+R3000:62 W S0,m,x63 W X0 W" % wk)
        cases.append("sse w%d S0,%s S0,%s S0,%s W3 X0 W" % (wk, EV_A, EV_B, EV_A))
    cases.append("sse w60000 S0,m,R65521:61 W S0,m,x62 W")
    # encoded lengths at the boundaries of the chunk-size line (one more hex digit, a digit that is 0): an event's
    # content must never produce a size line that reads as the terminating chunk
    for L in (15, 16, 17, 255, 256, 257, 4095, 4096, 4097, 0x1001, 0x2000, 0x10ff, 0xf000, 0xff00, 0xfff0, 65527, 65528):
        cases.append("sse S0,m,R%d:61 W S0,m,x62 W" % (L - 7))
        cases.append("sse S0,m,x63 S0,m,R%d:61 S0,m,x62 W3" % (L - 7))
    # queue boundaries
    for k in (49, 50, 51, 52):
        cases.append("sse " + " ".join(["S0," + EV_A] * k))
        cases.append("sse " + " ".join(["S0," + EV_A] * k) + " W S0," + EV_B + " W")
        cases.append("sse C0 " + " ".join(["S0," + EV_A] * k) + " S1," + EV_B)
    cases.append("sse " + " ".join(["S0," + EV_A] * 50) + " W S0," + EV_A + " S0," + EV_A)
    # named histories of Appendix A
    cases.append("sse D0 S0,%s W" % EV_A)                              # send after disconnect
    cases.append("sse C0 X0 S1,%s W" % EV_A)                           # clone then drop the original
    cases.append("sse S0,%s S0,%s X0 W W W" % (EV_A, EV_B))            # last sender dropped with a non-empty queue
    cases.append("sse S0,%s G S0,%s W S0,%s" % (EV_A, EV_B, EV_A))     # client gone: next write fails, sender learns at next send
    cases.append("sse G W S0,%s W" % EV_A)
    cases.append("sse C0 C1 D0 D1 D2 W S0,%s" % EV_A)
    # Event::custom
    for t in ["t", "", "a\nb", "a\rb", "\n", "\r", "a:b", "é"]:
        cases.append("custom %s" % hx(t))
    # random longer mixes with random contents
    n = 1500 if tier == "quick" else 60000
    pieces = ["a", "b", "\n", "\r", "\r\n", " ", ":", "data: ", "event: x", "é", ""]
    for _ in range(n):
        handles, nxt, steps = {0}, 1, []
        for _ in range(rng.randint(3, 14)):
            r = rng.random()
            hs = sorted(handles)
            if r < 0.45 and hs:
                d = "".join(rng.choice(pieces) for _ in range(rng.randint(0, 5)))
                i = rng.choice(hs)
                if rng.random() < 0.3:
                    steps.append("S%d,c,%s,%s" % (i, hx(rng.choice(TYPES)), hx(d)))
                else:
                    steps.append("S%d,m,%s" % (i, hx(d)))
            elif r < 0.55 and hs and nxt < 5:
                steps.append("C%d" % rng.choice(hs)); handles.add(nxt); nxt += 1
            elif r < 0.63 and hs:
                steps.append("D%d" % rng.choice(hs))
            elif r < 0.71 and hs:
                i = rng.choice(hs); steps.append("X%d" % i); handles.discard(i)
            elif r < 0.97:
                steps.append("W" if rng.random() < 0.7 else "W%d" % rng.randint(2, 6))
            else:
                steps.append("G")
        if rng.random() < 0.25:
            steps.insert(0, "w%d" % rng.choice([1, 2, 3, 5, 11, 64]))
        cases.append("sse " + " ".join(steps))
    # a full server over loop-back, sender threads; with h the client closes its sending side after the request and keeps
    # reading: the stream must go on while a sender is connected
    cases += ["stress 2 40", "stress 2 40 h", "stress 1 30 h", "stress 2 40 r", "stress 1 30 r"]
    # the body converted to bytes while a sender (a clone) is still connected and sends later
    # (at most three short events are in the queue at any time: the conversion reads through read_to_end, whose probing
    # reads offer as little as 32 bytes, and an event that does not fit the offered buffer fails the whole conversion with
    # WriteZero on the unchanged tree -- observed with "conv 1 5"; that is a limitation of this side API, outside the
    # statement of C11, which is about delivery to the client; see DESIGN.md section 10)
    cases += ["conv 0 0", "conv 3 0", "conv 2 2", "conv 0 3", "conv 1 2"]
    if tier == "thorough":
        for nt in (1, 2, 3, 4):
            for _ in range(3):
                cases.append("stress %d 200" % nt)
                cases.append("stress %d 200 h" % nt)
                cases.append("stress %d 200 r" % nt)
    return cases


def classify(case, model):
    t = case.split()
    if t[0] != "sse":
        return t[0]
    kinds = "".join(sorted(set(x[0] for x in t[1:])))
    big = any("R" in x for x in t[1:])
    return "sse:len<=%d:%s%s" % (4 if len(t) <= 5 else 8 if len(t) <= 9 else 99, kinds, ":big" if big else "")


def nontrivial(case, model):
    return "x" in model.split(";")[0].replace(",x", ",") or any(o.startswith("x") and len(o) > 12 for o in model.replace(";", " ").split())


def shrink(case):
    t = case.split()
    if t[0] != "sse":
        return
    steps = t[1:]
    for j in range(len(steps)):
        rest = steps[:j] + steps[j + 1:]
        if rest:
            yield "sse " + " ".join(rest)
    # shorten contents
    for j, s in enumerate(steps):
        if s[0] == "S":
            parts = s.split(",")
            d = parts[-1]
            if d.startswith("x") and len(d) > 3:
                for cut in (d[:1 + 2 * ((len(d) - 1) // 4)], d[:-2]):
                    try:
                        bytes.fromhex(cut[1:]).decode("utf-8")
                    except Exception:
                        continue
                    yield "sse " + " ".join(steps[:j] + [",".join(parts[:-1] + [cut])] + steps[j + 1:])


def neighbours(case, rng):
    return []


def extra_evidence(results):
    hits = {"queue 49": 0, "queue 50": 0, "queue 51": 0, "send after disconnect": 0, "clone then drop original": 0,
            "data empty": 0, "data with lone CR": 0, "data with CRLF": 0, "data ending in LF": 0, "leading space/colon": 0,
            "non-ASCII": 0, "65528 encoded bytes": 0, "65529 encoded bytes (D17)": 0, "client gone": 0}
    for (prof, c, i, m, v) in results:
        t = c.split()
        if t[0] != "sse":
            continue
        sends = [x for x in t[1:] if x[0] == "S"]
        run = 0
        mx = 0
        for x in t[1:]:
            if x[0] == "S":
                run += 1; mx = max(mx, run)
            elif x == "W":
                run = max(0, run - 1)
        for k in (49, 50, 51):
            if mx == k:
                hits["queue %d" % k] += 1
        if "D0" in t and any(x.startswith("S0") for x in t[t.index("D0"):]):
            hits["send after disconnect"] += 1
        if "C0" in t and "X0" in t:
            hits["clone then drop original"] += 1
        if "G" in t:
            hits["client gone"] += 1
        for s in sends:
            d = s.split(",")[-1]
            if d == "x":
                hits["data empty"] += 1
            if d.startswith("x"):
                b = bytes.fromhex(d[1:]) if "+" not in d and "R" not in d else b""
                if b"\r\n" in b:
                    hits["data with CRLF"] += 1
                if b"\r" in b.replace(b"\r\n", b""):
                    hits["data with lone CR"] += 1
                if b.endswith(b"\n"):
                    hits["data ending in LF"] += 1
                if b[:1] in (b" ", b":"):
                    hits["leading space/colon"] += 1
                if any(x >= 0x80 for x in b):
                    hits["non-ASCII"] += 1
        if "R65521:61" in c or "R33514:62" in c or "R65512:61" in c:
            hits["65528 encoded bytes"] += 1
        if "R65522:61" in c or "R33515:62" in c or "R65513:61" in c:
            hits["65529 encoded bytes (D17)"] += 1
    return dict(boundary_hits=hits, known_findings=["D9 (kf_c11_missing_blank_line)", "D17 (kf_c11_oversize_event)"])
