#!/usr/bin/env python3
"""vlib.py -- generic machinery of the servlin verification checks.

One check run (see DESIGN.md section 2.1):
  1. proof step      : build the Coq cone of Properties/<ID>.v, audit Print Assumptions / forbidden words
  2. implementation  : cargo build of the harness binary against the CURRENT working tree of the repo
  3. cases           : corpus first, then the seeded generator of props/<id>.py
  4. run both sides  : harness (real code) and extracted-model driver on the same cases
  5. compare         : correspondence (impl obs == model obs) and the property oracle on the impl obs
  6. verdict         : VIOLATION lines / KNOWN-FINDING lines / exit code
  7. evidence        : evidence/<ID>.json
"""
import hashlib
import importlib
import json
import os
import random
import re
import subprocess
import sys
import time

ROOT = os.path.dirname(os.path.abspath(__file__))
OCAML = os.path.join(ROOT, "ocaml")
HARNESS = os.path.join(ROOT, "harness")
REPO = os.environ.get("VERIF_REPO", "/repo")
if REPO == "/repo":
    COQ = os.path.join(ROOT, "coq")
    BUILD = os.path.join(OCAML, "build")
else:
    # A run against another source tree (seeded changes, the pre-fix snapshot) regenerates the files under
    # coq/theories/Generated from THAT tree: it works on a private copy of the Coq development (compiled files
    # included, so only what depends on a regenerated file is rebuilt) and its own driver build directory.
    _tag = hashlib.sha256(REPO.encode()).hexdigest()[:10]
    COQ = os.path.join("/tmp", "svcoq-" + _tag, "coq")
    BUILD = os.path.join("/tmp", "svcoq-" + _tag, "ocaml-build")
    os.makedirs(COQ, exist_ok=True)
    subprocess.run(["rsync", "-a", "--delete", "--exclude", ".lock", "--exclude", "theories/Generated/*",
                    os.path.join(ROOT, "coq") + "/", COQ + "/"], check=True)
    for _f in os.listdir(os.path.join(ROOT, "coq", "theories", "Generated")):
        # generated sources are taken over only when absent (they are rewritten from the other tree before every proof step)
        _dst = os.path.join(COQ, "theories", "Generated", _f)
        _src = os.path.join(ROOT, "coq", "theories", "Generated", _f)
        if not os.path.exists(_dst):
            os.makedirs(os.path.dirname(_dst), exist_ok=True)
            subprocess.run(["cp", "-p", _src, _dst], check=True)
        elif _f.endswith(".v") and open(_dst, "rb").read() != open(_src, "rb").read():
            os.utime(_dst)      # differs from what the copied .vo files were compiled from: force the rebuild
        elif not _f.endswith(".v"):
            subprocess.run(["cp", "-p", _src, _dst], check=True)
GUARD_CFG = "servlin_verif"

# which parts of the source (as named in the problem texts of props/srcparams.py) each property's model depends on
SRC_DEPS = {
    "C01": ["src/head.rs"], "C02": ["src/head.rs: cannot translate the regex", "src/head.rs try_read"],
    "C03": ["src/content_type.rs", "src/request.rs", "src/headers.rs", "src/head.rs try_read"],
    "C04": ["src/util.rs", "src/http_conn.rs", "src/lib.rs spawn"], "C05": ["src/util.rs", "src/http_conn.rs HttpConn.buf", "src/http_conn.rs state guards", "src/http_conn.rs write_response", "src/http_conn.rs read_body"],
    "C06": ["src/util.rs", "src/content_type.rs", "src/response.rs write_http_response"], "C07": ["src/util.rs", "src/response.rs write_http_response"], "C08": ["src/util.rs", "src/http_conn.rs write_response", "src/http_conn.rs handle_http_conn", "src/response.rs write_http_response"],
    "C09": ["src/util.rs", "src/http_conn.rs"], "C10": ["src/util.rs", "src/http_conn.rs"],
    "C11": ["src/util.rs", "src/response.rs event_stream", "src/event.rs"],
    "C15": ["src/cookie.rs", "src/headers.rs"], "C16": ["src/time.rs"], "C18": ["src/log/logger.rs log()"],
    "C17": ["src/log/tag_value.rs", "src/log/logger.rs write_jsonl"], "C19": ["src/log/log_file_writer.rs", "src/log/prefix_file_set.rs"],
    "C14": ["src/headers.rs"], "C12": ["src/token_set.rs", "src/accept.rs accept_loop", "src/lib.rs spawn"], "C13": ["src/accept.rs accept_loop", "src/token_set.rs", "src/lib.rs spawn"],
}

ALLOWED_AXIOMS = set()  # names of standard-library axioms a property theorem may depend on (none needed so far)

FORBIDDEN = re.compile(
    r"\b(Admitted|admit|Axiom|Axioms|Parameter|Parameters|Conjecture|Conjectures|Admit Obligations|"
    r"Unset Guard Checking|Unset Positivity Checking|Unset Universe Checking|bypass_check|"
    r"type-in-type|impredicative-set)\b"
)

TRUSTED_BASE = [
    "Coq 8.16.1 kernel (coqc, full .vo builds; vm_compute used in proofs; no native_compute)",
    "axioms: none (every property theorem is 'Closed under the global context'; audited on every run)",
    "extraction: ExtrOcamlBasic only (bool, option, unit, list, prod, sumbool, sumor mapped to OCaml; nat/N/Z/positive stay inductives); OCaml 4.13.1",
    "hand-written OCaml drivers (ocaml/common.ml, ocaml/drv_*.ml): parsing and printing of case/observation lines only",
    "Rust harness (harness/src/bin/*.rs) driving the real servlin API, and the Python orchestrator/generators",
    "the correspondence model = implementation is sampled (exhaustive only where the evidence says so)",
    "modelled, not verified: crates url, safe-regex, fixed-buffer, futures-lite, safina, async-net, async-fs, permit, temp-file; Rust std; the OS",
]


def sh(cmd, cwd=None, timeout=1800, env=None, inp=None):
    e = dict(os.environ)
    e["CARGO_NET_OFFLINE"] = "true"
    if env:
        e.update(env)
    p = subprocess.run(cmd, cwd=cwd, shell=isinstance(cmd, str), stdout=subprocess.PIPE, stderr=subprocess.STDOUT,
                       timeout=timeout, env=e, input=inp)
    return p.returncode, p.stdout.decode("utf-8", "replace")


# ------------------------------------------------------------------------------------------------ coq

def coq_files():
    out = []
    for d, _, fs in os.walk(os.path.join(COQ, "theories")):
        for f in fs:
            if f.endswith(".v"):
                out.append(os.path.relpath(os.path.join(d, f), COQ))
    return sorted(out)


class coq_lock:
    """Serialises everything that writes under coq/ (several checks may run concurrently)."""
    def __enter__(self):
        import fcntl
        self.f = open(os.path.join(COQ, ".lock"), "w")
        fcntl.flock(self.f, fcntl.LOCK_EX)
    def __exit__(self, *a):
        import fcntl
        fcntl.flock(self.f, fcntl.LOCK_UN)
        self.f.close()


def ensure_makefile():
    files = coq_files()
    stamp = os.path.join(COQ, ".files.stamp")
    cur = "\n".join(files)
    old = open(stamp).read() if os.path.exists(stamp) else None
    if old != cur or not os.path.exists(os.path.join(COQ, "Makefile")):
        rc, out = sh(["coq_makefile", "-f", "_CoqProject", "-o", "Makefile"] + files, cwd=COQ)
        if rc != 0:
            raise RuntimeError("coq_makefile failed: " + out)
        open(stamp, "w").write(cur)


def forbidden_scan():
    """Scan the whole development (comments stripped) for forbidden vernacular."""
    hits = []
    for rel in coq_files() + [os.path.join("extract", f) for f in sorted(os.listdir(os.path.join(COQ, "extract"))) if f.endswith(".v")]:
        src = open(os.path.join(COQ, rel)).read()
        # strip (possibly nested) comments
        res, depth, i = [], 0, 0
        while i < len(src):
            if src.startswith("(*", i):
                depth += 1
                i += 2
            elif src.startswith("*)", i) and depth > 0:
                depth -= 1
                i += 2
            else:
                if depth == 0:
                    res.append(src[i])
                i += 1
        body = "".join(res)
        for m in FORBIDDEN.finditer(body):
            hits.append("%s: %s" % (rel, m.group(0)))
        # Variable / Hypothesis outside a section
        depth = 0
        for line in body.splitlines():
            s = line.strip()
            if re.match(r"Section\b", s):
                depth += 1
            elif re.match(r"End\b", s) and depth > 0:
                depth -= 1
            elif depth == 0 and re.match(r"(Variable|Variables|Hypothesis|Hypotheses|Context)\b", s):
                hits.append("%s: top-level %s" % (rel, s.split()[0]))
    return hits


def proof_step(pid, thorough=False):
    """Returns dict(ok, obligations, discharged, theorems, problems, log, checker_cmd)."""
    return _proof_step(pid, thorough)


def _proof_step(pid, thorough):
    prop_rel = "theories/Properties/%s.v" % pid
    prop_src = open(os.path.join(COQ, prop_rel)).read()
    theorems = re.findall(r"^\s*Theorem\s+([A-Za-z0-9_']+)", prop_src, re.M)
    problems = []
    vo = prop_rel[:-2] + ".vo"
    checker_cmd = "make -C coq %s && coqc -Q theories SV %s (Print Assumptions audit)%s" % (
        vo, prop_rel, " && coqchk -o -silent SV.Properties.%s" % pid if thorough else "")
    t0 = time.time()
    with coq_lock():      # only the build writes under coq/; the audit below works on private copies
        ensure_makefile()
        rc, out = sh(["make", "-j8", vo], cwd=COQ, timeout=3000)
    log = out[-4000:]
    discharged = 0
    if rc != 0:
        problems.append("coq build failed for %s" % vo)
        m = re.search(r'File "\./%s", line (\d+)' % re.escape(prop_rel), out)
        if m:
            bad = int(m.group(1))
            upto = "\n".join(prop_src.splitlines()[: bad - 1])
            discharged = len(re.findall(r"^\s*Theorem\s+", upto, re.M)) - 1
            discharged = max(discharged, 0)
    else:
        # re-run coqc on the property file to obtain the Print Assumptions output of THIS run
        import tempfile, shutil
        tmpd = tempfile.mkdtemp(prefix="sv-audit-")
        rc2, out2 = sh(["coqc", "-Q", "theories", "SV", "-o", os.path.join(tmpd, "%s.vo" % pid), prop_rel], cwd=COQ, timeout=1200)
        shutil.rmtree(tmpd, ignore_errors=True)
        log = out2[-4000:]
        if rc2 != 0:
            problems.append("coqc failed on %s" % prop_rel)
        else:
            n_pa = len(re.findall(r"^\s*Print Assumptions\s+", prop_src, re.M))
            closed = out2.count("Closed under the global context")
            blocks = re.split(r"(?=Axioms:)", out2)
            bad_axioms = []
            for b in blocks:
                if b.startswith("Axioms:"):
                    body = b.split("Closed under")[0]
                    for m in re.finditer(r"^([A-Za-z_][A-Za-z0-9_.']*)\s*:", body[len("Axioms:"):], re.M):
                        if m.group(1) not in ALLOWED_AXIOMS:
                            bad_axioms.append(m.group(1))
            n_ax_blocks = out2.count("Axioms:")
            if bad_axioms:
                problems.append("axioms outside the allow-list: %s" % sorted(set(bad_axioms)))
            if closed + n_ax_blocks < n_pa or n_pa < len(theorems):
                problems.append("Print Assumptions audit incomplete: %d theorems, %d Print Assumptions, %d reports" % (
                    len(theorems), n_pa, closed + n_ax_blocks))
            if not bad_axioms:
                discharged = len(theorems)
    hits = forbidden_scan()
    if hits:
        problems.append("forbidden vernacular: %s" % hits[:5])
        discharged = 0
    if thorough and not problems:
        rc3, out3 = sh(["coqchk", "-o", "-silent", "-Q", "theories", "SV", "SV.Properties.%s" % pid], cwd=COQ, timeout=3000)
        log += "\n--- coqchk ---\n" + out3[-3000:]
        if rc3 != 0:
            problems.append("coqchk failed")
            discharged = 0
        else:
            m = re.search(r"\* Axioms:\s*(.*?)(?:\n\s*\*|\Z)", out3, re.S)
            axs = m.group(1).strip() if m else ""
            if axs and "<none>" not in axs:
                names = [a.strip() for a in axs.splitlines() if a.strip()]
                badc = [a for a in names if a.split()[0] not in ALLOWED_AXIOMS]
                if badc:
                    problems.append("coqchk reports axioms: %s" % badc[:5])
    return dict(ok=not problems, obligations=len(theorems), discharged=discharged, theorems=theorems,
                problems=problems, log=log, checker_cmd=checker_cmd, wall=time.time() - t0)


# ------------------------------------------------------------------------------------------------ builds

def build_driver(pid):
    """Extract the model with Coq and compile the OCaml driver. Returns path of the executable."""
    os.makedirs(BUILD, exist_ok=True)
    low = pid.lower()
    ext = os.path.join(COQ, "extract", "Extract%s.v" % pid)
    # the extraction file depends only on Model/ (and Spec/) files; make sure they are compiled
    deps = re.findall(r"^\s*From SV Require(?: Import)? (.*?)\.\s*$", open(ext).read(), re.M)
    targets = []
    for d in deps:
        for mod in d.split():
            targets.append("theories/" + mod.replace(".", "/") + ".vo")
    with coq_lock():
        ensure_makefile()
        rc, out = sh(["make", "-j8"] + targets, cwd=COQ, timeout=3000)
    if rc != 0:
        raise RuntimeError("model build failed:\n" + out[-3000:])
    gen_dir = os.path.join(COQ, "theories", "Generated")
    srcs = [ext, os.path.join(OCAML, "common.ml"), os.path.join(OCAML, "drv_%s.ml" % low)] + \
           [os.path.join(COQ, t[:-1]) for t in targets] + \
           [os.path.join(gen_dir, g) for g in sorted(os.listdir(gen_dir)) if g.endswith(".v")]   # the models read them
    exe = os.path.join(BUILD, "drv_%s" % low)
    h = hashlib.sha256()
    for s in srcs:
        h.update(open(s, "rb").read())
    stamp = exe + ".stamp"
    if os.path.exists(exe) and os.path.exists(stamp) and open(stamp).read() == h.hexdigest():
        return exe
    wd = os.path.join(BUILD, low)
    os.makedirs(wd, exist_ok=True)
    rc, out = sh(["coqc", "-Q", os.path.join(COQ, "theories"), "SV", ext], cwd=wd, timeout=1200)
    if rc != 0:
        raise RuntimeError("extraction failed:\n" + out[-3000:])
    with open(os.path.join(wd, "all.ml"), "w") as f:
        for p in [os.path.join(wd, "%s_model.ml" % low), os.path.join(OCAML, "common.ml"), os.path.join(OCAML, "drv_%s.ml" % low)]:
            f.write(open(p).read())
            f.write("\n")
    rc, out = sh(["ocamlfind", "ocamlopt", "-w", "-a", "-o", exe, "all.ml"], cwd=wd, timeout=1200)
    if rc != 0:
        raise RuntimeError("driver build failed:\n" + out[-3000:])
    open(stamp, "w").write(h.hexdigest())
    return exe


def harness_dir():
    """The harness crate builds against REPO; a non-default repo gets its own manifest + target dir."""
    if REPO == "/repo":
        d = HARNESS
        tgt = os.path.join(HARNESS, "target")
    else:
        tag = hashlib.sha256(REPO.encode()).hexdigest()[:10]
        d = os.path.join("/tmp", "svharness-" + tag)
        tgt = os.path.join(d, "target")
        os.makedirs(d, exist_ok=True)
        if not os.path.islink(os.path.join(d, "src")):
            if os.path.exists(os.path.join(d, "src")):
                os.remove(os.path.join(d, "src"))
            os.symlink(os.path.join(HARNESS, "src"), os.path.join(d, "src"))
    man = open(os.path.join(HARNESS, "Cargo.toml.in")).read().replace("@REPO@", REPO)
    mp = os.path.join(d, "Cargo.toml")
    if not os.path.exists(mp) or open(mp).read() != man:
        open(mp, "w").write(man)
    lock = os.path.join(d, "Cargo.lock")
    if not os.path.exists(lock):
        src = os.path.join(HARNESS, "Cargo.lock")
        if not os.path.exists(src):
            src = os.path.join(REPO, "Cargo.lock")
        open(lock, "wb").write(open(src, "rb").read())
    os.makedirs(os.path.join(d, ".cargo"), exist_ok=True)
    open(os.path.join(d, ".cargo", "config.toml"), "w").write("[net]\noffline = true\n")
    return d, tgt


def build_harness(binname, profile="release"):
    d, tgt = harness_dir()
    cmd = ["cargo", "build", "--offline", "--bin", binname]
    if profile == "release":
        cmd.append("--release")
    env = {"RUSTFLAGS": "--cfg %s" % GUARD_CFG, "CARGO_TARGET_DIR": tgt}
    rc, out = sh(cmd, cwd=d, timeout=3000, env=env)
    if rc != 0:
        raise RuntimeError("harness build failed (the repository no longer compiles against the harness?):\n" + out[-4000:])
    return os.path.join(tgt, "release" if profile == "release" else "debug", binname)


# ------------------------------------------------------------------------------------------------ running

def _big_stack():
    import resource
    try:
        resource.setrlimit(resource.RLIMIT_STACK, (resource.RLIM_INFINITY, resource.RLIM_INFINITY))
    except Exception:
        pass


def run_side(exe, args, cases_path, out_path, timeout=3000, stdin_cases=True):
    with open(out_path, "wb") as fo:
        if stdin_cases:
            with open(cases_path, "rb") as fi:
                p = subprocess.run([exe] + args, stdin=fi, stdout=fo, stderr=subprocess.PIPE, timeout=timeout, preexec_fn=_big_stack)
        else:
            p = subprocess.run([exe] + args, stdout=fo, stderr=subprocess.PIPE, timeout=timeout, preexec_fn=_big_stack)
    if p.returncode != 0:
        raise RuntimeError("%s failed rc=%d: %s" % (exe, p.returncode, p.stderr.decode("utf-8", "replace")[-2000:]))


DEGRADED = []


class HarnessBroken(Exception):
    pass


class CorrBroken(Exception):
    """The implementation side could not be observed on some cases (it died, hung or garbled its output)."""
    def __init__(self, msg, cases):
        Exception.__init__(self, msg)
        self.cases = cases


def isolate_breaking_case(pid, mod, cases, rundir, profile, budget_s=240):
    """Bisects a case list on which the implementation side fails down to a single case (or None)."""
    t_end = time.time() + budget_s
    old = os.environ.get("VERIF_HARNESS_TIMEOUT_S")
    os.environ["VERIF_HARNESS_TIMEOUT_S"] = "60"
    def bad(cs):
        try:
            run_both(pid, mod, cs, rundir, tag="isolate", profile=profile)
            return False
        except CorrBroken:
            return True
        except Exception:
            return False
    try:
        cur = list(cases)
        if not cur or not bad(cur):
            return None
        while len(cur) > 1 and time.time() < t_end:
            half = len(cur) // 2
            a, b = cur[:half], cur[half:]
            if bad(a):
                cur = a
            elif bad(b):
                cur = b
            else:
                return None      # needs an interaction of cases: not isolated
        return cur[0] if len(cur) == 1 else None
    finally:
        if old is None:
            os.environ.pop("VERIF_HARNESS_TIMEOUT_S", None)
        else:
            os.environ["VERIF_HARNESS_TIMEOUT_S"] = old


def run_both(pid, mod, cases, rundir, tag="main", profile="release"):
    """Returns list of (case, impl_line, model_obs, verdict)."""
    low = pid.lower()
    os.makedirs(rundir, exist_ok=True)
    cp = os.path.join(rundir, "cases-%s.txt" % tag)
    ip = os.path.join(rundir, "impl-%s.txt" % tag)
    mp = os.path.join(rundir, "model-%s.txt" % tag)
    pre = list(getattr(mod, "PREAMBLE", [])) if tag != "main-release" and tag != "main-debug" else []
    cases = pre + list(cases)
    with open(cp, "w") as f:
        for c in cases:
            f.write(c + "\n")
    try:
        hexe = build_harness(getattr(mod, "HARNESS_BIN", low), profile)
    except RuntimeError as e:
        # The repository no longer compiles against the harness (an internal API changed).  The
        # correspondence cannot be checked in full: remember that, and fall back to the part of the
        # harness that uses the public API only, when the property module names one.
        DEGRADED.append(str(e)[-1500:])
        fb = getattr(mod, "FALLBACK_BIN", None)
        if fb is None:
            raise HarnessBroken(str(e))
        try:
            hexe = build_harness(fb, profile)
        except RuntimeError as e2:
            raise HarnessBroken(str(e2))
        keep = getattr(mod, "fallback_supports", lambda c: True)
        cases = [c for c in cases if keep(c)]
        with open(cp, "w") as f:
            for c in cases:
                f.write(c + "\n")
    dexe = build_driver(getattr(mod, "DRIVER_PID", pid))
    try:
        # a harness run that takes far longer than the tier ever needs is a hang of the code under test: reported as
        # a broken tie (and bisected to the case), not waited for
        tier_now = os.environ.get("VERIF_TIER_CURRENT", "quick")
        dflt = getattr(mod, "HARNESS_TIMEOUT_S", {}).get(tier_now, 600 if tier_now == "quick" else 3000)
        run_side(hexe, getattr(mod, "HARNESS_ARGS", []), cp, ip, timeout=int(os.environ.get("VERIF_HARNESS_TIMEOUT_S", str(dflt))))
    except (RuntimeError, subprocess.TimeoutExpired) as e:
        # the implementation side died or hung on these cases (abort, dead-lock, ...): the tie no longer checks
        raise CorrBroken("the harness run against the implementation failed: %s" % str(e)[-1500:], cases[len(pre):])
    impl = open(ip, errors="replace").read().split("\n")
    if any(l.startswith("@@") for l in impl):
        # the code under test printed to stdout as well: keep only the marked observation lines
        impl = [l[2:] for l in impl if l.startswith("@@")]
        with open(ip, "w") as f:
            f.write("\n".join(impl) + "\n")
    if impl and impl[-1] == "":
        impl.pop()
    if len(impl) != len(cases):
        raise CorrBroken("the implementation side printed %d observation lines for %d cases (the code under test wrote to "
                         "stdout, or a case killed the harness)" % (len(impl), len(cases)), cases[len(pre):])
    run_side(dexe, [cp, ip], cp, mp, stdin_cases=False, timeout=int(os.environ.get("VERIF_DRIVER_TIMEOUT_S", "1500")))
    model = open(mp).read().split("\n")
    if model and model[-1] == "":
        model.pop()
    if len(model) != len(cases):
        raise RuntimeError("line count mismatch: %d cases, %d impl, %d model" % (len(cases), len(impl), len(model)))
    res = []
    for c, i, m in list(zip(cases, impl, model))[len(pre):]:
        if "|" in m:
            mo, ver = m.rsplit("|", 1)
        else:
            mo, ver = m, "oracle=missing"
        res.append((c, i.strip(), mo.strip(), ver.strip()))
    return res


def load_known():
    p = os.path.join(ROOT, "known_findings.json")
    if not os.path.exists(p):
        return []
    return json.load(open(p)).get("entries", [])


def corpus_cases(pid):
    p = os.path.join(ROOT, "corpus", "%s.txt" % pid)
    if not os.path.exists(p):
        return []
    return [l.rstrip("\n") for l in open(p) if l.strip() and not l.startswith("#")]


def oracle_ok(ver):
    # verdict syntax: "oracle=ok" | "oracle=ok kf=<id>" | "oracle=fail@<what>" | "oracle=fail@<what> kf=<id>"
    return ver.split()[0] == "oracle=ok"


def known_id(ver):
    for t in ver.split():
        if t.startswith("kf="):
            return t[3:]
    return None


def shrink_case(pid, mod, case, rundir, failing):
    """Greedy shrinking with the property module's candidate generator; `failing(result)` says whether
    a result tuple still exhibits the failure."""
    cand_fn = getattr(mod, "shrink", None)
    if cand_fn is None:
        return case
    cur = case
    t_end = time.time() + float(os.environ.get("VERIF_SHRINK_BUDGET_S", "90"))
    for _round in range(40):
        if time.time() > t_end:
            break
        cands, total = [], 0
        try:
            for c in cand_fn(cur):
                if c == cur:
                    continue
                cands.append(c)
                total += len(c)
                if len(cands) >= 400 or total > 600000:
                    break
        except Exception:   # noqa -- a candidate generator that does not know this kind of case: report it unshrunk
            cands = []
        if not cands:
            break
        try:
            res = run_both(pid, mod, cands, rundir, tag="shrink")
        except Exception:   # noqa -- a malformed candidate must not turn a finding into a crash of the check
            break
        nxt = None
        for r in res:
            if failing(r):
                nxt = r[0]
                break
        if nxt is None:
            break
        cur = nxt
    return cur


def confirm_failure(pid, mod, case, rundir, prof, failing, tries=3):
    """Re-runs a (shrunk) failing case: returns the first result tuple on which `failing` still holds, or None when
    the failure did not show again in `tries` runs (a timing artefact of a runtime scenario: reported in the evidence
    as unreproduced, never as a violation -- DESIGN.md section 7)."""
    for _ in range(tries):
        rr = run_both(pid, mod, [case], rundir, tag="final", profile=prof)[0]
        if failing(rr):
            return rr
    return None


def confirm_with_history(pid, mod, all_cases, case, rundir, prof, failing):
    """A failure that does not show on the case alone may depend on what the implementation did BEFORE it in the same
    process (state carried from call to call: a cache, a reused buffer, a thread-local).  Re-runs the case behind the
    cases that preceded it in the main run -- the last 1, 2, 4, ... of them -- and, when the failure shows again,
    halves that history while it still does.  Returns (history, result) or None."""
    try:
        idx = all_cases.index(case)
    except ValueError:
        return None
    prefix = all_cases[:idx]
    if not prefix:
        return None
    k, best = 1, None
    while True:
        hist = prefix[max(0, len(prefix) - k):]
        rr = run_both(pid, mod, hist + [case], rundir, tag="final", profile=prof)[-1]
        if failing(rr):
            best = (hist, rr)
            break
        if k >= len(prefix):
            break
        k *= 2
    if best is None:
        return None
    hist, rr = best
    while len(hist) > 1:
        half = hist[len(hist) // 2:]
        r2 = run_both(pid, mod, half + [case], rundir, tag="final", profile=prof)[-1]
        if not failing(r2):
            break
        hist, rr = half, r2
    r3 = run_both(pid, mod, hist + [case], rundir, tag="final", profile=prof)[-1]
    if not failing(r3):
        return None
    return hist, r3


UNREPRODUCED = []


def write_replay(pid, rundir, n, kind, case, impl, model, verdict, extra=None):
    os.makedirs(rundir, exist_ok=True)
    path = os.path.join(rundir, "replay-%d.json" % n)
    doc = dict(property=pid, kind=kind, case=case, implementation_observation=impl, model_observation=model,
               oracle_verdict=verdict, replay_cmd="./check %s --replay %s" % (pid, path), repo=REPO)
    if extra:
        doc.update(extra)
    json.dump(doc, open(path, "w"), indent=1)
    return path


def main_check(pid, argv):
    import argparse
    ap = argparse.ArgumentParser()
    ap.add_argument("--tier", default=os.environ.get("VERIF_TIER", "quick"))
    ap.add_argument("--seed", type=int, default=int(os.environ.get("VERIF_SEED", "1")))
    ap.add_argument("--replay", default=None)
    ap.add_argument("--no-proof", action="store_true", help="debugging only: skip the proof step")
    args = ap.parse_args(argv)
    tier = "thorough" if args.tier == "thorough" else "quick"
    os.environ["VERIF_TIER_CURRENT"] = tier
    low = pid.lower()
    sys.path.insert(0, os.path.join(ROOT, "props"))
    mod = importlib.import_module(low)
    alt = "" if REPO == "/repo" else "alt-" + hashlib.sha256(REPO.encode()).hexdigest()[:10]
    rundir = os.path.join(ROOT, "run", alt, pid) if alt else os.path.join(ROOT, "run", pid)
    evdir = os.path.join(ROOT, "run", alt, "evidence") if alt else os.path.join(ROOT, "evidence")
    os.makedirs(rundir, exist_ok=True)
    t0 = time.time()

    if args.replay:
        doc = json.load(open(args.replay))
        case = doc.get("case")
        if hasattr(mod, "replay"):
            return mod.replay(doc)
        if case is None:
            print("this replay file names a broken tie, not a case:", doc.get("broken"))
            print(doc.get("detail", doc.get("broken_obligations", "")))
            return 1
        try:
            hist = doc.get("history") or []
            if hist:
                print("history:  %d case(s) run before it in the same process" % len(hist))
            res = run_both(pid, mod, hist + [case], rundir, tag="replay", profile=doc.get("profile", "release"))[-1:]
        except CorrBroken as e:
            print("case:    ", case)
            print("impl:     the implementation side fails on this case:", e)
            return 1
        c, i, m, v = res[0]
        print("case:    ", c)
        print("impl:    ", i)
        print("model:   ", m)
        same = getattr(mod, "corr_equal", lambda a, b: a == b)(i, m)
        print("verdict: ", v, "| correspondence:", "equal" if same else "DIFFERENT")
        return 0 if (same and oracle_ok(v)) else 1

    violations = []      # (kind, replay_path, note)
    known_lines = []
    # 1. proof step
    pre_problems = list(mod.pre_proof()) if hasattr(mod, "pre_proof") else []
    # the source translator (props/srcparams.py) regenerates Generated/SourceParams.v from the CURRENT tree on every
    # run; what it cannot read is a broken tie for the properties whose models depend on that part of the source
    import srcparams
    for p in srcparams.pre_proof():
        if any(k in p for k in SRC_DEPS.get(pid, [])):
            pre_problems.append(p)
    if args.no_proof:
        proof = dict(ok=True, obligations=0, discharged=0, theorems=[], problems=[], log="", checker_cmd="skipped", wall=0)
    else:
        proof = proof_step(pid, thorough=(tier == "thorough"))
    if pre_problems:
        proof["problems"] = ["translator: " + p for p in pre_problems] + proof["problems"]
        proof["discharged"] = 0
        proof["ok"] = False
    # 2-5. correspondence + oracle
    rng = random.Random(args.seed)
    corpus = corpus_cases(pid)
    gen_cases = mod.gen(rng, tier)
    cases = corpus + gen_cases
    profiles = getattr(mod, "PROFILES", ["release"])
    results = []
    broken = None
    broken_case = None
    try:
        for prof in profiles:
            results += [(prof,) + r for r in run_both(pid, mod, cases, rundir, tag="main-" + prof, profile=prof)]
    except HarnessBroken as e:
        broken = str(e)
    except CorrBroken as e:
        broken = str(e)
        culprit = isolate_breaking_case(pid, mod, e.cases, rundir, prof)
        if culprit is not None:
            broken += "\nisolated case (the implementation side fails on this case alone): " + culprit
            broken_case = culprit
    known = [e for e in load_known() if e.get("property") == pid and e.get("kind") == "finding"]
    known_ids = {e["id"]: e for e in known}
    seen_known = {}
    oracle_fail = []
    corr_fail = []
    corr_equal = getattr(mod, "corr_equal", lambda a, b: a == b)
    for (prof, c, i, m, v) in results:
        kid = known_id(v)
        if not oracle_ok(v):
            if kid and kid in known_ids:
                # a listed finding: reported as KNOWN-FINDING; the correspondence is still compared
                seen_known.setdefault(kid, (prof, c, i, m, v))
                if not corr_equal(i, m):
                    corr_fail.append((prof, c, i, m, v))
                continue
            oracle_fail.append((prof, c, i, m, v))
        elif not corr_equal(i, m):
            corr_fail.append((prof, c, i, m, v))
    n = 0
    if oracle_fail:
        # report up to 3 distinct failure classes (by verdict text), each shrunk
        classes = {}
        for r in oracle_fail:
            classes.setdefault(r[4], r)
        reported = set()
        for ver, (prof, c, i, m, v) in list(classes.items())[:3]:
            def failing(r, ver=ver):
                return (not oracle_ok(r[3])) and known_id(r[3]) not in known_ids
            small = shrink_case(pid, mod, c, rundir, failing)
            if small in reported:
                continue
            reported.add(small)
            rr = confirm_failure(pid, mod, small, rundir, prof, failing) or confirm_failure(pid, mod, c, rundir, prof, failing)
            history = None
            if rr is None:
                hr = confirm_with_history(pid, mod, cases, c, rundir, prof, failing)
                if hr is not None:
                    history, rr = hr
            if rr is None:
                UNREPRODUCED.append(dict(case=c[:2000], first_verdict=v, note="failed once in the main run, passed 6 re-runs alone and the re-runs behind its predecessors"))
                continue
            n += 1
            extra_doc = dict(profile=prof, original_case=c, failures_of_this_class=sum(1 for x in oracle_fail if x[4] == ver))
            if history is not None:
                extra_doc["history"] = history
                extra_doc["note"] = ("the case passes when it runs alone in a fresh process and fails behind these %d case(s) in the same "
                                     "process: the outcome depends on what the implementation did before" % len(history))
            path = write_replay(pid, rundir, n, "oracle", rr[0], rr[1], rr[2], rr[3], extra_doc)
            violations.append(("oracle", path, ""))
    elif corr_fail:
        # correspondence broke but every oracle held: aimed search around the differing cases
        found = None
        nb = getattr(mod, "neighbours", None)
        extra = []
        for (prof, c, i, m, v) in corr_fail[:20]:
            if nb:
                extra += list(nb(c, rng))[:300]
        extra += mod.gen(random.Random(args.seed + 7919), tier)
        if extra:
            for prof in profiles:
                for r in run_both(pid, mod, extra, rundir, tag="search", profile=prof):
                    if not oracle_ok(r[3]) and known_id(r[3]) not in known_ids:
                        found = (prof,) + r
                        break
                if found:
                    break
        n += 1
        if found:
            prof, c, i, m, v = found
            def failing(r):
                return (not oracle_ok(r[3])) and known_id(r[3]) not in known_ids
            small = shrink_case(pid, mod, c, rundir, failing)
            rr = confirm_failure(pid, mod, small, rundir, prof, failing) or confirm_failure(pid, mod, c, rundir, prof, failing)
            if rr is None:
                UNREPRODUCED.append(dict(case=c[:2000], first_verdict=v, note="found by the aimed search, passed 6 re-runs"))
                n -= 1
            else:
                path = write_replay(pid, rundir, n, "oracle", rr[0], rr[1], rr[2], rr[3], dict(profile=prof, found_by="aimed search after a correspondence difference"))
                violations.append(("oracle", path, ""))
        else:
            prof, c, i, m, v = corr_fail[0]
            def failing(r):
                return not corr_equal(r[1], r[2])
            small = shrink_case(pid, mod, c, rundir, failing)
            rr = confirm_failure(pid, mod, small, rundir, prof, failing) or confirm_failure(pid, mod, c, rundir, prof, failing)
            history = None
            if rr is None:
                hr = confirm_with_history(pid, mod, cases, c, rundir, prof, failing)
                if hr is not None:
                    history, rr = hr
            if rr is None:
                UNREPRODUCED.append(dict(case=c[:2000], first_verdict="correspondence difference", note="differed once in the main run, agreed in 6 re-runs"))
                n -= 1
            else:
                extra_doc = dict(profile=prof, broken="Corr_%s: model observation differs from implementation observation" % pid,
                                 differing_cases=len(corr_fail), searched_extra_cases=len(extra))
                if history is not None:
                    extra_doc["history"] = history
                path = write_replay(pid, rundir, n, "correspondence", rr[0], rr[1], rr[2], rr[3], extra_doc)
                violations.append(("correspondence", path, "no-failing-input-found"))
    if (broken or DEGRADED) and not violations:
        # the tie between model and code no longer checks: the harness does not build against this
        # tree; no failing input was found by whatever part could still run
        n += 1
        path = os.path.join(rundir, "replay-%d.json" % n)
        json.dump(dict(property=pid, kind="correspondence",
                       broken=("Corr_%s: the implementation side can no longer be observed (it died, hung or garbled its output)" % pid) if (broken and not DEGRADED and "harness build failed" not in broken)
                       else "Corr_%s: the harness no longer compiles against the repository" % pid,
                       case=broken_case, detail=(broken or DEGRADED[0])[-3000:], cases_still_run=len(results),
                       replay_cmd="./check %s --replay %s" % (pid, path), repo=REPO), open(path, "w"), indent=1)
        violations.append(("correspondence", path, "no-failing-input-found"))
    if not proof["ok"]:
        n += 1
        path = os.path.join(rundir, "replay-%d.json" % n)
        json.dump(dict(property=pid, kind="proof", broken_obligations=proof["problems"], theorems=proof["theorems"],
                       log=proof["log"], note="the Coq development no longer checks; no failing input was found by the correspondence run"
                       if not violations else "see the other replay files for the failing input"), open(path, "w"), indent=1)
        if not violations:
            violations.append(("proof", path, "no-failing-input-found"))
    # stale known findings: the witness must still fail
    for e in known:
        if e["id"] in seen_known:
            known_lines.append("KNOWN-FINDING: property=%s %s" % (pid, e["description"]))
        else:
            print("NOTE: known finding %s of %s was not reproduced in this run (stale entry or generator miss)" % (e["id"], pid))

    # 7. evidence
    distinct = set()
    hist = {}
    cls = getattr(mod, "classify", lambda c, m: "all")
    nontriv = getattr(mod, "nontrivial", lambda c, m: True)
    for (prof, c, i, m, v) in results:
        k = cls(c, m)
        hist[k] = hist.get(k, 0) + 1
        if nontriv(c, m):
            distinct.add(c)
    samples = []
    step = max(1, len(results) // 5)
    for r in results[::step][:6]:
        samples.append(dict(case=r[1][:400], implementation=r[2][:400], model=r[3][:400], verdict=r[4]))
    ev = dict(
        property_id=pid, tier=tier, seed=args.seed, level="proof",
        coverage=dict(
            obligations=max(proof["obligations"], 1) if not args.no_proof else 1,
            discharged=proof["discharged"],
            checker_cmd=proof["checker_cmd"],
            trusted_base=TRUSTED_BASE + getattr(mod, "TRUSTED_EXTRA", []),
            theorems=proof["theorems"],
            proof_problems=proof["problems"],
            evaluations=len(results),
            distinct_nontrivial=len(distinct),
            rule=getattr(mod, "RULE", "corpus first, then the seeded generator; a case is non-trivial by the module's rule"),
            samples=samples,
            input_distribution=hist,
            traces_validated_against_impl=sum(1 for r in results if corr_equal(r[2], r[3])),
            correspondence_differences=len(corr_fail),
            oracle_failures=len(oracle_fail),
            known_findings_reproduced=sorted(seen_known.keys()),
            build_profiles=profiles,
            exhaustive=bool(getattr(mod, "EXHAUSTIVE", {}).get(tier, False)),
            claimed_strength=getattr(mod, "LEVEL", "proof"),
            unreproduced_failures=UNREPRODUCED,
            repo=REPO,
        ),
        assumptions=getattr(mod, "ASSUMPTIONS", []),
        wall_s=round(time.time() - t0, 2),
        violations=len(violations),
    )
    if hasattr(mod, "extra_evidence"):
        ev["coverage"].update(mod.extra_evidence(results))
    os.makedirs(evdir, exist_ok=True)
    json.dump(ev, open(os.path.join(evdir, "%s.json" % pid), "w"), indent=1)

    for l in known_lines:
        print(l)
    print("%s tier=%s seed=%d proof: %d/%d theorems; cases: %d (distinct non-trivial %d); corr diffs %d; oracle fails %d; %.1fs" % (
        pid, tier, args.seed, proof["discharged"], proof["obligations"], len(results), len(distinct), len(corr_fail), len(oracle_fail), time.time() - t0))
    for p in proof["problems"]:
        print("PROOF PROBLEM:", p)
    for u in UNREPRODUCED:
        print("NOTE: a failure of the main run did not show again in 6 re-runs of the same case (timing artefact; see "
              "evidence unreproduced_failures): %s | %s" % (u["first_verdict"], u["case"][:300]))
    for kind, path, note in violations:
        try:
            doc = json.load(open(path))
            print("  replay %s: %s | case: %s" % (os.path.basename(path), str(doc.get("oracle_verdict") or doc.get("broken") or doc.get("broken_obligations"))[:200],
                                                  str(doc.get("case"))[:400]) +
                  ((" | behind %d earlier case(s) in the same process (history in the replay file)" % len(doc["history"])) if doc.get("history") else ""))
        except Exception:
            pass
        print(("VIOLATION property=%s replay=%s %s" % (pid, path, note)).rstrip())
    return 1 if violations else 0
