#!/bin/sh
# usage: ./run_all.sh quick|thorough   -- runs every claimed check once, prints one summary line per check
cd "$(dirname "$0")"
TIER=${1:-quick}
for p in $(python3 -c "import json;print(' '.join(c['property_id'] for c in json.load(open('MANIFEST.json'))['checks']))"); do
  S=$(date +%s)
  OUT=$(./check $p --tier $TIER 2>&1); RC=$?
  E=$(date +%s)
  echo "$p rc=$RC $((E-S))s $(echo "$OUT" | grep -E 'tier=' | tail -1)"
  echo "$OUT" | grep -E "VIOLATION|CHECK-ERROR|PROOF PROBLEM" | head -5
done
