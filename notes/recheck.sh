#!/bin/bash
# usage: recheck.sh <seed-id> <check ids...>   -- re-runs checks against a seeded change (scratch worktree /tmp/wt_re)
SID=$1; shift
WT=${WT:-/tmp/wt_re}
[ -d $WT ] || { git -C /repo worktree add -q --detach $WT HEAD && cp /repo/Cargo.lock $WT/; }
cd $WT && git checkout -q -- . && git apply /verif/seeded/$SID/patch.diff || exit 2
{
echo "== re-run $(date -u +%FT%TZ) at /verif commit $(git -C /verif rev-parse --short HEAD)"
for C in "$@"; do echo "== check $C on the changed tree"; (cd /verif && VERIF_REPO=$WT timeout 1800 ./check $C 2>&1 | grep -v "^KNOWN-FINDING" | tail -4 | cut -c1-300); done
} 2>&1 | tee -a /verif/seeded/$SID/confirm.log
cd $WT && git checkout -q -- .
