From Coq Require Import List Arith Lia Bool.
Import ListNotations.

(* Labelled transition system of accept_loop + token pool + connection tasks.
   [fixed = true] races the token wait against the permit (the planned repair D10);
   [fixed = false] is the code on the pinned tree. *)
Section Accept.
Variable fixed : bool.
Variable n : nat.   (* max_conns *)

Inductive pc := WaitToken | CheckRevoked | Accepting | SleepErr | Done.
Record st := { loop : pc; avail : nat; conns : nat; revoked : bool; listening : bool; stopped : bool }.
Definition init : st := {| loop := WaitToken; avail := n; conns := 0; revoked := false; listening := true; stopped := false |}.

Inductive action := Loop | IncomingOk | IncomingErr | ConnEnd | Revoke.

Definition held (s : st) : nat := match loop s with CheckRevoked | Accepting | SleepErr => 1 | _ => 0 end.

Definition finish (s : st) (a : nat) : st :=
  {| loop := Done; avail := a; conns := conns s; revoked := revoked s; listening := false; stopped := true |}.
Definition goto (s : st) (p : pc) (a : nat) : st :=
  {| loop := p; avail := a; conns := conns s; revoked := revoked s; listening := listening s; stopped := stopped s |}.

Definition step (s : st) (a : action) : option st :=
  match a with
  | Loop =>
    match loop s with
    | WaitToken =>
      if fixed && revoked s then Some (finish s (avail s))
      else match avail s with O => None | S k => Some (goto s CheckRevoked k) end
    | CheckRevoked => if revoked s then Some (finish s (S (avail s))) else Some (goto s Accepting (avail s))
    | Accepting => if revoked s then Some (goto s WaitToken (S (avail s))) else None
    | SleepErr => Some (goto s WaitToken (S (avail s)))
    | Done => None
    end
  | IncomingOk =>
    match loop s with
    | Accepting => if revoked s then None else
        Some {| loop := WaitToken; avail := avail s; conns := S (conns s); revoked := false; listening := listening s; stopped := stopped s |}
    | _ => None end
  | IncomingErr =>
    match loop s with Accepting => if revoked s then None else Some (goto s SleepErr (avail s)) | _ => None end
  | ConnEnd =>
    match conns s with O => None | S k =>
      Some {| loop := loop s; avail := S (avail s); conns := k; revoked := revoked s; listening := listening s; stopped := stopped s |} end
  | Revoke => Some {| loop := loop s; avail := avail s; conns := conns s; revoked := true; listening := listening s; stopped := stopped s |}
  end.

Fixpoint run (s : st) (tr : list action) : option st :=
  match tr with [] => Some s | a :: t => match step s a with Some s' => run s' t | None => None end end.
Definition reachable (s : st) : Prop := exists tr, run init tr = Some s.

Definition Inv (s : st) : Prop :=
  avail s + held s + conns s = n /\ (stopped s = true -> revoked s = true /\ listening s = false /\ loop s = Done)
  /\ (loop s = Done -> stopped s = true).

Lemma inv_init : Inv init.
Proof. unfold Inv, init, held; cbn. repeat split; try lia; discriminate. Qed.

Lemma inv_step s a s' : Inv s -> step s a = Some s' -> Inv s'.
Proof.
  intros (H1 & H2 & H3) Hs. destruct s as [l av c r li stp]. unfold Inv, held in *. cbn in *.
  destruct a, l; cbn in Hs;
  repeat match type of Hs with
         | context [if ?b then _ else _] => destruct b eqn:?
         | context [match ?x with O => _ | S _ => _ end] => destruct x eqn:?
         end; inversion Hs; subst; clear Hs; cbn;
  repeat split; intros; try lia; try discriminate; try tauto;
  try (destruct stp; [destruct H2 as (? & ? & ?); auto; try discriminate | discriminate]);
  try (rewrite andb_true_iff in *; tauto);
  try (specialize (H3 eq_refl); destruct H2 as (? & ? & ?); auto).
Qed.

Theorem inv_reachable s : reachable s -> Inv s.
Proof.
  intros [tr H]. revert H. generalize inv_init. generalize init.
  induction tr as [|a t IH]; intros s0 I0 H; cbn in H.
  - inversion H; subst; exact I0.
  - destruct (step s0 a) eqn:E; [|discriminate]. eapply IH; [eapply inv_step; eauto|exact H].
Qed.

(* C12: never more than n connections, slots conserved *)
Corollary never_over_admit s : reachable s -> conns s <= n.
Proof. intros H. destruct (inv_reachable s H) as (H1 & _). lia. Qed.
(* C13 safety *)
Corollary stopped_only_after_revoke s : reachable s -> stopped s = true -> revoked s = true /\ listening s = false.
Proof. intros H Hs. destruct (inv_reachable s H) as (_ & H2 & _). destruct (H2 Hs) as (? & ? & _). auto. Qed.

(* C13 bounded stop: a rank that Loop decreases once revoked, never blocked, never increased by others *)
Definition rank (s : st) : nat :=
  match loop s with Done => 0 | WaitToken => 1 | CheckRevoked => 1 | Accepting => 2 | SleepErr => 2 end.
End Accept.

Lemma loop_enabled_fixed s : revoked s = true -> loop s <> Done -> exists s', step true s Loop = Some s' /\ rank s' < rank s.
Proof.
  intros Hr Hd. destruct s as [l av c r li stp]; cbn in *; subst r.
  destruct l; cbn; try congruence; eexists; (split; [reflexivity|cbn; lia]).
Qed.
Lemma others_keep_rank s a s' : revoked s = true -> a <> Loop -> step true s a = Some s' -> rank s' <= rank s /\ revoked s' = true.
Proof.
  intros Hr Ha Hs. destruct s as [l av c r li stp]; cbn in *; subst r.
  destruct a; try congruence; destruct l; cbn in Hs; try discriminate;
  try (destruct c; [discriminate|]); inversion Hs; subst; cbn; auto.
Qed.

(* the pinned tree: a reachable revoked state where the accept loop can never move again
   unless a client goes away *)
Definition stuck (n : nat) : st :=
  {| loop := WaitToken; avail := 0; conns := n; revoked := true; listening := true; stopped := false |}.
Lemma stuck_reachable_1 : reachable false 1 (stuck 1).
Proof. exists [Loop; Loop; IncomingOk; Revoke]. vm_compute. reflexivity. Qed.
Lemma stuck_is_stuck : step false (stuck 1) Loop = None /\ stopped (stuck 1) = false.
Proof. vm_compute. auto. Qed.
Print Assumptions inv_reachable.
Print Assumptions loop_enabled_fixed.
