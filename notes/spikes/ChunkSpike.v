From Coq Require Import List NArith ZArith Arith Lia Bool.
Import ListNotations.
Open Scope N_scope.
Open Scope bool_scope.
Ltac Zify.zify_post_hook ::= Z.div_mod_to_equations.

(* ---------- model of copy_chunked_async's encoding ---------- *)
Definition hexd (d : N) : N := if d <? 10 then 48 + d else 87 + d.
Definition hex4 (n : N) : list N :=
  [hexd (n / 4096 mod 16); hexd (n / 256 mod 16); hexd (n / 16 mod 16); hexd (n mod 16)].
Fixpoint trim0 (l : list N) : list N := match l with 48 :: t => trim0 t | _ => l end.
Definition crlf : list N := [13; 10].
Definition encode_piece (p : list N) : list N :=
  trim0 (hex4 (N.of_nat (length p)) ++ crlf ++ p ++ crlf).
Definition terminator : list N := [48; 13; 10; 13; 10].
Definition encode (pieces : list (list N)) : list N := concat (map encode_piece pieces) ++ terminator.

(* ---------- independent decoder (RFC 7230 4.1, no extensions, no trailers) ---------- *)
Definition unhexd (c : N) : option N :=
  if (48 <=? c) && (c <=? 57) then Some (c - 48)
  else if (97 <=? c) && (c <=? 102) then Some (c - 87)
  else if (65 <=? c) && (c <=? 70) then Some (c - 55) else None.
(* reads 1+ hex digits *)
Fixpoint read_hex (acc : N) (seen : bool) (l : list N) : option (N * list N) :=
  match l with
  | c :: t => match unhexd c with
              | Some d => read_hex (16 * acc + d) true t
              | None => if seen then Some (acc, l) else None end
  | [] => if seen then Some (acc, []) else None
  end.
Inductive dres := Complete (d : list N) | Incomplete | Malformed.
Definition expect_crlf (l : list N) : option (list N) :=
  match l with 13 :: 10 :: t => Some t | _ => None end.
Fixpoint decode (fuel : nat) (acc : list N) (l : list N) : dres :=
  match fuel with O => Incomplete | S f =>
  match l with [] => Incomplete | _ =>
  match read_hex 0 false l with
  | None => Malformed
  | Some (n, l1) =>
    match expect_crlf l1 with
    | None => match l1 with [] | [13] => Incomplete | _ => Malformed end
    | Some l2 =>
      if n =? 0 then
        match l2 with
        | [13; 10] => Complete acc
        | [] | [13] => Incomplete
        | _ => Malformed end
      else
        let k := N.to_nat n in
        if (length l2 <? k)%nat then Incomplete else
        match expect_crlf (skipn k l2) with
        | Some l3 => decode f (acc ++ firstn k l2) l3
        | None => match skipn k l2 with [] | [13] => Incomplete | _ => Malformed end
        end
    end
  end end end.

(* ---------- size line ---------- *)
Definition is_hex (c : N) : bool := match unhexd c with Some _ => true | None => false end.
Fixpoint hexval (acc : N) (l : list N) : N :=
  match l with c :: t => match unhexd c with Some d => hexval (16 * acc + d) t | None => acc end | [] => acc end.

Definition size_ok (n : N) : bool :=
  let s := trim0 (hex4 n) in
  forallb is_hex s && (hexval 0 s =? n) && negb (match s with [] => true | c :: _ => c =? 48 end).

Fixpoint upto (k : nat) (n : N) : list N := match k with O => [] | S k' => n :: upto k' (N.succ n) end.
Lemma upto_In k : forall n m, n <= m -> m < n + N.of_nat k -> In m (upto k n).
Proof.
  induction k as [|k IH]; intros n m H1 H2; [lia|]. cbn [upto].
  destruct (N.eq_dec n m) as [->|Hne]; [left; reflexivity|right]. apply IH; lia.
Qed.
Lemma size_sweep : forallb size_ok (upto (N.to_nat 65535) 1) = true.
Proof. vm_compute. reflexivity. Qed.
Lemma size_line n : 1 <= n < 65536 -> size_ok n = true.
Proof.
  intros H. pose proof size_sweep as S. rewrite forallb_forall in S. apply S.
  apply upto_In; lia.
Qed.

Lemma read_hex_digits s : forall acc seen rest,
  forallb is_hex s = true -> (seen = true \/ s <> []) ->
  (match rest with c :: _ => is_hex c = false | [] => True end) ->
  read_hex acc seen (s ++ rest) = Some (hexval acc s, rest).
Proof.
  induction s as [|c s IH]; intros acc seen rest Hs Hne Hr.
  - cbn [app hexval]. destruct Hne as [->|Hne]; [|congruence].
    destruct rest as [|c t]; cbn [read_hex]; [reflexivity|].
    unfold is_hex in Hr. destruct (unhexd c); [discriminate|reflexivity].
  - cbn [forallb] in Hs. apply andb_true_iff in Hs as [Hc Hs].
    cbn [app read_hex hexval]. unfold is_hex in Hc. destruct (unhexd c) as [d|]; [|discriminate].
    apply IH; auto.
Qed.

Lemma trim0_app a b : (match trim0 a with [] => False | _ => True end) -> trim0 (a ++ b) = trim0 a ++ b.
Proof.
  induction a as [|x a IH]; cbn [trim0 app]; [tauto|].
  intros H. destruct (N.eq_dec x 48) as [->|Hne].
  - cbn [trim0] in *. apply IH. exact H.
  - assert (trim0 (x :: a) = x :: a) as E.
    { cbn [trim0]. destruct x as [|p]; [reflexivity|]. do 6 (destruct p as [p|p|]; try reflexivity). congruence. }
    assert (trim0 (x :: a ++ b) = x :: a ++ b) as E'.
    { cbn [trim0]. destruct x as [|p]; [reflexivity|]. do 6 (destruct p as [p|p|]; try reflexivity). congruence. }
    change (trim0 (x :: a ++ b) = trim0 (x :: a) ++ b). rewrite E, E'. reflexivity.
Qed.

Definition piece_ok (p : list N) : Prop := (1 <= length p)%nat /\ (N.of_nat (length p) < 65536).

Lemma encode_piece_shape p : piece_ok p ->
  exists s, encode_piece p = s ++ crlf ++ p ++ crlf /\ forallb is_hex s = true /\ s <> [] /\ hexval 0 s = N.of_nat (length p).
Proof.
  intros [H1 H2]. set (n := N.of_nat (length p)).
  assert (size_ok n = true) as Hs by (apply size_line; subst n; lia).
  unfold size_ok in Hs. apply andb_true_iff in Hs as [Hs Hz]. apply andb_true_iff in Hs as [Hh Hv].
  exists (trim0 (hex4 n)). unfold encode_piece. fold n.
  destruct (trim0 (hex4 n)) as [|c s] eqn:E; [discriminate|].
  rewrite trim0_app by (rewrite E; exact I). rewrite E.
  repeat split; auto; [discriminate|]. apply N.eqb_eq in Hv. exact Hv.
Qed.

Definition decode_body (f : nat) (acc l : list N) : dres :=
  match read_hex 0 false l with
  | None => Malformed
  | Some (n, l1) =>
    match expect_crlf l1 with
    | None => match l1 with [] | [13] => Incomplete | _ => Malformed end
    | Some l2 =>
      if n =? 0 then
        match l2 with
        | [13; 10] => Complete acc
        | [] | [13] => Incomplete
        | _ => Malformed end
      else
        let k := N.to_nat n in
        if (length l2 <? k)%nat then Incomplete else
        match expect_crlf (skipn k l2) with
        | Some l3 => decode f (acc ++ firstn k l2) l3
        | None => match skipn k l2 with [] | [13] => Incomplete | _ => Malformed end
        end
    end
  end.
Lemma decode_unfold f acc l : l <> [] -> decode (S f) acc l = decode_body f acc l.
Proof. destruct l; [congruence|reflexivity]. Qed.

Lemma decode_step fuel acc p rest : piece_ok p ->
  decode (S fuel) acc (encode_piece p ++ rest) = decode fuel (acc ++ p) rest.
Proof.
  intros Hp. destruct (encode_piece_shape p Hp) as (s & E & Hh & Hne & Hv). rewrite E.
  destruct Hp as [H1 H2].
  rewrite decode_unfold by (destruct s; [congruence|discriminate]).
  unfold decode_body. rewrite <- !app_assoc.
  rewrite read_hex_digits; auto; [|cbn; reflexivity].
  rewrite Hv. cbn [crlf app expect_crlf].
  replace (N.of_nat (length p) =? 0) with false by (symmetry; apply N.eqb_neq; lia).
  rewrite Nat2N.id.
  replace (Nat.ltb (length (p ++ 13 :: 10 :: rest)) (length p)) with false
    by (symmetry; apply Nat.ltb_ge; rewrite app_length; lia).
  rewrite skipn_app, skipn_all, Nat.sub_diag. cbn [skipn app expect_crlf].
  rewrite firstn_app, firstn_all, Nat.sub_diag. cbn [firstn]. rewrite app_nil_r. reflexivity.
Qed.

Theorem decode_encode pieces : Forall piece_ok pieces ->
  forall acc fuel, (length pieces < fuel)%nat ->
  decode fuel acc (encode pieces) = Complete (acc ++ concat pieces).
Proof.
  unfold encode. induction 1 as [|p ps Hp Hps IH]; intros acc fuel Hf.
  - destruct fuel; [cbn in Hf; lia|]. cbn. rewrite app_nil_r. reflexivity.
  - destruct fuel; [lia|]. cbn [map concat]. rewrite <- app_assoc.
    rewrite decode_step by assumption. rewrite IH by (cbn in Hf; lia).
    cbn [concat]. rewrite app_assoc. reflexivity.
Qed.

(* a source error ends the output without the terminator: never Complete *)
Theorem truncated_not_complete pieces : Forall piece_ok pieces ->
  forall acc fuel d, decode fuel acc (concat (map encode_piece pieces)) <> Complete d.
Proof.
  induction 1 as [|p ps Hp Hps IH]; intros acc fuel d.
  - destruct fuel; cbn; discriminate.
  - destruct fuel; [cbn; discriminate|]. cbn [map concat]. rewrite decode_step by assumption. apply IH.
Qed.
Print Assumptions decode_encode.
Print Assumptions truncated_not_complete.
