From Coq Require Import List NArith Arith Lia Bool.
Import ListNotations.

Section ReadHead.
Variable cap : nat.
Variable R : Type.
Variable parse : list N -> R.

Fixpoint prefixb (p l : list N) : bool :=
  match p, l with
  | [], _ => true
  | a :: p', b :: l' => N.eqb a b && prefixb p' l'
  | _ :: _, [] => false
  end.
Definition crlf2 : list N := [13; 10; 13; 10]%N.
Fixpoint find4 (l : list N) : option nat :=
  if prefixb crlf2 l then Some 0
  else match l with [] => None | _ :: t => option_map S (find4 t) end.

Inductive outcome :=
| Parsed (r : R) (rest_buf rest_stream : list N)
| HeadTooLong | Disconnected | TruncatedEOF | OutOfFuel.

Definition next (sched : list nat) : nat := match sched with [] => 1 | k :: _ => k end.

Fixpoint read_head (fuel : nat) (buf stream : list N) (sched : list nat) : outcome :=
  match find4 buf with
  | Some n => Parsed (parse (firstn n buf)) (skipn (n + 4) buf) stream
  | None =>
    if length buf =? cap then HeadTooLong else
    match fuel with
    | O => OutOfFuel
    | S f =>
      match stream with
      | [] => match buf with [] => Disconnected | _ => TruncatedEOF end
      | _ => let k := Nat.min (Nat.min (cap - length buf) (Nat.max 1 (next sched))) (length stream) in
             read_head f (buf ++ firstn k stream) (skipn k stream) (tl sched)
      end
    end
  end.

(* the schedule-free specification: a function of the bytes only *)
Inductive verdict := VParsed (r : R) (rest : list N) | VTooLong | VDisc | VTrunc.
Definition head_spec (all : list N) : verdict :=
  match find4 (firstn cap all) with
  | Some n => VParsed (parse (firstn n all)) (skipn (n + 4) all)
  | None => if cap <=? length all then VTooLong else match all with [] => VDisc | _ => VTrunc end
  end.
Definition abstract (o : outcome) : option verdict :=
  match o with
  | Parsed r b s => Some (VParsed r (b ++ s))
  | HeadTooLong => Some VTooLong | Disconnected => Some VDisc | TruncatedEOF => Some VTrunc
  | OutOfFuel => None end.

Lemma prefixb_app p l x : prefixb p l = true -> prefixb p (l ++ x) = true.
Proof. revert l; induction p as [|a p IH]; intros [|b l]; cbn; try easy. intros H; apply andb_true_iff in H as [H1 H2]. rewrite H1, IH; auto. Qed.


Lemma prefixb_app_false p l x : prefixb p l = false -> length p <= length l -> prefixb p (l ++ x) = false.
Proof.
  revert l; induction p as [|a p IH]; intros [|b l]; cbn; try easy; try lia.
  intros H Hl. apply andb_false_iff in H as [H|H]; [rewrite H; reflexivity|].
  rewrite IH by (auto; lia). apply andb_false_r.
Qed.
Lemma prefixb_len p l : prefixb p l = true -> length p <= length l.
Proof. revert l; induction p as [|a p IH]; intros [|b l]; cbn; try easy; try lia. intros H; apply andb_true_iff in H as [_ H]. apply IH in H. lia. Qed.
Lemma find4_len l n : find4 l = Some n -> n + 4 <= length l.
Proof.
  revert n; induction l as [|a l IH]; intros n; cbn [find4].
  - cbn. discriminate.
  - destruct (prefixb crlf2 (a :: l)) eqn:E.
    + intros [= <-]. apply prefixb_len in E. cbn in *. lia.
    + destruct (find4 l) as [m|]; cbn; [|discriminate]. intros [= <-]. specialize (IH m eq_refl). cbn. lia.
Qed.
Lemma find4_app l x n : find4 l = Some n -> find4 (l ++ x) = Some n.
Proof.
  revert n; induction l as [|a l IH]; intros n.
  - cbn. discriminate.
  - cbn [find4]. destruct (prefixb crlf2 (a :: l)) eqn:E.
    + intros H. change ((a :: l) ++ x) with (a :: (l ++ x)). cbn [find4].
      change (a :: l ++ x) with ((a :: l) ++ x). rewrite (prefixb_app _ _ x E). exact H.
    + destruct (find4 l) as [m|] eqn:F; cbn [option_map]; [|discriminate]. intros [= <-].
      pose proof (find4_len _ _ F) as Hl.
      change ((a :: l) ++ x) with (a :: (l ++ x)). cbn [find4].
      change (a :: l ++ x) with ((a :: l) ++ x). rewrite prefixb_app_false; auto; [|cbn; lia].
      rewrite (IH m eq_refl). reflexivity.
Qed.
Lemma find4_firstn l n c : find4 l = Some n -> n + 4 <= c -> find4 (firstn c l) = Some n.
Proof.
  revert n c; induction l as [|a l IH]; intros n c; cbn [find4].
  - cbn. discriminate.
  - destruct c as [|c]; [lia|]. cbn [firstn find4].
    destruct (prefixb crlf2 (a :: l)) eqn:E.
    + intros [= <-] Hc.
      assert (prefixb crlf2 (a :: firstn c l) = true) as ->; [|reflexivity].
      destruct l as [|b [|b2 [|b3 l]]]; cbn in E; try (rewrite ?andb_false_r in E; discriminate).
      destruct c as [|[|[|c]]]; try lia. cbn. exact E.
    + destruct (find4 l) as [m|] eqn:F; cbn [option_map]; [|discriminate]. intros [= <-] Hc.
      rewrite (IH m c eq_refl) by lia. cbn [option_map].
      assert (prefixb crlf2 (a :: firstn c l) = false) as ->; [|reflexivity].
      pose proof (find4_len _ _ F).
      destruct l as [|b [|b2 [|b3 l]]]; cbn in H; try lia.
      destruct c as [|[|[|c]]]; try lia. cbn. exact E.
Qed.
Lemma find4_none_prefix l x : find4 (l ++ x) = None -> find4 l = None.
Proof. destruct (find4 l) eqn:F; auto. rewrite (find4_app _ x _ F). discriminate. Qed.

Theorem read_head_spec fuel : forall buf stream sched,
  length buf <= cap -> cap - length buf < fuel ->
  abstract (read_head fuel buf stream sched) = Some (head_spec (buf ++ stream)).
Proof.
  induction fuel as [|f IH]; intros buf stream sched Hcap Hfuel; [lia|].
  cbn [read_head]. unfold head_spec.
  destruct (find4 buf) as [n|] eqn:F.
  - pose proof (find4_len _ _ F) as Hn.
    rewrite (find4_firstn (buf ++ stream) n cap) by (auto using find4_app; lia).
    cbn [abstract]. f_equal. f_equal.
    + rewrite firstn_app. replace (n - length buf) with 0 by lia. cbn. rewrite app_nil_r. reflexivity.
    + rewrite skipn_app. replace (n + 4 - length buf) with 0 by lia. reflexivity.
  - destruct (length buf =? cap) eqn:E.
    + apply Nat.eqb_eq in E. rewrite firstn_app. replace (cap - length buf) with 0 by lia.
      cbn [firstn]. rewrite app_nil_r, <- E, firstn_all, F.
      rewrite app_length. replace (length buf <=? length buf + length stream) with true by (symmetry; apply Nat.leb_le; lia).
      reflexivity.
    + apply Nat.eqb_neq in E. destruct stream as [|s stream].
      * rewrite app_nil_r. rewrite firstn_all2 by lia. rewrite F.
        replace (cap <=? length buf) with false by (symmetry; apply Nat.leb_gt; lia).
        destruct buf; reflexivity.
      * set (k := Nat.min _ _).
        assert (1 <= k <= cap - length buf) as Hk by (subst k; cbn [length]; lia).
        rewrite IH; [| rewrite app_length, firstn_length; lia | rewrite app_length, firstn_length; lia].
        rewrite <- app_assoc, firstn_skipn. reflexivity.
Qed.

Corollary split_independent fuel fuel' buf stream sched sched' :
  length buf <= cap -> cap - length buf < fuel -> cap - length buf < fuel' ->
  abstract (read_head fuel buf stream sched) = abstract (read_head fuel' buf stream sched').
Proof. intros. rewrite !read_head_spec by assumption. reflexivity. Qed.
End ReadHead.
Print Assumptions split_independent.
