From Coq Require Import ZArith Lia Bool List.
Open Scope Z_scope.
Ltac Zify.zify_post_hook ::= Z.div_mod_to_equations.

Definition is_leap (y : Z) : bool :=
  if y mod 400 =? 0 then true else if y mod 100 =? 0 then false else y mod 4 =? 0.
Definition year_len (y : Z) : Z := if is_leap y then 366 else 365.
Definition month_len (y m : Z) : Z :=
  match m with
  | 1 => 31 | 2 => if is_leap y then 29 else 28 | 3 => 31 | 4 => 30 | 5 => 31 | 6 => 30
  | 7 => 31 | 8 => 31 | 9 => 30 | 10 => 31 | 11 => 30 | 12 => 31 | _ => 0 end.

(* spec side *)
Definition L (x : Z) : Z := x / 4 - x / 100 + x / 400.
Definition days_before_year (y : Z) : Z := 365 * (y - 1970) + (L (y - 1) - L 1969).
Definition days_before_month (y m : Z) : Z :=
  match m with
  | 1 => 0 | 2 => 31 | 3 => 59 | 4 => 90 | 5 => 120 | 6 => 151 | 7 => 181 | 8 => 212
  | 9 => 243 | 10 => 273 | 11 => 304 | 12 => 334 | _ => 0 end
  + (if (2 <? m) && is_leap y then 1 else 0).
Definition abs_days (y m d : Z) : Z := days_before_year y + days_before_month y m + (d - 1).

Lemma year_len_L y : L y - L (y - 1) = year_len y - 365.
Proof.
  unfold L, year_len, is_leap.
  destruct (y mod 400 =? 0) eqn:E400; [|destruct (y mod 100 =? 0) eqn:E100; [|destruct (y mod 4 =? 0) eqn:E4]];
  rewrite ?Z.eqb_eq, ?Z.eqb_neq in *; lia.
Qed.

Lemma dby_succ y : days_before_year (y + 1) = days_before_year y + year_len y.
Proof. unfold days_before_year. replace (y + 1 - 1) with y by lia. pose proof (year_len_L y). lia. Qed.

(* year step of balance_day (post-fix) preserves abs_days when 1<=m<=12 *)
Definition ystep_len (y m : Z) : Z := if 2 <? m then year_len (y + 1) else year_len y.
Lemma year_step_abs y m d : 1 <= m <= 12 ->
  abs_days (y + 1) m (d - ystep_len y m) = abs_days y m d.
Proof.
  intros Hm. unfold abs_days, ystep_len. rewrite dby_succ.
  unfold days_before_month.
  assert (m = 1 \/ m = 2 \/ m = 3 \/ m = 4 \/ m = 5 \/ m = 6 \/ m = 7 \/ m = 8 \/ m = 9 \/ m = 10 \/ m = 11 \/ m = 12) as Hc by lia.
  unfold year_len.
  destruct Hc as [->|[->|[->|[->|[->|[->|[->|[->|[->|[->|[->| ->]]]]]]]]]]]; cbn [Z.ltb Z.compare Pos.compare Pos.compare_cont andb];
  destruct (is_leap y); destruct (is_leap (y+1)); lia.
Qed.

(* month step preserves abs_days *)
Lemma month_step_abs y m d : 1 <= m <= 11 ->
  abs_days y (m + 1) (d - month_len y m) = abs_days y m d.
Proof.
  intros Hm. unfold abs_days, days_before_month, month_len.
  assert (m = 1 \/ m = 2 \/ m = 3 \/ m = 4 \/ m = 5 \/ m = 6 \/ m = 7 \/ m = 8 \/ m = 9 \/ m = 10 \/ m = 11) as Hc by lia.
  destruct Hc as [->|[->|[->|[->|[->|[->|[->|[->|[->|[->| ->]]]]]]]]]]; cbn; destruct (is_leap y); lia.
Qed.
Lemma month_step_abs_dec y d : abs_days (y + 1) 1 (d - 31) = abs_days y 12 d.
Proof. unfold abs_days. rewrite dby_succ. unfold days_before_month, year_len. cbn. destruct (is_leap y); lia. Qed.

(* the loops, fuelled *)
Fixpoint year_loop (fuel : nat) (y m d : Z) : option (Z * Z) :=
  if d >? 366 then
    match fuel with O => None | S f => year_loop f (y + 1) m (d - ystep_len y m) end
  else Some (y, d).

Fixpoint month_loop (fuel : nat) (y m d : Z) : option (Z * Z * Z) :=
  if d >? month_len y m then
    match fuel with O => None | S f =>
      let d' := d - month_len y m in
      let m' := m + 1 in
      if m' >? 12 then month_loop f (y + (m' - 1) / 12) (m' - 12 * ((m' - 1) / 12)) d'
      else month_loop f y m' d'
    end
  else Some (y, m, d).

Lemma year_loop_spec fuel : forall y m d, 1 <= m <= 12 -> 1 <= d ->
  (Z.of_nat fuel) * 365 >= d - 366 ->
  exists y' d', year_loop fuel y m d = Some (y', d') /\ abs_days y' m d' = abs_days y m d /\ 1 <= d' <= 366 /\ y <= y'.
Proof.
  induction fuel as [|f IH]; intros y m d Hm Hd Hf; cbn [year_loop].
  - destruct (d >? 366) eqn:E; [lia|]. exists y, d. repeat split; lia.
  - destruct (d >? 366) eqn:E.
    + assert (365 <= ystep_len y m <= 366) by (unfold ystep_len, year_len; destruct (2 <? m), (is_leap y), (is_leap (y+1)); lia).
      destruct (IH (y + 1) m (d - ystep_len y m)) as (y' & d' & H1 & H2 & H3 & H4); try lia.
      exists y', d'. rewrite H1, H2, year_step_abs by lia. repeat split; lia.
    + exists y, d. repeat split; lia.
Qed.

Lemma month_len_bounds y m : 1 <= m <= 12 -> 28 <= month_len y m <= 31.
Proof.
  intros Hm. unfold month_len.
  assert (m = 1 \/ m = 2 \/ m = 3 \/ m = 4 \/ m = 5 \/ m = 6 \/ m = 7 \/ m = 8 \/ m = 9 \/ m = 10 \/ m = 11 \/ m = 12) as Hc by lia.
  destruct Hc as [->|[->|[->|[->|[->|[->|[->|[->|[->|[->|[->| ->]]]]]]]]]]]; destruct (is_leap y); lia.
Qed.

Lemma month_loop_spec fuel : forall y m d, 1 <= m <= 12 -> 1 <= d ->
  (Z.of_nat fuel) * 28 >= d - 28 ->
  exists y' m' d', month_loop fuel y m d = Some (y', m', d') /\ abs_days y' m' d' = abs_days y m d
     /\ 1 <= m' <= 12 /\ 1 <= d' <= month_len y' m'.
Proof.
  induction fuel as [|f IH]; intros y m d Hm Hd Hf; cbn [month_loop]; pose proof (month_len_bounds y m Hm) as Hb.
  - destruct (d >? month_len y m) eqn:E; [lia|]. exists y, m, d. repeat split; lia.
  - destruct (d >? month_len y m) eqn:E.
    + destruct (m + 1 >? 12) eqn:E12.
      * assert (m = 12) as -> by lia. change ((12 + 1 - 1) / 12) with 1. change (12 + 1 - 12 * 1) with 1.
        destruct (IH (y + 1) 1 (d - month_len y 12)) as (y' & m' & d' & H1 & H2 & H3 & H4); try lia.
        exists y', m', d'. rewrite H1, H2. change (month_len y 12) with 31. rewrite month_step_abs_dec. repeat split; lia.
      * destruct (IH y (m + 1) (d - month_len y m)) as (y' & m' & d' & H1 & H2 & H3 & H4); try lia.
        exists y', m', d'. rewrite H1, H2, month_step_abs by lia. repeat split; lia.
    + exists y, m, d. repeat split; lia.
Qed.

(* canonical forms are unique *)
Lemma dbm_mono y m m' : 1 <= m < m' -> m' <= 12 -> days_before_month y m + month_len y m <= days_before_month y m'.
Proof.
  intros H1 H2. unfold days_before_month, month_len.
  assert (m = 1 \/ m = 2 \/ m = 3 \/ m = 4 \/ m = 5 \/ m = 6 \/ m = 7 \/ m = 8 \/ m = 9 \/ m = 10 \/ m = 11) as Hc by lia.
  assert (m' = 2 \/ m' = 3 \/ m' = 4 \/ m' = 5 \/ m' = 6 \/ m' = 7 \/ m' = 8 \/ m' = 9 \/ m' = 10 \/ m' = 11 \/ m' = 12) as Hc' by lia.
  destruct Hc as [->|[->|[->|[->|[->|[->|[->|[->|[->|[->| ->]]]]]]]]]];
  destruct Hc' as [->|[->|[->|[->|[->|[->|[->|[->|[->|[->| ->]]]]]]]]]]; try lia; cbn; destruct (is_leap y); lia.
Qed.
Print Assumptions month_loop_spec.
