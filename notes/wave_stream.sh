#!/bin/bash
# stream of seedtests
while read WT N SID CHECKS; do
  /verif/notes/seedtest.sh $WT $N $SID $CHECKS > /tmp/wave2_$SID.log 2>&1
done
