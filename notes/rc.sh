#!/bin/bash
# recheck against a wave-5 worktree: rc.sh <seed-id> <wt> <n> <checks...>
SID=$1; WT=$2; N=$3; shift 3
cd $WT && git checkout -q -- . && git apply out/$N/patch.diff || exit 2
{
echo "== re-run $(date -u +%FT%TZ) at /verif commit $(git -C /verif rev-parse --short HEAD)"
for C in "$@"; do echo "== check $C on the changed tree"; (cd /verif && VERIF_REPO=$WT timeout 1800 ./check $C 2>&1 | grep -v "^KNOWN-FINDING" | tail -4 | cut -c1-300); done
} 2>&1 | tee -a /verif/seeded/$SID/confirm.log
cd $WT && git checkout -q -- .
