#!/usr/bin/env python3
"""Prints the detection table of DESIGN.md section 11 from seeded/*/meta.json."""
import json, os
root = "/verif/seeded"
print("| id | change (one line) | detection | history |")
print("|---|---|---|---|")
for sid in sorted(os.listdir(root)):
    p = os.path.join(root, sid, "meta.json")
    if not os.path.exists(p):
        continue
    m = json.load(open(p))
    own = m["property"]
    det = []
    for c, v in sorted(m["checks"].items(), key=lambda kv: (kv[0] != own, kv[0])):
        vv = v["verdict"]
        short = "failing input" if "with failing input" in vv else "correspondence only" if "no-failing-input-found" in vv else "missed"
        det.append("%s: %s" % (c, short))
    what = m["what"].lstrip("# ").replace("|", "/")
    hist = (m.get("history") or m.get("note") or "").replace("|", "/")
    print("| %s | %s | %s | %s |" % (sid, what[:160], "; ".join(det), hist))
