#!/bin/bash
# usage: seedtest.sh <worktree> <n> <seed-id> <check ids...>
# Confirms a seeded change (suite passes, demo fails with / passes without the change) and runs the
# given checks against the changed tree. Results go to /verif/seeded/<seed-id>/.
WT=$1; N=$2; SID=$3; shift 3
OUT=/verif/seeded/$SID; mkdir -p $OUT
cd $WT || exit 2
git checkout -q -- . ; git clean -fdq tests examples 2>/dev/null
cp out/$N/patch.diff $OUT/patch.diff
for f in out/$N/*; do case "$f" in *patch.diff) ;; *) cp -r "$f" $OUT/ ;; esac; done
DEMO=$(ls out/$N/*.rs | head -1); DNAME=$(basename $DEMO .rs)
{
echo "== apply"; git apply out/$N/patch.diff && echo applied
echo "== suite with change"; cargo nextest run --workspace --no-fail-fast --offline 2>&1 | grep -E "Summary|FAIL \[" | head -5
cp $DEMO tests/$DNAME.rs
echo "== demo with change (must fail)"; cargo test --offline --test $DNAME 2>&1 | grep -E "^test result|^test .* (FAILED|ok)|error\[" | head -8
rm -f tests/$DNAME.rs
for C in "$@"; do echo "== check $C on the changed tree"; (cd /verif && VERIF_REPO=$WT timeout 1200 ./check $C 2>&1 | tail -4); done
git checkout -q -- . ; git clean -fdq tests 2>/dev/null
cp $DEMO tests/$DNAME.rs
echo "== demo without change (must pass)"; cargo test --offline --test $DNAME 2>&1 | grep -E "^test result|error\[" | head -4
rm -f tests/$DNAME.rs
} 2>&1 | tee $OUT/confirm.log
