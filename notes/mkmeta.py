#!/usr/bin/env python3
"""Writes seeded/<id>/meta.json from notes.md and confirm.log (the last confirm.log of that id)."""
import json, os, re, sys
root = "/verif/seeded"
extra = json.load(open("/verif/notes/seeded_extra.json")) if os.path.exists("/verif/notes/seeded_extra.json") else {}
for sid in sorted(os.listdir(root)):
    d = os.path.join(root, sid)
    log = open(os.path.join(d, "confirm.log")).read() if os.path.exists(os.path.join(d, "confirm.log")) else ""
    notes = open(os.path.join(d, "notes.md")).read() if os.path.exists(os.path.join(d, "notes.md")) else ""
    prop = sid.split("-")[0]
    suite = re.search(r"Summary \[.*?\] (\d+) tests run: (\d+) passed", log)
    demos = re.findall(r"test result: (\w+)\. (\d+) passed; (\d+) failed", log)
    checks = {}
    for m in re.finditer(r"== check (C\d+) on the changed tree\n(.*?)(?=\n==|\Z)", log, re.S):
        body = m.group(2)
        v = re.findall(r"VIOLATION property=\S+ replay=\S+( no-failing-input-found)?", body)
        line = re.search(r"cases: (\d+).*?corr diffs (\d+); oracle fails (\d+)", body)
        checks[m.group(1)] = dict(
            verdict=("violation reported" + (" (no-failing-input-found)" if v and all(x for x in v) else " with failing input")) if v else "not detected",
            cases=int(line.group(1)) if line else None, corr_diffs=int(line.group(2)) if line else None,
            oracle_fails=int(line.group(3)) if line else None)
    meta = dict(
        id=sid, property=prop,
        origin="written by a fresh sub-agent that was given only the text of the property and a scratch worktree of the repository",
        what=notes.strip().split("\n")[0][:300] if notes else "",
        needs_to_manifest=(re.search(r"(?is)(what (?:it )?needs|needs to manifest|trigger)[^\n]*\n(.*?)(?:\n#|\n\*\*|\Z)", notes).group(2).strip()[:600] if re.search(r"(?is)(what (?:it )?needs|needs to manifest|trigger)", notes) else "see notes.md"),
        confirmed=dict(
            existing_suite_with_change="%s/%s passed" % (suite.group(2), suite.group(1)) if suite else "see confirm.log",
            demo_with_change="%s (%s passed, %s failed)" % demos[0] if demos else "see confirm.log",
            demo_without_change="%s (%s passed, %s failed)" % demos[-1] if len(demos) > 1 else "see confirm.log"),
        ran=["git apply patch.diff (scratch worktree)", "cargo nextest run --workspace --no-fail-fast --offline",
             "cargo test --offline --test <demo>", "VERIF_REPO=<worktree> ./check <ids>", "git checkout -- . ; demo again"],
        checks=checks)
    meta.update(extra.get(sid, {}))
    json.dump(meta, open(os.path.join(d, "meta.json"), "w"), indent=1)
    print(sid, {k: v["verdict"] for k, v in checks.items()})
