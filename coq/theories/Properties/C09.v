(* Properties/C09.v -- Body size limits are exact at every boundary and bodies arrive intact.
   Statements quantify over every reader / writer / handler, every L, S (small_body_len) and M as
   unbounded naturals, with the 2^64 side conditions explicit. *)
From SV Require Import Base.Bytes Base.IO Model.Conn Spec.ConnSpec Proofs.ConnP Model.Server Proofs.ServerP.
From SV Require Tie.ReadBodyTie.
From SV Require Import Base.SrcAst Generated.SourceParams Tie.ServerTie.

Section C09.
Variable payload : Type.
Variable resp : Type.
Variable read_req : cin -> (herr + (payload * reqmeta)) * cin.
Variable resp_code : resp -> N.
Variable write_out : resp -> bool -> option herr * bytes.
Variable resp_continue : resp.
Variable fix16 : bool.
Variable handler : payload -> bview -> hres resp.
Variable small_body_len : N.
Variable cache_dir : option bool.

Notation once := (handle_once payload resp read_req resp_code write_out resp_continue fix16 handler true small_body_len cache_dir).
Notation pend := (pending payload resp resp_code write_out resp_continue fix16 handler true cache_dir).

(* C09.1  declared L <= S: handed over in memory, without asking, exactly the next L bytes *)
Theorem c09_small_body_in_memory :
  forall c p c1 L ex,
    read_request payload read_req c = (inr p, c1) ->
    c_rs c1 = RS_Body (Some L) ex false false -> L <= small_body_len ->
    (ex = true -> c_ws c1 = WS_Response /\ fst (write_out resp_continue false) = None) ->
    L <= N.of_nat (length (cin_avail (c_in c1))) ->
    resp_code resp_continue = 100 ->
    oo_log _ _ (once c) =
      [mk_inv _ _ p (BV_Mem (firstn (N.to_nat L) (cin_avail (c_in c1))))
              (handler p (BV_Mem (firstn (N.to_nat L) (cin_avail (c_in c1)))))].
Proof. intros. eapply small_body_in_memory; eauto. Qed.

(* C09.2  a larger or undeclared-length body: the first run sees the pending view (the handler is
   asked first) *)
Theorem c09_large_asks_first :
  forall c p c1 len ex ch gz,
    read_request payload read_req c = (inr p, c1) ->
    c_rs c1 = RS_Body len ex ch gz ->
    match len with Some L => small_body_len < L | None => True end ->
    exists rest, oo_log _ _ (once c) =
      mk_inv _ _ p (match len with Some L => BV_PendingKnown L | None => BV_PendingUnknown end)
             (handler p (match len with Some L => BV_PendingKnown L | None => BV_PendingUnknown end)) :: rest.
Proof. intros. eapply large_asks_first; eauto. Qed.

(* C09.3  after "fetch the body (M)": declared L > M is refused (BodyTooLong => 413) before
   anything is read or created, without a second handler run *)
Theorem c09_over_limit_refused_single_run :
  forall p L M ex c1 d,
    c_rs c1 = RS_Body (Some L) ex false false -> M < L -> cache_dir = Some d ->
    handler p (BV_PendingKnown L) = HGetBody _ M ->
    let o := pend p (BV_PendingKnown L) c1 in
    oo_res _ _ o = Some BodyTooLong /\ oo_conn _ _ o = c1 /\
    oo_log _ _ o = [mk_inv _ _ p (BV_PendingKnown L) (HGetBody _ M)] /\ oo_files _ _ o = [].
Proof. intros. eapply over_limit_refused_single_run; eauto. Qed.

(* C09.4  ... and L <= M is accepted: the second run sees exactly the next L bytes *)
Theorem c09_within_limit_accepted :
  forall p L M c1,
    c_rs c1 = RS_Body (Some L) false false false -> L <= M -> cache_dir = Some true ->
    handler p (BV_PendingKnown L) = HGetBody _ M ->
    L <= N.of_nat (length (cin_avail (c_in c1))) ->
    let body := firstn (N.to_nat L) (cin_avail (c_in c1)) in
    oo_log _ _ (pend p (BV_PendingKnown L) c1) =
      [mk_inv _ _ p (BV_PendingKnown L) (HGetBody _ M); mk_inv _ _ p (BV_File body) (handler p (BV_File body))].
Proof. intros. eapply within_limit_accepted; eauto. Qed.

(* C09.5  undeclared length: accepted iff the actual length A <= M (M < 2^64-1), and for the
   largest limit 2^64-1 everything is accepted (no overflow: repair of D7) *)
Theorem c09_unknown_length_limit :
  forall c1 d M,
    c_rs c1 = RS_Body None false false false ->
    let A := N.of_nat (length (cin_avail (c_in c1))) in
    let r := fst (read_body_to_file resp resp_code write_out resp_continue fix16 c1 d M) in
    d = true -> in_err (ci_in (c_in c1)) = false -> M < u64_max ->
    (A <= M -> r = BR_File (cin_avail (c_in c1))) /\ (M < A -> r = BR_Err BodyTooLong).
Proof. intros. eapply unknown_length_limit; eauto. Qed.
Theorem c09_unknown_length_max_limit :
  forall c1,
    c_rs c1 = RS_Body None false false false -> in_err (ci_in (c_in c1)) = false ->
    N.of_nat (length (cin_avail (c_in c1))) <= u64_max ->
    fst (read_body_to_file resp resp_code write_out resp_continue fix16 c1 true u64_max) = BR_File (cin_avail (c_in c1)).
Proof. intros. eapply unknown_length_max_limit; eauto. Qed.

(* C09.6  never more than M body bytes end up in a file that is handed over (and at most M+1 are
   copied before the limit check); never more than S body bytes are held in memory *)
Theorem c09_disk_bound :
  forall c1 d M b,
    fst (read_body_to_file resp resp_code write_out resp_continue fix16 c1 d M) = BR_File b -> N.of_nat (length b) <= M.
Proof. intros. eapply disk_bound; eauto. Qed.
Theorem c09_memory_bound :
  forall c p b a,
    In (mk_inv _ _ p (BV_Mem b) a) (oo_log _ _ (once c)) -> N.of_nat (length b) <= small_body_len.
Proof. intros. eapply memory_bound; eauto. Qed.
(* C09.src  handle_http_conn_once (src/http_conn.rs) as TRANSLATED statement by statement ON THIS RUN
   (props/srcparams.py -> Generated/SourceParams.v: src_once), interpreted by Tie/ServerTie.v over the connection
   machine, IS the function the theorems above are about -- for every reader, writer, handler, connection state. *)
Theorem c09_handle_once_is_the_source :
  forall c, eval_once payload resp read_req resp_code write_out resp_continue fix16 handler small_body_len cache_dir src_once c = once c.
Proof. intros. apply handle_once_tie. Qed.
End C09.

(* the code before the repairs of D7 and D5 *)
Theorem c09_max_limit_overflow_refuted :
  fst (copy_unknown ((u64_max + 1) mod 18446744073709551616) u64_max (mk_cin [1;2;3] (mk_in [4;5] [] false))) = BR_File [].
Proof. exact d7_refuted. Qed.
Theorem c09_413_second_run_refuted :
  let o := handle_once unit N d5_reader (fun r => r) (fun r _ => (None, [r])) 100 true d5_handler false 4 (Some true)
                       (conn_new (mk_cin [80;1;2;3;4;5;6;7;8;9;10] (mk_in [] [] false))) in
  length (oo_log _ _ o) = 2%nat.
Proof. exact d5_refuted. Qed.

Example c09_nonvacuous :
  fst (copy_unknown (sat_succ u64_max) u64_max (mk_cin [1;2;3] (mk_in [4;5] [] false))) = BR_File [1;2;3;4;5].
Proof. exact d7_fixed. Qed.

Theorem c09_server_translation_complete : src_problems_conn_loop = 0%nat.
Proof. exact conn_loop_translated. Qed.

(* C09.src-body  HttpConn::read_body_to_vec and read_body_to_file (src/http_conn.rs) as TRANSLATED ON THIS RUN -- the arms
   of `match self.read_state` in source order with their patterns (the chunked / gzip refusal, the `if len > max_len`
   guard), errors and statements (the interim 100 Continue, the read state set BEFORE the read, Shutdown after a failed
   read) -- interpreted by Tie/ReadBodyTie.v over the connection machine, are the machine's body readers for every
   connection state, input, limit and cache-directory condition *)
Theorem c09_read_body_to_vec_is_the_source :
  forall (resp : Type) resp_code write_out resp_continue c,
    Tie.ReadBodyTie.eval_read_body resp resp_code write_out resp_continue Generated.SourceParams.src_read_body_to_vec None true c
    = Model.Conn.read_body_to_vec resp resp_code write_out resp_continue true c.
Proof. exact Tie.ReadBodyTie.read_body_to_vec_tie. Qed.
Theorem c09_read_body_to_file_is_the_source :
  forall (resp : Type) resp_code write_out resp_continue c dir_ok max_len,
    Tie.ReadBodyTie.eval_read_body resp resp_code write_out resp_continue Generated.SourceParams.src_read_body_to_file (Some max_len) dir_ok c
    = Model.Conn.read_body_to_file resp resp_code write_out resp_continue true c dir_ok max_len.
Proof. exact Tie.ReadBodyTie.read_body_to_file_tie. Qed.
Theorem c09_read_body_translation_complete : Generated.SourceParams.src_problems_read_body = 0%nat.
Proof. exact Tie.ReadBodyTie.read_body_translated. Qed.

Print Assumptions c09_small_body_in_memory.
Print Assumptions c09_large_asks_first.
Print Assumptions c09_over_limit_refused_single_run.
Print Assumptions c09_within_limit_accepted.
Print Assumptions c09_unknown_length_limit.
Print Assumptions c09_unknown_length_max_limit.
Print Assumptions c09_disk_bound.
Print Assumptions c09_memory_bound.
Print Assumptions c09_max_limit_overflow_refuted.
Print Assumptions c09_413_second_run_refuted.
Print Assumptions c09_handle_once_is_the_source.
Print Assumptions c09_server_translation_complete.
Print Assumptions c09_read_body_to_vec_is_the_source.
Print Assumptions c09_read_body_to_file_is_the_source.
Print Assumptions c09_read_body_translation_complete.
