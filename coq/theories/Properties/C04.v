(* Properties/C04.v -- Per-connection exchange integrity: one handler run and one response per request.
   Statements quantify over EVERY request reader, response writer and handler (Section variables),
   every connection state and every number of loop iterations. *)
From SV Require Import Base.Bytes Base.IO Model.Conn Spec.ConnSpec Proofs.ConnP Model.Server Proofs.ServerP Proofs.ExchangeP.
From SV Require Import Base.SrcAst Generated.SourceParams Tie.ServerTie.
From SV Require Import Generated.SourceParams Tie.ConnTie.
From SV Require Import Model.Response Model.ConnInst Proofs.ConnInstP.

Section C04.
Variable payload : Type.
Variable resp : Type.
Variable read_req : cin -> (herr + (payload * reqmeta)) * cin.
Variable resp_code : resp -> N.
Variable write_out : resp -> bool -> option herr * bytes.
Variable resp_continue : resp.
Variable fix16 : bool.
Variable error_response : herr -> resp.
Variable handler : payload -> bview -> hres resp.
Variable small_body_len : N.
Variable cache_dir : option bool.
Variable revoked : nat -> bool.

Notation once := (handle_once payload resp read_req resp_code write_out resp_continue fix16 handler true small_body_len cache_dir).
Notation loop := (conn_loop payload resp read_req resp_code write_out resp_continue fix16 error_response handler true small_body_len cache_dir revoked).
Notation fin := (finish payload resp resp_code write_out).

(* C04.1  The handler runs exactly once per request -- or exactly twice when its first answer was
   "fetch the body" and the body was fetched, the second time with the body in a file. *)
Theorem c04_handler_runs :
  forall c, log_shape payload resp (oo_log _ _ (once c)).
Proof. intros c. apply once_log_shape. Qed.

(* C04.2  What goes on the wire for a request is the handler's (last) answer and nothing else;
   "drop" sends nothing; a 4xx/5xx answer (a panic is the answer 500) is sent and closes. *)
Theorem c04_answer_is_sent :
  forall c log files r, c_ws c = WS_Response ->
    c_wire (oo_conn _ _ (fin c log files (HNormal _ r))) = c_wire c ++ snd (write_out r (is_5xx_close (resp_code r))).
Proof. intros. now apply finish_normal_wire. Qed.
Theorem c04_drop_sends_nothing :
  forall c log files,
    oo_conn _ _ (fin c log files (HDrop _)) = c /\ oo_res _ _ (fin c log files (HDrop _)) = Some Disconnected.
Proof. intros. apply finish_drop_silent. Qed.
Theorem c04_error_status_closes :
  forall c log files r, is_4xx_5xx (resp_code r) = true ->
    oo_res _ _ (fin c log files (HNormal _ r)) = Some Disconnected.
Proof. intros. now apply finish_error_status_closes. Qed.

(* C04.3  After any closing event (error, 4xx/5xx, drop, unread body) nothing more is read from
   the connection and the handler is not run again. *)
Theorem c04_loop_stops_after_closing :
  forall f k c log files,
    revoked k = false -> is_ready c = true -> closing payload resp (once c) = true ->
    let out := loop (S (S f)) k c log files in
    lo_log _ _ out = log ++ oo_log _ _ (once c) /\ lo_iters _ _ out = S k /\ lo_out_of_fuel _ _ out = false /\
    c_in (lo_conn _ _ out) = c_in (oo_conn _ _ (once c)).
Proof. intros f k c log files H1 H2 H3. apply loop_stops_after_closing; assumption. Qed.

(* C04.4  The connection loop terminates: with fuel above the number of input bytes it never runs
   out of fuel, provided each successfully read request consumed at least one byte. *)
Theorem c04_loop_terminates :
  (forall i x i', read_req i = (inr x, i') -> (length (cin_avail i') < length (cin_avail i))%nat) ->
  resp_code resp_continue = 100 ->
  forall fuel k c log files,
    (length (cin_avail (c_in c)) < fuel)%nat -> lo_out_of_fuel _ _ (loop fuel k c log files) = false.
Proof. intros H Hc fuel k c log files Hf. apply loop_terminates; assumption. Qed.

(* C04.5  Bodies are exact: a small declared body reaches the single handler run as exactly the
   next L bytes of the input. *)
Theorem c04_small_body_exact :
  forall c p c1 L ex,
    read_request payload read_req c = (inr p, c1) ->
    c_rs c1 = RS_Body (Some L) ex false false -> L <= small_body_len ->
    (ex = true -> c_ws c1 = WS_Response /\ fst (write_out resp_continue false) = None) ->
    L <= N.of_nat (length (cin_avail (c_in c1))) ->
    resp_code resp_continue = 100 ->
    oo_log _ _ (once c) =
      [mk_inv _ _ p (BV_Mem (firstn (N.to_nat L) (cin_avail (c_in c1))))
              (handler p (BV_Mem (firstn (N.to_nat L) (cin_avail (c_in c1)))))].
Proof. intros. eapply small_body_in_memory; eauto. Qed.
(* C04.7  The whole connection: the loop IS the sequence of exchanges -- handle_http_conn_once applied to the
   successive requests, in order, cut at the first closing event, at a revoked permit or at a connection that is
   not ready (unread body).  The invocation log and the temp-file log of the connection are the concatenations of
   the exchanges' logs (so the handler runs for request i+1 only after everything of request i, and never after a
   closing event); the final connection state is that of the last exchange plus, after an error other than a
   disconnect, the ONE error response of the loop's error path and the shutdown. *)
Notation exch := (exchanges payload resp read_req resp_code write_out resp_continue fix16 handler small_body_len cache_dir revoked).
Theorem c04_loop_is_exchange_sequence :
  forall fuel k c log files,
    let out := loop fuel k c log files in
    let xs := exch fuel k c in
    lo_log _ _ out = log ++ concat (map (oo_log _ _) xs) /\
    lo_files _ _ out = files ++ concat (map (oo_files _ _) xs) /\
    (lo_out_of_fuel _ _ out = false ->
     lo_conn _ _ out = after_last payload resp resp_code write_out error_response c xs).
Proof. intros. apply loop_is_exchanges. Qed.

(* C04.8  Responses appear in request order and nothing already sent is ever changed: the wire after every
   exchange extends the wire before the connection's first exchange (hence, exchange by exchange, the wire after
   exchange i extends the wire after exchange i-1). *)
Theorem c04_responses_in_request_order :
  forall n k c, Forall (fun o => extends (c_wire c) (c_wire (oo_conn _ _ o))) (exch n k c).
Proof. intros. apply exchanges_wire_ordered. Qed.

(* C04.9  Closed means closed: only the LAST exchange of a connection can have ended with an error, a drop, a
   4xx/5xx answer or an unread body; every earlier one returned Ok(()). *)
Theorem c04_only_the_last_exchange_closes :
  forall n k c xs o, exch n k c = xs ++ [o] -> Forall (fun x => oo_res _ _ x = None) xs.
Proof. intros n k c xs o H. eapply exchanges_only_last_closes. exact H. Qed.
(* C04.src  handle_http_conn_once and the loop of handle_http_conn (src/http_conn.rs) as TRANSLATED statement by statement ON THIS RUN
   (props/srcparams.py -> Generated/SourceParams.v: src_once, src_conn_loop), interpreted by Tie/ServerTie.v over the connection
   machine, IS the function the theorems above are about -- for every reader, writer, handler, connection state
   and permit history. *)
Theorem c04_handle_once_is_the_source :
  forall c, eval_once payload resp read_req resp_code write_out resp_continue fix16 handler small_body_len cache_dir src_once c = once c.
Proof. intros. apply handle_once_tie. Qed.
Theorem c04_conn_loop_is_the_source :
  forall fuel k c log files,
    eval_loop payload resp read_req resp_code write_out resp_continue fix16 error_response handler small_body_len cache_dir revoked
              src_once src_conn_loop fuel k c log files = loop fuel k c log files.
Proof. intros. apply conn_loop_tie. Qed.
End C04.

(* the code before the repair of D5 ran the handler twice on a direct answer *)
Theorem c04_double_run_refuted :
  let o := handle_once unit N d5_reader (fun r => r) (fun r _ => (None, [r])) 100 true d5_handler false 4 (Some true)
                       (conn_new (mk_cin [80;1;2;3;4;5;6;7;8;9;10] (mk_in [] [] false))) in
  length (oo_log _ _ o) = 2%nat.
Proof. exact d5_refuted. Qed.

Example c04_nonvacuous :
  let o := handle_once unit N d5_reader (fun r => r) (fun r _ => (None, [r])) 100 true d5_handler true 4 (Some true)
                       (conn_new (mk_cin [80;1;2;3;4;5;6;7;8;9;10] (mk_in [] [] false))) in
  length (oo_log _ _ o) = 1%nat /\ c_wire (oo_conn _ _ o) = [413].
Proof. exact d5_fixed. Qed.

(* C04.6  The concrete instance (head parser of src/head.rs + framing of src/request.rs + response
   writer of src/response.rs) meets the hypotheses of the theorems above: Response::new(100) has
   status 100; the request reader never panics / never runs out of fuel and keeps the buffer within
   8 KiB; every successfully read request consumed at least four bytes (so the loop terminates). *)
Theorem c04_instance_continue_code : r_code resp_continue_inst = 100.
Proof. exact continue_code_inst. Qed.
Theorem c04_instance_reader_total :
  forall url_parse i, buf_ok i ->
    fst (read_req_inst url_parse i) <> inl ModelPanic /\ fst (read_req_inst url_parse i) <> inl ModelOutOfFuel /\
    buf_ok (snd (read_req_inst url_parse i)).
Proof. exact read_req_inst_total. Qed.
Theorem c04_instance_reader_progress :
  forall url_parse i x i', buf_ok i ->
    read_req_inst url_parse i = (inr x, i') -> (length (cin_avail i') + 4 <= length (cin_avail i))%nat.
Proof. exact read_req_inst_progress. Qed.

(* C04.src  the connection's head buffer length, re-read from src/http_conn.rs ON THIS RUN, is the
   capacity the concrete instance of the connection machine uses *)
Theorem c04_source_conn_buffer : ConnInst.cap8k = N.to_nat src_conn_buf_len.
Proof. exact conn_buf_tie. Qed.

Theorem c04_translation_complete : src_problems_conn_buf = 0%nat.
Proof. exact conn_buf_translated. Qed.

Theorem c04_panic_answer_is_the_source :
  src_panic_status = Model.ConnInst.panic_code /\ src_panic_text = Model.ConnInst.panic_text /\ src_problems_spawn = 0%nat.
Proof. exact panic_answer_tie. Qed.
Theorem c04_server_translation_complete : src_problems_conn_loop = 0%nat.
Proof. exact conn_loop_translated. Qed.

Print Assumptions c04_handler_runs.
Print Assumptions c04_loop_is_exchange_sequence.
Print Assumptions c04_responses_in_request_order.
Print Assumptions c04_only_the_last_exchange_closes.
Print Assumptions c04_instance_continue_code.
Print Assumptions c04_instance_reader_total.
Print Assumptions c04_instance_reader_progress.
Print Assumptions c04_answer_is_sent.
Print Assumptions c04_drop_sends_nothing.
Print Assumptions c04_error_status_closes.
Print Assumptions c04_loop_stops_after_closing.
Print Assumptions c04_loop_terminates.
Print Assumptions c04_small_body_exact.
Print Assumptions c04_double_run_refuted.
Print Assumptions c04_source_conn_buffer.
Print Assumptions c04_translation_complete.
Print Assumptions c04_handle_once_is_the_source.
Print Assumptions c04_conn_loop_is_the_source.
Print Assumptions c04_server_translation_complete.
Print Assumptions c04_panic_answer_is_the_source.
