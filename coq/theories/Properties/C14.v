(* Properties/C14.v -- Header collections are ordered, case-insensitive multimaps of ASCII strings.
   This file contains only property-level statements; each is closed by [exact <lemma>]. *)
From SV Require Import Base.Bytes Base.BytesP Model.Headers Proofs.HeadersP Model.RustStr Model.Request Spec.Framing Proofs.FramingP
  Tie.HeadersTie Generated.SourceParams.

(* C14.1  Every operation of the model (transcribed from src/headers.rs) behaves exactly like the
   ordered multimap specification [spec_step] (filter-by-case-insensitive-name), for every state
   and every operation, hence for every operation sequence of any length. *)
Theorem c14_refines_multimap :
  forall (hs : hlist) (ops : list hop), run hstep hs ops = run spec_step hs ops.
Proof. exact run_refines. Qed.

(* C14.2  get_all: values of all and only the matching fields, in the order added. *)
Theorem c14_get_all_is_filter :
  forall hs name, get_all hs name = map snd (filter (fun h => eq_ic (fst h) name) hs).
Proof. exact get_all_spec. Qed.

(* C14.3  get_only answers only when exactly one field matches. *)
Theorem c14_get_only_iff_unique :
  forall hs name,
    get_only hs name =
    match map snd (filter (fun h => eq_ic (fst h) name) hs) with [v] => Some v | _ => None end.
Proof. exact get_only_spec. Qed.

(* C14.4  remove_all deletes all and only the matching fields, returns their values in order and
   leaves the rest in their original relative order. *)
Theorem c14_remove_all_spec :
  forall hs name,
    remove_all hs name =
    (filter (fun h => negb (eq_ic (fst h) name)) hs, map snd (filter (fun h => eq_ic (fst h) name) hs)).
Proof. exact remove_all_spec. Qed.

Theorem c14_remove_only_spec :
  forall hs name,
    remove_only hs name =
    (filter (fun h => negb (eq_ic (fst h) name)) hs,
     match map snd (filter (fun h => eq_ic (fst h) name) hs) with [v] => Some v | _ => None end).
Proof. exact remove_only_spec. Qed.

(* C14.5  matching is ASCII-case-insensitive equality and nothing else. *)
Theorem c14_match_is_case_insensitive_equality :
  forall a b, eq_ic a b = true <-> map lower a = map lower b.
Proof. exact eq_ic_iff. Qed.

Theorem c14_lookup_respects_case :
  forall hs n n', eq_ic n n' = true -> spec_values hs n = spec_values hs n'.
Proof. exact spec_values_ic. Qed.

(* C14.6  names and values are always pure ASCII: the string constructor accepts exactly the ASCII
   texts, and every reachable collection built from accepted strings holds only ASCII. *)
Theorem c14_constructor_ascii_only :
  forall chars,
    (forall s, ascii_try_from chars = Some s -> s = chars /\ forallb is_ascii s = true) /\
    (ascii_try_from chars = None <-> exists c, In c chars /\ 128 <= c).
Proof. exact ascii_try_from_spec. Qed.

Theorem c14_ascii_invariant :
  forall ops hs, all_ascii hs = true -> forallb op_ascii ops = true ->
                 all_ascii (fst (run hstep hs ops)) = true.
Proof. exact run_ascii. Qed.

(* C14.7  the oracle evaluated by the correspondence check on the implementation's observations is
   true of the model for every state and operation. *)
Theorem c14_oracle_sound :
  forall hs o, oracle_c14_step hs o (fst (hstep hs o)) (snd (hstep hs o)) = true.
Proof. exact oracle_c14_model. Qed.

(* C14.8  "Consequently the header list a handler sees is the list the client sent, in order, minus the
   framing fields the library consumes": for every method and every sent field list (any length, any
   order, any multiplicity of the consumed fields), when read_http_request's header processing accepts,
   the exposed list is the sent list filtered by "name is none of content-type / expect /
   transfer-encoding (ASCII-case-insensitively)" -- order kept, nothing else removed, nothing added;
   and the boolean oracle the correspondence check evaluates on the implementation's list holds. *)
Theorem c14_handler_sees_sent_minus_consumed :
  forall method hs r, values_fv hs = true -> request_of_head method hs = QOk r ->
    rq_headers r =
    filter (fun h => negb (eq_ic (fst h) n_content_type || eq_ic (fst h) n_expect ||
                           eq_ic (fst h) n_transfer_encoding)) hs.
Proof. exact exposed_headers. Qed.

Theorem c14_request_oracle_sound :
  forall method hs r, values_fv hs = true -> request_of_head method hs = QOk r ->
    oracle_c14_req hs (rq_headers r) = true.
Proof. exact oracle_c14_req_model. Qed.

(* Pre-repair code (Vec::swap_remove) violates C14.4 -- the witness of defect D11. *)
Theorem c14_swap_remove_refuted :
  remove_all_swap d11_witness [97] = ([([99],[52]); ([98],[50])], [[49]; [53]; [51]]) /\
  remove_all_swap d11_witness [97] <> (spec_rest d11_witness [97], spec_values d11_witness [97]).
Proof. exact remove_all_swap_refuted. Qed.

(* non-vacuity: a concrete non-trivial run *)
Example c14_nonvacuous :
  run hstep [] [OpAdd [97] [49]; OpAdd [98] [50]; OpAdd [65] [51]; OpGetAll [97]; OpGetOnly [97];
                OpRemoveAll [65]; OpGetOnly [98]]
  = ([([98],[50])], [RUnit; RUnit; RUnit; RList [[49];[51]]; ROpt None; RList [[49];[51]]; ROpt (Some [50])]).
Proof. vm_compute. reflexivity. Qed.

(* C14.src  HeaderList as read from src/headers.rs ON THIS RUN (props/srcparams.py checks the loop shapes of add,
   get_only, get_all, remove_only, remove_all against the ones Model/Headers.v transcribes and extracts what varies):
   every loop compares names with str::eq_ignore_ascii_case, and remove_all takes headers out with Vec::remove --
   the model's remove_all is the loop with the method the source names (Vec::swap_remove would be the loop of
   c14_swap_remove_refuted) *)
Theorem c14_compare_is_the_source : src_hdr_compare = m_eq_ignore_ascii_case.
Proof. exact headers_compare_tie. Qed.
Theorem c14_remove_all_is_the_source : remove_all_of_method src_hdr_remove_method = Some remove_all.
Proof. exact headers_remove_all_tie. Qed.
Theorem c14_translation_complete : src_problems_headers = 0%nat.
Proof. exact headers_translated. Qed.

Print Assumptions c14_refines_multimap.
Print Assumptions c14_get_all_is_filter.
Print Assumptions c14_get_only_iff_unique.
Print Assumptions c14_remove_all_spec.
Print Assumptions c14_remove_only_spec.
Print Assumptions c14_match_is_case_insensitive_equality.
Print Assumptions c14_lookup_respects_case.
Print Assumptions c14_constructor_ascii_only.
Print Assumptions c14_ascii_invariant.
Print Assumptions c14_oracle_sound.
Print Assumptions c14_swap_remove_refuted.
Print Assumptions c14_handler_sees_sent_minus_consumed.
Print Assumptions c14_request_oracle_sound.
Print Assumptions c14_compare_is_the_source.
Print Assumptions c14_remove_all_is_the_source.
Print Assumptions c14_translation_complete.
