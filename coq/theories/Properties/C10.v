(* Properties/C10.v -- Upload temp files never outlive their request.
   LEVEL: partial.  The temp-file effects (create / drop inside the body reader / hand-over to the
   request / drop with the request) were transcribed into Model/Server.v from the Rust scopes by
   hand; that Rust really runs those drops (unwinding in the blocking pool, futures dropped by the
   executor) is observed by the correspondence check (cache directory listing), not proved. *)
From SV Require Import Base.Bytes Base.IO Model.Conn Spec.ConnSpec Proofs.ConnP Model.Server Proofs.ServerP.
From SV Require Import Base.SrcAst Generated.SourceParams Tie.ServerTie.

Section C10.
Variable payload : Type.
Variable resp : Type.
Variable read_req : cin -> (herr + (payload * reqmeta)) * cin.
Variable resp_code : resp -> N.
Variable write_out : resp -> bool -> option herr * bytes.
Variable resp_continue : resp.
Variable fix16 : bool.
Variable error_response : herr -> resp.
Variable handler : payload -> bview -> hres resp.
Variable small_body_len : N.
Variable cache_dir : option bool.
Variable revoked : nat -> bool.

Notation once := (handle_once payload resp read_req resp_code write_out resp_continue fix16 handler true small_body_len cache_dir).
Notation loop := (conn_loop payload resp read_req resp_code write_out resp_continue fix16 error_response handler true small_body_len cache_dir revoked).

(* C10.1  On every path through the handling of one request -- completed and handled, handler
   answer of any kind, body over the limit, client end-of-stream at any offset, file creation or
   write failure -- every created temp file is dropped exactly once: inside the reader when the
   read fails, or with the request after it was handed over. *)
Theorem c10_request_files_balanced :
  forall c, balanced (oo_files _ _ (once c)) = true.
Proof. intros. apply once_files_balanced. Qed.

(* C10.2  After the connection loop ends -- however it ends -- no temp file created for this
   connection is alive. *)
Theorem c10_connection_end_no_live_file :
  forall fuel k c log files n,
    live files n = n -> live (lo_files _ _ (loop fuel k c log files)) n = n.
Proof. intros. now apply loop_no_live_file. Qed.
(* C10.src  handle_http_conn_once and the loop of handle_http_conn (src/http_conn.rs) as TRANSLATED statement by statement ON THIS RUN
   (props/srcparams.py -> Generated/SourceParams.v: src_once, src_conn_loop), interpreted by Tie/ServerTie.v over the connection
   machine, IS the function the theorems above are about -- for every reader, writer, handler, connection state
   and permit history. *)
Theorem c10_handle_once_is_the_source :
  forall c, eval_once payload resp read_req resp_code write_out resp_continue fix16 handler small_body_len cache_dir src_once c = once c.
Proof. intros. apply handle_once_tie. Qed.
Theorem c10_conn_loop_is_the_source :
  forall fuel k c log files,
    eval_loop payload resp read_req resp_code write_out resp_continue fix16 error_response handler small_body_len cache_dir revoked
              src_once src_conn_loop fuel k c log files = loop fuel k c log files.
Proof. intros. apply conn_loop_tie. Qed.
End C10.

Example c10_nonvacuous :
  balanced [FCreate; FHandOver; FDropWithRequest] = true /\ balanced [FCreate; FDropInReader] = true /\
  balanced [FCreate; FHandOver] = false /\ live [FCreate; FHandOver] 0 = 1%nat.
Proof. repeat split. Qed.

Theorem c10_server_translation_complete : src_problems_conn_loop = 0%nat.
Proof. exact conn_loop_translated. Qed.

Print Assumptions c10_request_files_balanced.
Print Assumptions c10_connection_end_no_live_file.
Print Assumptions c10_handle_once_is_the_source.
Print Assumptions c10_conn_loop_is_the_source.
Print Assumptions c10_server_translation_complete.
