(* Properties/C17.v -- Every log line is one valid JSON object that preserves the tag values.
   This file contains only property-level statements; each is closed by [exact <lemma>].
   Model: Model/Json.v (write_json_string, Display for TagValue / TagList, LogEvent::write_jsonl).
   Independent reader: Spec/Json8259.v (RFC 8259 flat objects, RFC 3629 UTF-8). *)
From SV Require Import Base.Bytes Base.BytesP Base.SrcAst Spec.Json8259 Spec.Civil Model.Json Model.Time Proofs.JsonP
  Tie.FmtEval Tie.JsonlBindsText Tie.JsonTie Generated.SourceParams.
From Coq Require Import ZArith.

(* C17.1  For ALL tag lists (any length) whose names and string values are arbitrary strings over
   all Unicode scalar values, whose integer values are arbitrary (every width, 128-bit included),
   with booleans, null, and float texts in the image of Rust's Display ([float_text_ok]: the
   finite-number grammar or NaN / inf / -inf), for every level, every time_ns and every plain
   timestamp text: the line is  { body }  followed by exactly one LF, contains no other LF, and
   the independent RFC 8259 reader returns an object whose members are, in order, time, level, one
   member per tag with that tag's name and value, and time_ns. *)
Theorem c17_jsonl_roundtrip :
  forall (time : text) (time_ns : N) (lvl : level) (tags : list tag),
    time_text_ok time = true -> tags_wf tags = true ->
    (exists body, write_jsonl time time_ns lvl tags = (123 :: body ++ [125]) ++ [10] /\
                  ~ In 10 (123 :: body ++ [125])) /\
    parse_line (write_jsonl time time_ns lvl tags) = Some (expected_members time time_ns lvl tags).
Proof. exact jsonl_roundtrip_lemma. Qed.

(* C17.2  The same on the bytes written: the UTF-8 encoding of the line decodes (strict RFC 3629)
   and reads back to the same members. *)
Theorem c17_jsonl_roundtrip_utf8 :
  forall (time : text) (time_ns : N) (lvl : level) (tags : list tag),
    time_text_ok time = true -> tags_wf tags = true ->
    parse_line_utf8 (utf8_encode (write_jsonl time time_ns lvl tags))
    = Some (expected_members time time_ns lvl tags).
Proof. exact jsonl_roundtrip_utf8_lemma. Qed.

(* C17.3  float_text_grammar as a hypothesis about the external function Display for f32/f64:
   for every float type F and display function satisfying it, events built from source values
   (strings, booleans, integers, floats, null) round-trip. *)
Theorem c17_jsonl_roundtrip_float_display :
  forall (F : Type) (float_display : F -> text),
    (forall x, float_text_ok (float_display x) = true) ->
    forall time time_ns lvl (src : list (text * source_value F)),
      time_text_ok time = true -> forallb (source_wf F) src = true ->
      parse_line_utf8 (utf8_encode (write_jsonl time time_ns lvl (tags_of F float_display src)))
      = Some (expected_members time time_ns lvl (tags_of F float_display src)).
Proof. exact jsonl_roundtrip_sources. Qed.

(* C17.4  A tag value can never add members: the object always has exactly 3 + #tags members. *)
Theorem c17_no_breakout_members :
  forall time time_ns lvl tags,
    time_text_ok time = true -> tags_wf tags = true ->
    exists ms, parse_line (write_jsonl time time_ns lvl tags) = Some ms /\
               length ms = (3 + length tags)%nat.
Proof. exact no_breakout_members_lemma. Qed.

(* C17.5  A string can never break out of its quotation marks or split the line: started right
   after the opening quotation mark, the RFC 8259 string reader consumes exactly the text
   write_json_string wrote, stops at the writer's closing quotation mark WHATEVER follows it, and
   returns the original string; the escaped text contains no LF. *)
Theorem c17_no_breakout_string :
  forall (s rest : text),
    is_text s = true ->
    parse_string_body (escape_text s ++ 34 :: rest) = Some (s, rest) /\ ~ In 10 (escape_text s).
Proof. exact no_breakout_string_lemma. Qed.

(* C17.6  The oracle evaluated by the correspondence check on the implementation's bytes is true of
   the model for every event, and it means what the property says. *)
Theorem c17_oracle_sound :
  forall time time_ns lvl tags,
    time_text_ok time = true -> length time = 20%nat -> tags_wf tags = true ->
    oracle_c17_utf8 lvl tags (utf8_encode (write_jsonl time time_ns lvl tags)) = true.
Proof. exact oracle_c17_sound_lemma. Qed.

Theorem c17_oracle_meaning :
  forall lvl tags line,
    oracle_c17 lvl tags line = true ->
    exists body ms, (line = body ++ [10]) /\ (~ In 10 body) /\ (parse_json_text body = Some ms) /\
                    (length ms = (3 + length tags)%nat).
Proof. exact oracle_c17_meaning. Qed.

(* C17.7  The driver instantiates the model with the time text and time_ns read off the
   implementation's line; on a model line these are exactly the parameters. *)
Theorem c17_line_params :
  forall time time_ns lvl tags,
    length time = 20%nat ->
    line_time (write_jsonl time time_ns lvl tags) = time /\
    line_time_ns (write_jsonl time time_ns lvl tags) = time_ns.
Proof. exact line_params_of_model. Qed.

(* C17.8  UTF-8 (RFC 3629): strict decoding inverts encoding on every scalar-value text. *)
Theorem c17_utf8_roundtrip :
  forall s, is_text s = true -> utf8_decode (utf8_encode s) = Some s.
Proof. exact utf8_roundtrip. Qed.

(* The code before the repair of D13 (Rust Debug formatting of names and string values; NaN and
   infinities written bare) violates C17.1 on well-formed inputs -- the witnesses of defect D13. *)
Theorem c17_debug_escape_refuted :
  time_text_ok sample_time = true /\
  tags_wf [([107], VStr [1])] = true /\ tags_wf [([107], VStr [0])] = true /\ tags_wf [([107], VStr [127])] = true /\
  parse_line (write_jsonl_prefix sample_time 0 LInfo [([107], VStr [1])]) = None /\
  parse_line (write_jsonl_prefix sample_time 0 LInfo [([107], VStr [0])]) = None /\
  parse_line (write_jsonl_prefix sample_time 0 LInfo [([107], VStr [127])]) = None /\
  parse_line (write_jsonl_prefix sample_time 0 LInfo [([107; 1], VBool true)]) = None.
Proof. exact debug_escape_refuted_lemma. Qed.

Theorem c17_bare_nonfinite_refuted :
  tags_wf [([107], VFloat t_NaN)] = true /\
  parse_line (write_jsonl_prefix sample_time 0 LInfo [([107], VFloat t_NaN)]) = None /\
  parse_line (write_jsonl_prefix sample_time 0 LInfo [([107], VFloat t_inf)]) = None /\
  parse_line (write_jsonl_prefix sample_time 0 LInfo [([107], VFloat t_neg_inf)]) = None.
Proof. exact bare_nonfinite_refuted_lemma. Qed.

(* non-vacuity: the hypotheses are satisfiable and the conclusion is a concrete parse *)
Example c17_nonvacuous :
  time_text_ok sample_time = true /\
  tags_wf [([107], VStr [34; 1; 10; 128512]); ([110], VInt (-170141183460469231731687303715884105728)%Z);
           ([102], VFloat [45; 48; 46; 53]); ([120], VFloat t_neg_inf); ([98], VBool true); ([122], VNull)] = true /\
  parse_line (write_jsonl sample_time 7 LError
     [([107], VStr [34; 1; 10; 128512]); ([110], VInt (-170141183460469231731687303715884105728)%Z);
      ([102], VFloat [45; 48; 46; 53]); ([120], VFloat t_neg_inf); ([98], VBool true); ([122], VNull)])
  = Some [(k_time, JString sample_time); (k_level, JString (level_text LError));
          ([107], JString [34; 1; 10; 128512]);
          ([110], JNumber true 170141183460469231731687303715884105728 0);
          ([102], JNumber true 5 (-1)); ([120], JString t_neg_inf); ([98], JTrue); ([122], JNull);
          (k_time_ns, JNumber false 7 0)].
Proof. vm_compute. repeat split; reflexivity. Qed.

(* C17.src  the serialiser as TRANSLATED from the source ON THIS RUN (props/srcparams.py -> Generated/SourceParams.v),
   interpreted by Tie/JsonTie.v, is the model the theorems above are about:
   - write_json_string (src/log/tag_value.rs): quote, the `match c` arms in source order for every char, quote;
   - impl Display for TagValue: the arm of every variant (the twelve integer variants print with Display, Str and
     String go through write_json_string, Float is quoted iff it ends with NaN or inf, Null is `null`);
   - LogEvent::write_jsonl (src/log/logger.rs): the let bindings, the branch on tags.is_empty(), the two format
     strings segment by segment with their {:0w} widths, written with writeln!. *)
Theorem c17_escape_is_the_source : forall c, eval_json_arms src_json_arms c = Some (escape_char c).
Proof. exact json_escape_tie. Qed.
Theorem c17_write_json_string_is_the_source : forall s, eval_write_json_string s = Some (write_json_string s).
Proof. exact write_json_string_tie. Qed.
Theorem c17_tag_value_display_is_the_source :
  (forall s, eval_tv_arms src_tagvalue_arms v_Str s = Some (display_value (VStr s))) /\
  (forall s, eval_tv_arms src_tagvalue_arms v_String s = Some (display_value (VStr s))) /\
  (forall b : bool, eval_tv_arms src_tagvalue_arms v_Bool (if b then t_true else t_false) = Some (display_value (VBool b))) /\
  (forall z name, In name int_variants -> eval_tv_arms src_tagvalue_arms name (display_int z) = Some (display_value (VInt z))) /\
  (forall t, eval_tv_arms src_tagvalue_arms v_Float t = Some (display_value (VFloat t))) /\
  eval_tv_arms src_tagvalue_arms v_Null [] = Some (display_value VNull) /\
  map fst src_tagvalue_arms = [v_Str; v_String; v_Bool] ++ int_variants ++ [v_Float; v_Float; v_Null].
Proof. exact tagvalue_display_tie. Qed.
Theorem c17_write_jsonl_is_the_source : forall t lvl tags ns,
  eval_write_jsonl t lvl tags ns = Some (write_jsonl (fmt_iso t) ns lvl tags).
Proof. exact write_jsonl_tie. Qed.
Theorem c17_write_jsonl_bindings_are_the_source : src_jsonl_binds = expected_jsonl_binds.
Proof. exact jsonl_binds_tie. Qed.
Theorem c17_translation_complete : src_problems_json = 0%nat /\ src_problems_jsonl = 0%nat.
Proof. exact (conj json_translated jsonl_translated). Qed.

Print Assumptions c17_jsonl_roundtrip.
Print Assumptions c17_jsonl_roundtrip_utf8.
Print Assumptions c17_jsonl_roundtrip_float_display.
Print Assumptions c17_no_breakout_members.
Print Assumptions c17_no_breakout_string.
Print Assumptions c17_oracle_sound.
Print Assumptions c17_oracle_meaning.
Print Assumptions c17_line_params.
Print Assumptions c17_utf8_roundtrip.
Print Assumptions c17_debug_escape_refuted.
Print Assumptions c17_bare_nonfinite_refuted.
Print Assumptions c17_escape_is_the_source.
Print Assumptions c17_write_json_string_is_the_source.
Print Assumptions c17_tag_value_display_is_the_source.
Print Assumptions c17_write_jsonl_is_the_source.
Print Assumptions c17_write_jsonl_bindings_are_the_source.
Print Assumptions c17_translation_complete.
