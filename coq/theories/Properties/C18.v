(* Properties/C18.v -- Log events carry the right tags and reach the installed logger exactly once.
   This file contains only property-level statements; each is closed by [exact <lemma>].
   Model: Model/Log.v -- a transition system over (thread, action) pairs; theorems quantify over
   ALL states or ALL action lists, i.e. all interleavings of the threads' calls.
   Level: partial -- linearizability of std::sync::Mutex / mpsc and the isolation of thread_local!
   storage are guarantees of Rust std that the model assumes (one call = one atomic step on the
   logger state; THREAD_LOCAL_TAGS is a per-thread map). *)
From SV Require Import Base.Bytes Base.BytesP Spec.Json8259 Model.Json Model.Log Proofs.LogP.
From SV Require Import Generated.SourceParams Tie.LogTie.
From Coq Require Import ZArith Sorted.

(* C18.1  The model (Vec::sort_by_key = stable insertion sort) refines the specification (the fixed
   order of the property) on every run. *)
Theorem c18_refines_spec :
  forall (st : state) (acts : list (N * act)), run st acts = spec_run st acts.
Proof. exact run_refines. Qed.

(* C18.2  one_event_per_call + tags_exact + levels + returned value, in one equation.  In ANY state
   (so: at any point of any interleaving), a logging call -- error/info/debug, internal::log,
   log_response, or the closing half of log_request_and_response -- made while the installed
   logger's receiver is alive delivers EXACTLY ONE event, to the logger installed at that instant
   (the stdout default when none is), at the call's level, whose tags are the fixed order of
   (tags passed by the call ++ the calling thread's own tags); it returns the call's Ok value.
   When the installed logger has stopped it delivers nothing and returns the error. *)
Theorem c18_one_event_per_call :
  forall st t a lvl call_tags ok,
    call_of a = Some (lvl, call_tags, ok) ->
    snd (step st (t, a)) =
    if logger_alive st
    then (ok, [(dest_now st, lvl, spec_order (call_tags ++ own_step (get_tags st t) a))])
    else (RStopped, []).
Proof. exact step_log_spec. Qed.

Theorem c18_other_calls_send_nothing :
  forall st t a, call_of a = None -> snd (snd (step st (t, a))) = [].
Proof. exact step_nonlog_events. Qed.

(* over whole runs: the number of events delivered in a run equals the number of logging calls
   made while their logger was alive *)
Theorem c18_events_counted :
  forall h st, length (flat_map snd (snd (run st h))) = list_sum (map delivered (annotate st h)).
Proof. exact events_counted. Qed.

(* C18.3  tags_exact, isolation half: after ANY history (all threads interleaved arbitrarily) the
   tags attached to thread t are a function of t's OWN actions in that history -- actions of other
   threads do not occur in [own_tags]. *)
Theorem c18_tags_exact :
  forall (h : list (N * act)) (st : state) (t : N),
    get_tags (fst (run st h)) t =
    fold_left own_step (map snd (filter (fun ta => fst ta =? t) h)) (get_tags st t).
Proof. exact tags_isolated. Qed.

(* C18.4  priority_order: the general lemma on stable sorting by a key, and its instance. *)
Theorem c18_stable_sort_by_key :
  forall (A : Type) (key : A -> N) (ks : list N),
    StronglySorted N.lt ks -> (forall x, In (key x) ks) ->
    forall l, stable_sort key l = flat_map (fun v => filter (fun x => key x =? v) l) ks.
Proof. exact (@stable_sort_buckets). Qed.

Theorem c18_priority_order :
  forall l : list tag,
    sort_tags l =
    filter (named k_msg) l ++ filter (named k_http_method) l ++ filter (named k_path) l ++
    filter (named k_request_body_len) l ++ filter (named k_request_body) l ++
    filter (named k_response_body_len) l ++ filter unnamed l.
Proof. exact sort_tags_explicit. Qed.

(* C18.5  wrapper_returns_response: log_response / log_request_and_response return the handler's
   own response (Ok), the error's response, or a bare 500; info for Ok and error otherwise; the
   event carries the code tag. *)
Theorem c18_wrapper_returns_response :
  forall st t a hr,
    (a = ALogResponse hr \/ (exists d, a = AWrapEnd d hr) \/ (exists q d, a = AWrapped q d hr)) ->
    snd (step st (t, a)) =
    if logger_alive st
    then (RResp (response_of hr),
          [(dest_now st, level_of hr, spec_order (response_call_tags hr ++ own_step (get_tags st t) a))])
    else (RStopped, []).
Proof. exact wrapper_spec. Qed.

Theorem c18_wrapper_response_cases :
  forall hr,
    match hr with
    | HOk r => response_of hr = r /\ level_of hr = LInfo
    | HErr _ _ _ (Some r) => response_of hr = r /\ level_of hr = LError
    | HErr _ _ _ None => response_of hr = bare_500 /\ level_of hr = LError
    end.
Proof. exact response_of_cases. Qed.

Theorem c18_wrapper_logs_code :
  forall hr, In (k_code, n_value (r_code (response_of hr))) (response_call_tags hr).
Proof. exact response_call_tags_code. Qed.

(* C18.6  wrapper_starts_clean: whatever tags the thread had, after the opening half of the wrapper
   it has exactly the request's tags, and the wrapper's event carries exactly the response tags,
   the request tags and duration_ms. *)
Theorem c18_wrapper_starts_clean :
  forall st t q,
    get_tags (fst (step st (t, AWrapBegin q))) t = request_tags q /\
    snd (step st (t, AWrapBegin q)) = (RUnit, []).
Proof. exact wrap_begin_clean. Qed.

Theorem c18_wrapped_event :
  forall st t q d hr,
    snd (step st (t, AWrapped q d hr)) =
    if logger_alive st
    then (RResp (response_of hr),
          [(dest_now st, level_of hr,
            spec_order (response_call_tags hr ++ request_tags q ++ [(k_duration_ms, n_value d)]))])
    else (RStopped, []).
Proof. exact wrapped_clean. Qed.

Theorem c18_wrapped_is_begin_then_end :
  forall st t q d hr,
    let st1 := fst (step st (t, AWrapBegin q)) in
    snd (step st (t, AWrapped q d hr)) = snd (step st1 (t, AWrapEnd d hr)) /\
    (forall t', get_tags (fst (step st (t, AWrapped q d hr))) t' = get_tags (fst (step st1 (t, AWrapEnd d hr))) t') /\
    glob (fst (step st (t, AWrapped q d hr))) = glob (fst (step st1 (t, AWrapEnd d hr))).
Proof. exact wrapped_is_begin_end. Qed.

(* C18.7  stopped_logger_is_error_not_panic *)
Theorem c18_stopped_logger_is_error_not_panic :
  forall st t a id c,
    glob st = GSome id -> mem_N id (gone st) = true -> call_of a = Some c ->
    snd (step st (t, a)) = (RStopped, []) /\ glob (fst (step st (t, a))) = GSome id.
Proof. exact stopped_logger. Qed.

(* C18.8  second_install_refused, and an install succeeds when no logger is set (a default stdout
   logger is replaced) *)
Theorem c18_second_install_refused :
  forall st t id id', glob st = GSome id -> step st (t, AInstall id') = (st, (RRefused, [])).
Proof. exact second_install. Qed.

Theorem c18_install_when_free :
  forall st t id,
    (forall id0, glob st <> GSome id0) ->
    snd (step st (t, AInstall id)) = (RInstalled, []) /\ glob (fst (step st (t, AInstall id))) = GSome id.
Proof. exact install_when_free. Qed.

(* C18.9  guard discipline: from the initial state (more generally from any state satisfying the
   invariant "a guard is alive iff a logger is set"), no run ever panics -- in particular
   the assert!(is_some()) in ClearGlobalLoggerOnDrop::drop never fails. *)
Theorem c18_no_panic :
  forall h st, inv st -> Forall (fun o => fst o <> RPanic) (snd (run st h)) /\ inv (fst (run st h)).
Proof. exact run_no_panic. Qed.

(* C18.10  the oracle evaluated by the correspondence check on the implementation's observations is
   true of the model on every run *)
Theorem c18_oracle_sound :
  forall acts st, oracle_c18 st acts (snd (run st acts)) = true.
Proof. exact oracle_c18_model. Qed.

Theorem c18_oracle_own_tags_sound :
  forall acts, oracle_own_tags acts = true.
Proof. exact oracle_own_tags_model. Qed.

(* C18.11  The oracle the driver actually evaluates works on what the harness observes: the result
   of the call and, per delivered event, its destination and the BYTES rendered by write_jsonl (or
   printed by the stdout default logger).  It demands the specification's result and, per event,
   the C17 oracle (the line parses as RFC 8259 JSON to exactly the specification's level and tags,
   in order).  It is true of the model's own observations in every well-formed state, for every
   well-formed action, rendered with any timestamp; and well-formedness is preserved by steps. *)
Theorem c18_oracle_lines_sound :
  forall st t a time time_ns,
    state_wf st = true -> act_wf a = true -> time_text_ok time = true -> length time = 20%nat ->
    oracle_c18_lines_step st (t, a)
      (fst (snd (step st (t, a))), map (render_event time time_ns) (snd (snd (step st (t, a))))) = true.
Proof. exact oracle_c18_lines_model. Qed.

Theorem c18_wf_preserved :
  forall st t a, state_wf st = true -> act_wf a = true -> state_wf (fst (step st (t, a))) = true.
Proof. exact step_state_wf. Qed.

(* non-vacuity: a concrete three-thread run -- thread tags stay with their thread, the second
   install is refused, the wrapper starts clean and returns the bare 500, the stopped logger gives
   the error result, the guard drop succeeds, the last call goes to the stdout default *)
Example c18_nonvacuous :
  inv init_state /\
  snd (run init_state demo_acts) =
  [ (RUnit, []); (RUnit, []); (RInstalled, []); (RRefused, []);
    (ROk, [(DLogger 7, LInfo, [(k_msg, VStr [104; 105]); (k_path, VStr [47]); ([120], VBool true); ([97], VInt 1)])]);
    (RResp bare_500,
     [(DLogger 7, LError,
       [(k_msg, VStr [111; 111; 112; 115]); (k_http_method, VStr [71; 69; 84]); (k_path, VStr [47]);
        (k_request_body, VStr t_pending); (k_response_body_len, VInt 0);
        ([101], VNull); (k_code, VInt 500); (k_request_id, VInt 5); (k_duration_ms, VInt 0)])]);
    (RUnit, []); (RStopped, []); (RDropped, []);
    (ROk, [(DDefault, LDebug, [])]) ].
Proof. vm_compute. split; reflexivity. Qed.

(* C18.src  the sort key of log(), re-read from src/log/logger.rs ON THIS RUN, is the model's prio *)
Theorem c18_source_priority_table :
  forall name, prio name = prio_lookup name src_log_prio_table src_log_prio_default.
Proof. exact log_prio_tie. Qed.

Theorem c18_translation_complete : src_problems_log_prio = 0%nat.
Proof. exact log_prio_translated. Qed.

Print Assumptions c18_refines_spec.
Print Assumptions c18_one_event_per_call.
Print Assumptions c18_other_calls_send_nothing.
Print Assumptions c18_events_counted.
Print Assumptions c18_tags_exact.
Print Assumptions c18_stable_sort_by_key.
Print Assumptions c18_priority_order.
Print Assumptions c18_wrapper_returns_response.
Print Assumptions c18_wrapper_response_cases.
Print Assumptions c18_wrapper_logs_code.
Print Assumptions c18_wrapper_starts_clean.
Print Assumptions c18_wrapped_event.
Print Assumptions c18_wrapped_is_begin_then_end.
Print Assumptions c18_stopped_logger_is_error_not_panic.
Print Assumptions c18_second_install_refused.
Print Assumptions c18_install_when_free.
Print Assumptions c18_no_panic.
Print Assumptions c18_oracle_sound.
Print Assumptions c18_oracle_own_tags_sound.
Print Assumptions c18_oracle_lines_sound.
Print Assumptions c18_wf_preserved.
Print Assumptions c18_source_priority_table.
Print Assumptions c18_translation_complete.
