(* Properties/C20.v -- Status helpers and error-to-response mapping are faithful.
   The tables [ctor_table], [err_table], [close_lo], [close_hi] are regenerated from the repository
   source on every run (Generated/StatusTables.v); these theorems are re-checked against them. *)
From SV Require Import Base.Bytes Model.Tables Spec.ErrorClasses Generated.StatusTables Proofs.TablesP.
From SV Require Import Base.IO Model.Headers Model.Response Spec.RespParse Model.Conn Model.ConnInst Proofs.ConnInstP.

(* C20.0  the translator understood every constructor, variant and arm it met *)
Theorem c20_translation_clean : translation_problems = O.
Proof. exact translation_clean. Qed.

(* C20.1  every constructor named after a status code produces exactly that code *)
Theorem c20_ctor_code_matches_name :
  forall n c, In (n, c) ctor_table -> suffix_code n = Some c.
Proof. exact ctor_code_matches_name. Qed.

(* C20.2  the error table and the documented classes cover the same variants *)
Theorem c20_every_variant_classified :
  forall e, In e err_table -> exists cls, lookup_class spec_classes (e_name e) = Some cls.
Proof. exact every_variant_classified. Qed.
Theorem c20_every_class_has_variant :
  forall n cls, In (n, cls) spec_classes -> exists e, In e err_table /\ e_name e = n.
Proof. exact every_class_has_variant. Qed.

(* C20.3  client-caused errors: their specific status; the diagnostic names only the error kind
   and does not depend on any payload *)
Theorem c20_client_errors_specific :
  forall e code, In e err_table -> lookup_class spec_classes (e_name e) = Some (ClientErr code) ->
  forall kd tx, exists body,
    respond e kd tx = Some (code, body) /\
    (body = str_HttpError ++ e_name e \/ code = 413) /\
    respond e kd tx = respond e [] [].
Proof. exact client_errors_specific. Qed.

(* C20.4  server-caused errors: 500, and the response is the same whatever the underlying error
   kind and text are (so it cannot contain them) *)
Theorem c20_server_errors_opaque :
  forall e, In e err_table -> lookup_class spec_classes (e_name e) = Some ServerErr ->
  forall kd tx, exists body,
    respond e kd tx = Some (500, body) /\ respond e kd tx = respond e [] [].
Proof. exact server_errors_opaque. Qed.

Theorem c20_disconnected_drops :
  forall e, In e err_table -> lookup_class spec_classes (e_name e) = Some DropConn ->
  forall kd tx, respond e kd tx = None.
Proof. exact disconnected_drops. Qed.

(* C20.5  every 5xx response written through the connection is written with close = true
   (that close = true puts `connection: close` in the head and shuts the write side is C06/C05) *)
Theorem c20_fivexx_close :
  forall code, 500 <= code <= 599 -> in_close_range close_lo close_hi code = true.
Proof. exact fivexx_close. Qed.

(* C20.5b  ... and, composing the connection machine (C05), the serialiser (C06) and that rule: for
   the concrete instance, every 5xx response that is sent through a connection parses back with
   the field `connection: close` among its header fields, and the write side is shut afterwards. *)
Theorem c20_fivexx_marked_close_on_wire :
  forall url_parse reason ct_text (c : conn) (r : response),
    c_ws c = WS_Response -> 500 <= r_code r <= 599 ->
    head_ok reason ct_text r = true -> collides r = false ->
    let '(res, c') := cstep_inst url_parse reason ct_text true c (OWrite r) in
    res = CR_Ok ->
    exists delta,
      c_wire c' = c_wire c ++ delta /\
      parse_response delta = Some (r_code r, all_fields ct_text r true, body_payload (r_body r), []) /\
      In (s_connection, s_close) (all_fields ct_text r true) /\
      c_ws c' = WS_Shutdown /\ c_wshut c' = true.
Proof. exact fivexx_marked_close_on_wire. Qed.

(* C20.6  the oracles evaluated on the implementation's observations hold of the tables *)
Theorem c20_oracle_err_sound :
  forall e cls kd tx,
    In e err_table -> lookup_class spec_classes (e_name e) = Some cls ->
    (forall c body, respond e [] [] = Some (c, body) -> payload_hidden kd tx body = true) ->
    oracle_err cls (e_name e) kd tx (respond e kd tx) = true.
Proof. exact oracle_err_sound. Qed.
Theorem c20_oracle_ctor_sound :
  forall n c, In (n, c) ctor_table -> oracle_ctor n c true = true.
Proof. exact oracle_ctor_sound. Qed.

Example c20_nonvacuous :
  length ctor_table = 15%nat /\ length err_table = 28%nat /\
  (exists e, In e err_table /\ lookup_class spec_classes (e_name e) = Some (ClientErr 431)) /\
  (exists e, In e err_table /\ e_payload e = true /\ lookup_class spec_classes (e_name e) = Some ServerErr).
Proof.
  split; [reflexivity|]. split; [reflexivity|]. split.
  - exists (nth 14 err_table (nth 0 err_table (Build_err_entry [] false false (DLiteral []) RDrop))).
    split; [vm_compute; tauto|vm_compute; reflexivity].
  - exists (nth 10 err_table (nth 0 err_table (Build_err_entry [] false false (DLiteral []) RDrop))).
    split; [vm_compute; tauto|split; vm_compute; reflexivity].
Qed.

Print Assumptions c20_translation_clean.
Print Assumptions c20_ctor_code_matches_name.
Print Assumptions c20_every_variant_classified.
Print Assumptions c20_every_class_has_variant.
Print Assumptions c20_client_errors_specific.
Print Assumptions c20_server_errors_opaque.
Print Assumptions c20_disconnected_drops.
Print Assumptions c20_fivexx_close.
Print Assumptions c20_fivexx_marked_close_on_wire.
Print Assumptions c20_oracle_err_sound.
Print Assumptions c20_oracle_ctor_sound.
